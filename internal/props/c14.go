package props

import (
	"bytes"
	"encoding/json"
	"fmt"

	"github.com/libsv/go-bt/v2"
	"github.com/libsv/go-bt/v2/bscript"

	"verif/internal/rep"
)

// ---- reference tokenizer / template classifier (independent of bscript) ----

// refTokens splits a script into tokens. ok=false when a push is truncated.
// Each token is (opcode, data, isPush).
type refTok struct {
	Op   byte
	Data []byte
	Push bool // opcode 0x01..0x4e
	Off  int
	End  int
}

func refTokenize(b []byte) (toks []refTok, ok bool) {
	i := 0
	for i < len(b) {
		op := b[i]
		start := i
		i++
		switch {
		case op >= 1 && op <= 75:
			if i+int(op) > len(b) {
				return toks, false
			}
			toks = append(toks, refTok{op, b[i : i+int(op)], true, start, i + int(op)})
			i += int(op)
		case op == 0x4c || op == 0x4d || op == 0x4e:
			w := map[byte]int{0x4c: 1, 0x4d: 2, 0x4e: 4}[op]
			if i+w > len(b) {
				return toks, false
			}
			l := 0
			for k := w - 1; k >= 0; k-- {
				l = l<<8 | int(b[i+k])
			}
			i += w
			if l < 0 || i+l > len(b) {
				return toks, false
			}
			toks = append(toks, refTok{op, b[i : i+l], true, start, i + l})
			i += l
		default:
			toks = append(toks, refTok{op, nil, false, start, i})
		}
	}
	return toks, true
}

func validKeyLen(k []byte) bool {
	if len(k) == 33 && (k[0] == 2 || k[0] == 3) {
		return true
	}
	if len(k) == 65 && (k[0] == 4 || k[0] == 6 || k[0] == 7) {
		return true
	}
	return false
}

func refIsP2PKH(b []byte) bool {
	return len(b) == 25 && b[0] == 0x76 && b[1] == 0xa9 && b[2] == 0x14 && b[23] == 0x88 && b[24] == 0xac
}

func refIsData(b []byte) bool {
	return (len(b) >= 1 && b[0] == 0x6a) || (len(b) >= 2 && b[0] == 0 && b[1] == 0x6a)
}

// refTemplate returns the standard template a script canonically instantiates,
// or "" when it is none (minimal direct pushes only, so there is no doubt).
func refTemplate(b []byte) string {
	if len(b) == 0 {
		return ""
	}
	if refIsP2PKH(b) {
		return bscript.ScriptTypePubKeyHash
	}
	if refIsData(b) {
		return bscript.ScriptTypeNullData
	}
	toks, ok := refTokenize(b)
	if !ok {
		return ""
	}
	// P2PK: <33|65 byte key, direct push> CHECKSIG
	if len(toks) == 2 && toks[0].Push && toks[0].Op <= 75 && validKeyLen(toks[0].Data) && toks[1].Op == 0xac {
		return bscript.ScriptTypePubKey
	}
	// bare multisig: OP_m <keys> OP_n CHECKMULTISIG, 1<=m<=n<=16
	if n := len(toks); n >= 4 && toks[n-1].Op == 0xae && toks[0].Op >= 0x51 && toks[0].Op <= 0x60 &&
		toks[n-2].Op >= 0x51 && toks[n-2].Op <= 0x60 {
		m, nn := int(toks[0].Op-0x50), int(toks[n-2].Op-0x50)
		if nn == n-3 && m <= nn {
			good := true
			for _, t := range toks[1 : n-2] {
				if !(t.Push && t.Op <= 75 && validKeyLen(t.Data)) {
					good = false
				}
			}
			if good {
				return bscript.ScriptTypeMultiSig
			}
		}
	}
	// P2PKH inscription: p2pkh 00 63 03 'ord' 51 <ct> 00 <data> 68 [6a ...]
	if len(b) > 25 && refIsP2PKH(b[:25]) {
		rest, ok := refTokenize(b[25:])
		if ok && len(rest) >= 8 && rest[0].Op == 0 && rest[1].Op == 0x63 &&
			rest[2].Push && bytes.Equal(rest[2].Data, []byte("ord")) && rest[3].Op == 0x51 &&
			rest[4].Push && len(rest[4].Data) > 0 && rest[5].Op == 0 && rest[6].Push && len(rest[6].Data) > 0 && rest[7].Op == 0x68 {
			if len(rest) == 8 || rest[8].Op == 0x6a {
				return bscript.ScriptTypePubKeyHashInscription
			}
		}
	}
	return ""
}

// ---- the check ----

type c14Case struct {
	Script HB   `json:"script"`
	JSON   bool `json:"json"` // also marshal an output carrying it via NodeJSON
}

var keyBearing = map[string]bool{
	bscript.ScriptTypePubKey: true, bscript.ScriptTypePubKeyHash: true,
	bscript.ScriptTypeMultiSig: true, bscript.ScriptTypePubKeyHashInscription: true,
}

// c14Check runs the queries twice, each time on a buffer that held ANOTHER script of the same length
// a moment before (its first byte two higher / two lower) and was inspected in that state: an
// answer must be about the bytes the script has now (a reused receive buffer, an in-place edit).
func c14Check(c c14Case) (fs []rep.Finding) {
	seen := map[string]bool{}
	for _, delta := range []int{2, -2} {
		for _, f := range c14CheckPrimed(c, delta) {
			if !seen[f.Key] {
				seen[f.Key] = true
				fs = append(fs, f)
			}
		}
	}
	return fs
}

func c14CheckPrimed(c c14Case, delta int) (fs []rep.Finding) {
	// the queries run on a private copy (with spare capacity behind it): a query that writes
	// into the script must not change the case itself, or the re-execution would judge another script
	raw := append(make([]byte, 0, len(c.Script)+8), c.Script...)
	keep := append([]byte(nil), raw...)
	s := bscript.NewFromBytes(raw)
	var typ string
	q := func(name string, fn func()) {
		if f := rep.Guard(fn); f != nil {
			f.Key = "panic|" + name + "|" + f.Key[len("panic|"):]
			fs = append(fs, *f)
		}
	}
	if len(raw) > 0 {
		raw[0] = byte(int(raw[0]) + delta)
		_ = rep.Guard(func() {
			_, _, _, _ = s.ScriptType(), s.IsP2PK(), s.IsMultiSigOut(), s.IsP2PKHInscription()
			_, _ = s.ParseInscription()
			_, _ = s.ToASM()
			_, _ = s.Addresses()
			_, _ = s.PublicKeyHash()
		})
		copy(raw, keep)
	}
	var isP2PKH, isData, isP2PK, isMS, isInsc bool
	q("ScriptType", func() { typ = s.ScriptType() })
	q("IsP2PKH", func() { isP2PKH = s.IsP2PKH() })
	q("IsP2PK", func() { isP2PK = s.IsP2PK() })
	q("IsP2SH", func() { _ = s.IsP2SH() })
	q("IsData", func() { isData = s.IsData() })
	q("IsMultiSigOut", func() { isMS = s.IsMultiSigOut() })
	q("IsP2PKHInscription", func() { isInsc = s.IsP2PKHInscription() })
	q("IsInscribed", func() { _ = s.IsInscribed() })
	q("PublicKeyHash", func() {
		h, err := s.PublicKeyHash()
		if err == nil && refIsP2PKH(raw) && !bytes.Equal(h, raw[3:23]) {
			fs = append(fs, rep.F("PublicKeyHash|wrong-hash", "P2PKH hash extraction returned other bytes"))
		}
		if err != nil && refIsP2PKH(raw) {
			fs = append(fs, rep.F("PublicKeyHash|error-on-p2pkh", "PublicKeyHash failed on a P2PKH script: "+err.Error()))
		}
	})
	q("Addresses", func() {
		a, err := s.Addresses()
		if refIsP2PKH(raw) && (err != nil || len(a) != 1) {
			fs = append(fs, rep.F("Addresses|p2pkh", "Addresses did not return one address for P2PKH"))
		}
	})
	q("ToASM", func() { _, _ = s.ToASM() })
	q("ParseInscription", func() {
		ia, err := s.ParseInscription()
		if err == nil && ia == nil {
			fs = append(fs, rep.F("ParseInscription|nil", "nil result without error"))
		}
	})
	q("MinPushSize", func() { _ = bscript.MinPushSize(raw) })
	if c.JSON {
		q("NodeJSON", func() {
			tx := bt.NewTx()
			tx.AddOutput(&bt.Output{Satoshis: 1, LockingScript: bscript.NewFromBytes(raw)})
			jb, err1 := json.Marshal(tx.NodeJSON())
			ob, err2 := json.Marshal(tx.Outputs[0].NodeJSON())
			// the type and assembly the node-style document reports are the script's own
			var doc struct {
				Vout []struct {
					ScriptPubKey struct {
						Asm  string `json:"asm"`
						Hex  string `json:"hex"`
						Type string `json:"type"`
					} `json:"scriptPubKey"`
				} `json:"vout"`
			}
			var one struct {
				ScriptPubKey struct {
					Asm  string `json:"asm"`
					Hex  string `json:"hex"`
					Type string `json:"type"`
				} `json:"scriptPubKey"`
			}
			wantAsm, aerr := bscript.NewFromBytes(append([]byte(nil), keep...)).ToASM()
			if err1 == nil && json.Unmarshal(jb, &doc) == nil && len(doc.Vout) == 1 {
				if doc.Vout[0].ScriptPubKey.Type != typ {
					fs = append(fs, rep.F("NodeJSON|type-differs-from-ScriptType", fmt.Sprintf("node JSON reports type %q for a script whose ScriptType is %q", doc.Vout[0].ScriptPubKey.Type, typ)))
				}
				if aerr == nil && doc.Vout[0].ScriptPubKey.Asm != wantAsm {
					fs = append(fs, rep.F("NodeJSON|asm-differs-from-ToASM", "node JSON assembly is not the script's ToASM rendering"))
				}
				if doc.Vout[0].ScriptPubKey.Hex != HB(keep).String() {
					fs = append(fs, rep.F("NodeJSON|hex-differs", "node JSON hex is not the script"))
				}
			}
			if err2 == nil && json.Unmarshal(ob, &one) == nil && one.ScriptPubKey.Type != typ {
				fs = append(fs, rep.F("NodeJSON|type-differs-from-ScriptType", fmt.Sprintf("node JSON (output) reports type %q for a script whose ScriptType is %q", one.ScriptPubKey.Type, typ)))
			}
		})
	}
	if !bytes.Equal(keep, raw) {
		fs = append(fs, rep.F("mutated-script", "an inspection query changed the script bytes"))
	}
	if len(fs) > 0 {
		return fs // classification after a panic is meaningless
	}
	if isP2PKH != refIsP2PKH(raw) {
		fs = append(fs, rep.F("IsP2PKH|mismatch", fmt.Sprintf("IsP2PKH=%v but exact-template=%v", isP2PKH, refIsP2PKH(raw))))
	}
	if (typ == bscript.ScriptTypePubKeyHash) != refIsP2PKH(raw) {
		fs = append(fs, rep.F("ScriptType|p2pkh-mismatch", fmt.Sprintf("ScriptType=%s but exact-template=%v", typ, refIsP2PKH(raw))))
	}
	if isData != refIsData(raw) {
		fs = append(fs, rep.F("IsData|mismatch", fmt.Sprintf("IsData=%v but starts-with-return=%v", isData, refIsData(raw))))
	}
	if typ == bscript.ScriptTypeNullData && !refIsData(raw) {
		fs = append(fs, rep.F("ScriptType|nulldata-not-data", "reported nulldata for a script not starting with OP_RETURN / OP_FALSE OP_RETURN"))
	}
	if len(raw) == 0 && typ != bscript.ScriptTypeEmpty {
		fs = append(fs, rep.F("ScriptType|empty", "empty script typed "+typ))
	}
	_, decodable := refTokenize(raw)
	if !decodable {
		if keyBearing[typ] {
			fs = append(fs, rep.F("ScriptType|undecodable-keybearing|"+typ, "undecodable script reported as "+typ))
		}
		if isP2PK || isMS || isInsc {
			fs = append(fs, rep.F("Is*|undecodable-keybearing", fmt.Sprintf("undecodable script: IsP2PK=%v IsMultiSigOut=%v IsP2PKHInscription=%v", isP2PK, isMS, isInsc)))
		}
	}
	if want := refTemplate(raw); want != "" && typ != want {
		fs = append(fs, rep.F("ScriptType|template|"+want+"|as|"+typ, fmt.Sprintf("canonical %s template reported as %s", want, typ)))
	}
	if want := refTemplate(raw); want != "" {
		switch want {
		case bscript.ScriptTypePubKey:
			if !isP2PK {
				fs = append(fs, rep.F("IsP2PK|template-rejected", "canonical P2PK not recognised"))
			}
		case bscript.ScriptTypeMultiSig:
			if !isMS {
				fs = append(fs, rep.F("IsMultiSigOut|template-rejected", "canonical multisig not recognised"))
			}
		case bscript.ScriptTypePubKeyHashInscription:
			if !isInsc {
				fs = append(fs, rep.F("IsP2PKHInscription|template-rejected", "canonical inscription not recognised"))
			}
		}
	}
	return fs
}

// templates returns the canonical instances that are mutated.
func c14Templates() map[string][]byte {
	h20 := bytes.Repeat([]byte{0xab}, 20)
	k33 := append([]byte{0x02}, bytes.Repeat([]byte{0x11}, 32)...)
	k33b := append([]byte{0x03}, bytes.Repeat([]byte{0x22}, 32)...)
	k65 := append([]byte{0x04}, bytes.Repeat([]byte{0x33}, 64)...)
	push := func(d []byte) []byte { return append([]byte{byte(len(d))}, d...) }
	cat := func(p ...[]byte) []byte { return bytes.Join(p, nil) }
	p2pkh := cat([]byte{0x76, 0xa9}, push(h20), []byte{0x88, 0xac})
	insc := cat(p2pkh, []byte{0x00, 0x63}, push([]byte("ord")), []byte{0x51}, push([]byte("text/plain")), []byte{0x00}, push([]byte("hello")), []byte{0x68})
	return map[string][]byte{
		"p2pkh":        p2pkh,
		"p2pk33":       cat(push(k33), []byte{0xac}),
		"p2pk65":       cat(push(k65), []byte{0xac}),
		"p2sh":         cat([]byte{0xa9}, push(h20), []byte{0x87}),
		"ms1of1":       cat([]byte{0x51}, push(k33), []byte{0x51, 0xae}),
		"ms1of2":       cat([]byte{0x51}, push(k33), push(k33b), []byte{0x52, 0xae}),
		"ms2of2":       cat([]byte{0x52}, push(k33), push(k65), []byte{0x52, 0xae}),
		"ms2of3":       cat([]byte{0x52}, push(k33), push(k33b), push(k33), []byte{0x53, 0xae}),
		"ms3of3":       cat([]byte{0x53}, push(k33), push(k33b), push(k65), []byte{0x53, 0xae}),
		"opreturn":     cat([]byte{0x6a}, push([]byte("data"))),
		"falsereturn":  cat([]byte{0x00, 0x6a}, push([]byte("data")), push([]byte{1, 2})),
		"data3":        cat([]byte{0x00, 0x6a}, push([]byte("abc")), push([]byte("hello world"))),
		"data2":        cat([]byte{0x6a}, push([]byte("ab")), push([]byte("xyz")), []byte{0x51}),
		"inscription":  insc,
		"inscription+": cat(insc, []byte{0x6a}, push([]byte("extra"))),
	}
}

func init() {
	p := register(&Prop{ID: "C14", Level: "exploration",
		Rule: "exhaustive: every byte string of length<=2 (quick) / <=3 (thorough) and every string of length<=4 (quick) / <=5 (thorough) over a 24/40-symbol opcode+push alphabet; every standard template with every byte replaced by every value, every push replaced by 4c00/4d0000/4e00000000/OP_0/truncated push, every part removed, every token and every pair of tokens re-encoded (push through PUSHDATA1/2/4, one-byte opcode as a one-byte push); plus every bare m-of-n multisig with 1<=m<=n<=16 and its off-by-one neighbours; each through all inspection queries, twice, on a buffer that was inspected a moment before while it held another script of the same length (and NodeJSON marshalling for templates and short strings, whose reported type, assembly and hex must be the script's own). distinct_nontrivial = distinct (ScriptType, predicate vector, decodable) classes x script length observed"})
	sp := NewSpace(p, "bytes", c14Check)
	p.Run = func(r *rep.Run, thorough bool) {
		classify := func(c c14Case) []rep.Finding {
			fs := c14Check(c)
			if len(fs) == 0 {
				s := bscript.NewFromBytes(c.Script)
				_, dec := refTokenize(c.Script)
				r.Distinct(s.ScriptType(), s.IsP2PK(), s.IsMultiSigOut(), s.IsData(), s.IsP2SH(), dec, len(c.Script))
			}
			return fs
		}
		full := &Space[c14Case]{P: p, Name: "bytes", Check: classify}
		_ = sp
		// 1. all byte strings up to maxLen
		maxLen := 2
		if thorough {
			maxLen = 3
		}
		for l := 0; l <= maxLen; l++ {
			n := uint64(1)
			for i := 0; i < l; i++ {
				n *= 256
			}
			ll := l
			full.Indexed(r, n, func(i uint64) c14Case {
				b := make([]byte, ll)
				for k := ll - 1; k >= 0; k-- {
					b[k] = byte(i)
					i >>= 8
				}
				return c14Case{Script: b, JSON: ll <= 2}
			})
		}
		r.Sample("bytes", c14Case{Script: HB{0x4c, 0x00, 0xac}})
		// 2. restricted alphabet, longer strings
		alpha := []byte{0x00, 0x01, 0x02, 0x03, 0x4c, 0x4d, 0x4e, 0x4f, 0x51, 0x52, 0x60, 0x63, 0x68, 0x6a, 0x6f, 0x72, 0x64, 0x76, 0x88, 0xa9, 0xac, 0xae, 0x87, 0xff}
		alen := 4
		if thorough {
			alpha = append(alpha, 0x04, 0x14, 0x21, 0x41, 0x4b, 0x50, 0x53, 0x61, 0x67, 0x69, 0x75, 0x7c, 0x80, 0xab, 0xad, 0xaf)
			alen = 5
		}
		for l := maxLen + 1; l <= alen; l++ {
			n := uint64(1)
			for i := 0; i < l; i++ {
				n *= uint64(len(alpha))
			}
			ll := l
			full.Indexed(r, n, func(i uint64) c14Case {
				b := make([]byte, ll)
				for k := ll - 1; k >= 0; k-- {
					b[k] = alpha[i%uint64(len(alpha))]
					i /= uint64(len(alpha))
				}
				return c14Case{Script: b}
			})
		}
		// 3. template mutations
		var muts []c14Case
		add := func(b []byte) { muts = append(muts, c14Case{Script: append([]byte(nil), b...), JSON: true}) }
		for name, t := range c14Templates() {
			add(t)
			r.Sample("template:"+name, HB(t).String())
			for pos := range t {
				for v := 0; v < 256; v++ {
					m := append([]byte(nil), t...)
					m[pos] = byte(v)
					add(m)
				}
			}
			toks, _ := refTokenize(t)
			repl := [][]byte{{0x4c, 0x00}, {0x4d, 0x00, 0x00}, {0x4e, 0, 0, 0, 0}, {0x00}, {0x4c}, {0x4d, 0x01}, {0x05, 0x01}, {0x4e, 0xff, 0xff, 0xff, 0xff}, {0x4e, 0xff, 0xff, 0xff, 0x7f}}
			// every token re-encoded without changing what it decodes to: a push through
			// PUSHDATA1/2/4, a one-byte opcode as a one-byte push of that byte - one token and
			// every pair of tokens (the result is no longer the exact template)
			reenc := func(tk refTok) [][]byte {
				if tk.Push {
					n := len(tk.Data)
					return [][]byte{
						append([]byte{0x4c, byte(n)}, tk.Data...),
						append([]byte{0x4d, byte(n), byte(n >> 8)}, tk.Data...),
						append([]byte{0x4e, byte(n), byte(n >> 8), 0, 0}, tk.Data...),
					}
				}
				return [][]byte{{0x01, tk.Op}, {0x4c, 0x01, tk.Op}}
			}
			for ti, tk := range toks {
				for _, e1 := range reenc(tk) {
					add(bytes.Join([][]byte{t[:tk.Off], e1, t[tk.End:]}, nil))
					for tj := ti + 1; tj < len(toks); tj++ {
						for _, e2 := range reenc(toks[tj]) {
							add(bytes.Join([][]byte{t[:tk.Off], e1, t[tk.End:toks[tj].Off], e2, t[toks[tj].End:]}, nil))
						}
					}
				}
			}
			for ti, tk := range toks {
				// remove the token
				add(append(append([]byte(nil), t[:tk.Off]...), t[tk.End:]...))
				// truncate after the token start / inside
				add(t[:tk.Off])
				if tk.End-tk.Off > 1 {
					add(t[:tk.Off+1])
					add(t[:tk.End-1])
				}
				for _, rp := range repl {
					add(bytes.Join([][]byte{t[:tk.Off], rp, t[tk.End:]}, nil))
					// two tokens replaced at once
					for tj := ti + 1; tj < len(toks); tj++ {
						for _, rp2 := range repl[:4] {
							add(bytes.Join([][]byte{t[:tk.Off], rp, t[tk.End:toks[tj].Off], rp2, t[toks[tj].End:]}, nil))
						}
					}
				}
			}
		}
		// every bare m-of-n multisig, 1 <= m <= n <= 16 (compressed and uncompressed keys mixed),
		// and its neighbours with the count opcodes one off
		for n := 1; n <= 16; n++ {
			for m := 1; m <= n; m++ {
				for _, dm := range []int{0, 1} {
					sc := []byte{byte(0x50 + m)}
					for i := 0; i < n; i++ {
						k := append([]byte{0x02 + byte(i%2)}, bytes.Repeat([]byte{byte(0x10 + i)}, 32)...)
						if i%5 == 4 {
							k = append([]byte{0x04}, bytes.Repeat([]byte{byte(0x10 + i)}, 64)...)
						}
						sc = append(append(sc, byte(len(k))), k...)
					}
					cnt := n + dm
					if cnt > 16 {
						sc = append(sc, 0x01, 0x11) // "17" pushed as data: not a template
					} else {
						sc = append(sc, byte(0x50+cnt))
					}
					add(append(sc, 0xae))
				}
			}
		}
		(&Space[c14Case]{P: p, Name: "bytes", Check: classify}).Slice(r, muts)
		r.Note("template_mutants", len(muts))
	}
}
