package scriptref

import "testing"

func TestAnchor(t *testing.T) {
	vs, err := LoadVectors("../vectors/script_tests.json")
	if err != nil {
		t.Fatal(err)
	}
	bad, errMismatch := 0, 0
	for _, v := range vs {
		tx := SpendingTx(v.Unlock, v.Lock, v.Amount)
		res := Verify(v.Unlock, v.Lock, v.Flags, &TxCtx{Tx: tx, Idx: 0, Amount: v.Amount}, ECDSACheck, false)
		if res.OK != (v.Expect == "OK") {
			bad++
			if bad < 25 {
				t.Errorf("row %d: %x | %x flags=%#x: ref ok=%v err=%s, expected %s", v.Line, v.Unlock, v.Lock, v.Flags, res.OK, res.Err, v.Expect)
			}
		} else if !res.OK && res.Err != v.Expect {
			errMismatch++
			if errMismatch < 40 {
				t.Logf("row %d: error name differs: ref %s, node %s", v.Line, res.Err, v.Expect)
			}
		}
	}
	t.Logf("vectors=%d verdict mismatches=%d error-name mismatches=%d", len(vs), bad, errMismatch)
}
