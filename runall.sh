#!/bin/bash
# runall.sh <quick|thorough>: run every registered check on /repo and summarise.
cd "$(dirname "$0")"
T="${1:-quick}"
for i in C01 C02 C03 C04 C05 C06 C07 C08 C09 C10 C11 C12 C13 C14 C15 C16 C17 C18 C19 C20; do
  ./check.sh $i $T > /tmp/runall_$i.log 2>&1; rc=$?
  echo "$i exit=$rc $(grep -c '^VIOLATION' /tmp/runall_$i.log) violations, $(grep -c '^KNOWN-FINDING' /tmp/runall_$i.log) known: $(tail -1 /tmp/runall_$i.log | cut -c1-150)"
done
