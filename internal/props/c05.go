package props

import (
	"bytes"
	"fmt"
	"sync"

	"github.com/libsv/go-bt/v2"
	"github.com/libsv/go-bt/v2/bscript/interpreter"
	"github.com/libsv/go-bt/v2/bscript/interpreter/scriptflag"

	"verif/internal/ref/scriptref"
	"verif/internal/rep"
)

const (
	fP2SH     = scriptref.P2SH
	fNops     = scriptref.DiscourageNops
	fCLTV     = scriptref.CLTV
	fCSV      = scriptref.CSV
	fClean    = scriptref.CleanStack
	fMinData  = scriptref.MinimalData
	fPushOnly = scriptref.SigPushOnly
	fGenesis  = scriptref.Genesis
	fMinIf    = scriptref.MinimalIf
)

var nonSigFlags = []uint32{fP2SH, fNops, fCLTV, fCSV, fClean, fMinData, fPushOnly, fMinIf, fGenesis}

func validFlags(f uint32) bool { return f&fClean == 0 || f&fP2SH != 0 }

// edge operands
func edgeOperands(thorough bool) [][]byte {
	rep := func(b byte, n int) []byte { return bytes.Repeat([]byte{b}, n) }
	e := [][]byte{
		{}, {0x00}, {0x80}, {0x01}, {0x81}, {0x02}, {0x7f}, {0xff}, {0x08}, {0x09}, {0x10}, {0x11},
		{0x00, 0x80}, {0x80, 0x00}, {0x01, 0x00}, {0xff, 0x7f}, {0xff, 0xff}, {0x00, 0x01},
		{0xff, 0xff, 0xff, 0x7f}, {0xff, 0xff, 0xff, 0xff}, {0x00, 0x00, 0x00, 0x80, 0x00},
		{0xff, 0xff, 0xff, 0xff, 0xff, 0xff, 0xff, 0x7f}, {0, 0, 0, 0, 0, 0, 0, 0x80, 0x00},
		fill(20, 0x31), rep(0x01, 520), rep(0x01, 521),
		{0x01, 0, 0, 0, 0, 0, 0, 0, 0x01}, {0x01, 0, 0, 0, 0x01},
	}
	if thorough {
		e = append(e, []byte{0x00, 0x00}, []byte{0x01, 0x80}, []byte{0x03}, []byte{0x04}, []byte{0x18}, []byte{0x19}, []byte{0x00, 0x00, 0x01},
			[]byte{0xab, 0xcd, 0xef}, []byte{0xff, 0xff, 0xff, 0x7f, 0x00}, []byte{0, 0, 0, 0, 0, 0, 0, 0, 0x01}, fill(32, 0x77), rep(0x00, 9), rep(0xff, 2048),
			[]byte{0x08, 0x02}, []byte{0x09, 0x02})
	}
	return e
}

// lockFor builds the one-instruction locking script for opcode byte b.
func lockFor(b byte) []byte {
	switch {
	case b >= 1 && b <= 75:
		return append([]byte{b}, fill(int(b), 0x01)...)
	case b == 0x4c:
		return []byte{0x4c, 0x02, 0x01, 0x01}
	case b == 0x4d:
		return []byte{0x4d, 0x02, 0x00, 0x01, 0x01}
	case b == 0x4e:
		return []byte{0x4e, 0x02, 0x00, 0x00, 0x00, 0x01, 0x01}
	}
	return []byte{b}
}

type c05Stats struct {
	mu          sync.Mutex
	states      map[[8]byte]struct{}
	transitions int
	traces      int
	skippedSig  int
	accepted    int
}

func c05Check(c scriptCase) []rep.Finding { return lockstep(c, nil).fs }

func init() {
	p := register(&Prop{ID: "C05", Level: "model_checking",
		Rule: "explicit-state exploration of the real interpreter in lockstep with a reference model of the BSV script rules (certified on all 1438 node vectors of script_tests.json, verdict and error name): after every instruction the AfterStep snapshot (data and alt stack) must equal the reference's, and the final verdict must agree. Spaces: (1) operand grid: every opcode byte 0x00..0xff x every tuple of edge operands (arity 1 and 2 over the full edge set, arity 3 over a 12-value subset; shift counts 0..8n+1 for operand lengths 0..3) x both eras x covering flag sets, and all 512 subsets of the nine non-signature flags for the flag-sensitive opcodes, CLTV/CSV against 7x3 transaction contexts; (2) every byte string of length<=2 (quick) / <=3 (thorough) as locking script x 4 seed unlocking scripts x 2 eras (+MINIMALDATA); (3) breadth-first program exploration with canonical-state deduplication over a 15-symbol control-flow alphabet (incl. a non-minimal push) (depth 7/8) and a 51-symbol mixed alphabet (stack, alt, splice, bitwise, shift, arithmetic, hash opcodes, 8 pushes) (depth 3/4) from empty and seeded stacks, every path the rules end inside an open conditional also with its blocks closed (and a true value appended); (3b) the same search on the unlocking side (control-flow alphabet + alt-stack, DUP, CODESEPARATOR; depth 4/5) against 7 fixed locking scripts, deciding what may cross the script boundary; (3c) values pushed or computed (OP_CAT, OP_INVERT twice, in either script), duplicated, both views then transformed by every opcode 0x4f..0xff with different operands; (4) P2SH / limit templates, and P2SH spends of EVERY redeem script of up to two bytes (x clean-stack on/off x with/without an extra item underneath); (5) option forms: ~3,800 cases (every opcode, P2SH spends, OP_RETURN/ELSE/big-number programs x 7 flag words) each requested through 6 equivalent option lists and on an Engine value that executed other programs (other era, P2SH, early return, unbalanced conditional) before (WithAfterGenesis/WithForkID/WithP2SH before or after WithFlags(rest), the flag word split over two WithFlags calls, overlapping, followed by WithFlags(0), WithFlags before WithTx): verdict equals the reference's for the flag word. Scripts whose execution reaches a signature opcode are left to C06. states = distinct canonical machine states (stacks, condition stack, era+flags) seen in snapshots; transitions = instructions executed in lockstep; traces = executions compared",
	})
	NewSpace(p, "grid", c05Check)
	NewSpace(p, "bytes", c05Check)
	NewSpace(p, "bfs", c05Check)
	NewSpace(p, "templates", c05Check)
	spOpt := NewSpace(p, "options", c05OptCheck)
	p.Run = func(r *rep.Run, thorough bool) {
		n, err := scriptref.Anchor(vectorsDir() + "/script_tests.json")
		if err != nil {
			r.HarnessError("script reference failed its anchor: " + err.Error())
			return
		}
		r.Note("reference_anchor_vectors_matched", n)
		st := &c05Stats{states: map[[8]byte]struct{}{}}
		chk := func(c scriptCase) []rep.Finding {
			lr := lockstep(c, nil)
			st.mu.Lock()
			if lr.skipped {
				st.skippedSig++
			} else {
				st.traces++
				st.transitions += lr.steps
				if lr.libErr == nil {
					st.accepted++
				}
			}
			st.mu.Unlock()
			if !lr.skipped && len(lr.fs) == 0 {
				for _, s := range lr.ref.Steps {
					r.Distinct("state", c.Flags, s.Op, fmtStack(s.Stack), fmtStack(s.Alt))
				}
			}
			return lr.fs
		}
		c05Grid(r, p, chk, thorough)
		c05Bytes(r, p, chk, thorough)
		c05BFS(r, p, chk, thorough)
		c05UnlockBFS(r, p, chk, thorough)
		// computed values with two live views, both transformed (family A2 of C08): the second result must
		// not rewrite the first
		(&Space[scriptCase]{P: p, Name: "grid", Check: chk}).Each(r, func(yield func(scriptCase)) {
			twoStageCases([][]byte{{0x01, 0x80}, {0x81}, {0x01, 0x02}, {0x00, 0x80}, {0x01, 0x02, 0x03, 0x80}, fill(8, 0x81)}, yield)
		})
		c05Templates(r, p, chk, thorough)
		c05P2SHAll(r, p, chk)
		c05Options(r, spOpt, thorough)
		r.Note("states", r.DistinctCount())
		r.Note("transitions", st.transitions)
		r.Note("traces_validated_against_impl", st.traces)
		r.Note("skipped_reaching_signature_opcode", st.skippedSig)
		r.Note("accepted_executions", st.accepted)
	}
}

func pushAll(ops ...[]byte) []byte {
	var b []byte
	for _, o := range ops {
		b = append(b, minimalPush(o)...)
	}
	return b
}

func c05Grid(r *rep.Run, p *Prop, chk func(scriptCase) []rep.Finding, thorough bool) {
	E := edgeOperands(thorough)
	sub := E[:12]
	flagSets := []uint32{0, fMinData, fP2SH | fClean | fMinIf, fGenesis, fGenesis | fMinData | fMinIf, fGenesis | fP2SH | fClean}
	sp := &Space[scriptCase]{P: p, Name: "grid", Check: chk}
	sp.Each(r, func(yield func(scriptCase)) {
		for op := 0; op < 256; op++ {
			lock := lockFor(byte(op))
			for _, f := range flagSets {
				yield(scriptCase{Unlock: nil, Lock: lock, Flags: f})
				for _, a := range E {
					yield(scriptCase{Unlock: pushAll(a), Lock: lock, Flags: f})
					for _, b := range E {
						yield(scriptCase{Unlock: pushAll(a, b), Lock: lock, Flags: f})
					}
				}
				for _, a := range sub {
					for _, b := range sub {
						for _, c := range sub {
							yield(scriptCase{Unlock: pushAll(a, b, c), Lock: lock, Flags: f})
						}
					}
				}
			}
		}
		// shifts: every count 0..8n+1 for operand lengths 0..3 (and a 5-byte operand)
		for _, op := range []byte{0x98, 0x99} {
			for _, f := range []uint32{0, fGenesis} {
				for n := 0; n <= 5; n++ {
					if n == 4 {
						continue
					}
					for _, pat := range []byte{0xff, 0x81, 0x5a} {
						v := bytes.Repeat([]byte{pat}, n)
						for k := 0; k <= 8*n+1; k++ {
							cnt := scriptref.NumEncode(bigInt(int64(k)))
							yield(scriptCase{Unlock: pushAll(v, cnt), Lock: []byte{op}, Flags: f})
							// the shifted value is a duplicate: the twin must survive
							yield(scriptCase{Unlock: pushAll(v), Lock: append(append([]byte{0x76}, minimalPush(cnt)...), op), Flags: f})
						}
					}
				}
			}
		}
		// all 512 subsets of the non-signature flags for flag-sensitive instructions
		sens := [][]byte{{0x00}, {0x01, 0x05}, {0x01, 0x81}, {0x4c, 0x01, 0x07}, {0x4d, 0x01, 0x00, 0x07}, {0x4c, 0x00}, {0x63, 0x51, 0x68}, {0x64, 0x51, 0x67, 0x52, 0x68},
			{0x61}, {0xb0}, {0xb1}, {0xb2}, {0xb9}, {0x6a}, {0x51, 0x6a}, {0x51, 0x63, 0x6a, 0x68}, {0x51}, {0x51, 0x51}, {0x76}, {0x65}, {0x8d}, {0x00, 0x63, 0x8d, 0x65, 0x68, 0x51}}
		unl := [][]byte{nil, {0x51}, {0x02, 0x01, 0x00}, {0x00}, {0x52, 0x51}, {0x51, 0x61}}
		for mask := 0; mask < 1<<len(nonSigFlags); mask++ {
			var f uint32
			for i, b := range nonSigFlags {
				if mask&(1<<i) != 0 {
					f |= b
				}
			}
			if !validFlags(f) {
				continue
			}
			for _, l := range sens {
				for _, u := range unl {
					yield(scriptCase{Unlock: u, Lock: l, Flags: f})
				}
			}
		}
		// CLTV / CSV against transaction contexts
		vals := []uint32{0, 1, 2, 499999999, 500000000, 0xfffffffe, 0xffffffff, 0x00400000, 0x00400001, 0x80000000, 0x0000ffff, 0x00010000}
		for _, op := range []byte{0xb1, 0xb2} {
			for _, f := range []uint32{fCLTV | fCSV, fCLTV | fCSV | fMinData, fCLTV | fCSV | fGenesis, 0, fNops} {
				for _, ver := range []uint32{0, 1, 2, 0xffffffff} {
					for _, lt := range vals {
						for _, seq := range vals {
							for _, a := range append(append([][]byte{}, E[:22]...), scriptref.NumEncode(bigInt(499999999)), scriptref.NumEncode(bigInt(500000000)), scriptref.NumEncode(bigInt(0x400000)), scriptref.NumEncode(bigInt(0x400001)), scriptref.NumEncode(bigInt(0x80000000)), scriptref.NumEncode(bigInt(0xffffffff)), scriptref.NumEncode(bigInt(0x10000))) {
								if !thorough && len(a) > 5 {
									continue
								}
								yield(scriptCase{Unlock: pushAll(a), Lock: []byte{op}, Flags: f, Version: ver, LockTime: lt, Sequence: seq})
							}
						}
					}
				}
			}
		}
	})
	r.Sample("grid", scriptCase{Unlock: pushAll([]byte{0xff, 0xff}, []byte{0x09}), Lock: []byte{0x98}, Flags: fGenesis})
}

func c05Bytes(r *rep.Run, p *Prop, chk func(scriptCase) []rep.Finding, thorough bool) {
	sp := &Space[scriptCase]{P: p, Name: "bytes", Check: chk}
	seeds := [][]byte{nil, {0x51}, {0x00, 0x51}, {0x02, 0x01, 0x02, 0x51, 0x52}}
	flagSets := []uint32{0, fMinData, fGenesis, fGenesis | fMinData}
	maxLen := 2
	if thorough {
		maxLen = 3
	}
	for l := 0; l <= maxLen; l++ {
		n := uint64(1) << (8 * l)
		ll := l
		combos := uint64(len(seeds) * len(flagSets))
		sp.Indexed(r, n*combos, func(i uint64) scriptCase {
			k := i % combos
			i /= combos
			b := make([]byte, ll)
			for j := ll - 1; j >= 0; j-- {
				b[j] = byte(i)
				i >>= 8
			}
			return scriptCase{Unlock: seeds[k%uint64(len(seeds))], Lock: b, Flags: flagSets[k/uint64(len(seeds))]}
		})
	}
	r.Sample("bytes", scriptCase{Unlock: []byte{0x51}, Lock: []byte{0x76, 0x87}, Flags: fGenesis})
}

// symbol alphabets for the program exploration
func ctlAlphabet() [][]byte {
	return [][]byte{{0x63}, {0x64}, {0x67}, {0x68}, {0x65}, {0x6a}, {0x8d}, {0x50}, {0x61}, {0x69}, {0x00}, {0x51}, {0x02, 0x01, 0x00}, {0x66}, {0x01, 0x05}}
}

func mixAlphabet() [][]byte {
	syms := [][]byte{}
	for _, b := range []byte{0x76, 0x6e, 0x6f, 0x78, 0x70, 0x79, 0x7a, 0x7b, 0x7c, 0x7d, 0x73, 0x77, 0x75, 0x74, // stack
		0x6b, 0x6c, // alt
		0x7e, 0x7f, 0x80, 0x81, 0x82, // splice
		0x83, 0x84, 0x85, 0x86, 0x87, 0x98, 0x99, // bitwise / shift
		0x8b, 0x8f, 0x93, 0x94, 0x95, 0x96, 0x97, 0x9f, 0xa4, 0xa5, // arithmetic
		0xa6, 0xa7, 0xa8, 0xa9, 0xaa} { // hashes (two live results must not share storage)
		syms = append(syms, []byte{b})
	}
	for _, d := range [][]byte{{}, {0x01}, {0x02}, {0x81}, {0x80}, {0x00, 0x01}, {0xff, 0xff, 0xff, 0x7f}, {0x09}} {
		syms = append(syms, minimalPush(d))
	}
	return syms
}

func syntacticNesting(path [][]byte) int {
	n := 0
	for _, s := range path {
		switch s[0] {
		case 0x63, 0x64, 0x65, 0x66:
			if len(s) == 1 {
				n++
			}
		case 0x68:
			if len(s) == 1 {
				n--
			}
		}
	}
	return n
}

// c05BFS: breadth-first exploration of programs with canonical-state deduplication.
func c05BFS(r *rep.Run, p *Prop, chk func(scriptCase) []rep.Finding, thorough bool) {
	c05BFSJob(r, p, "bfs", chk, thorough, false)
}

// c05BFSJob runs the program search; mixedOnly restricts it to the mixed alphabet.
func c05BFSJob(r *rep.Run, p *Prop, space string, chk func(scriptCase) []rep.Finding, thorough bool, mixedOnly bool) {
	type job struct {
		name  string
		syms  [][]byte
		depth int
		seeds [][]byte
		flags []uint32
	}
	E := edgeOperands(false)
	var seeds2 [][]byte
	seeds2 = append(seeds2, nil)
	for _, a := range E[:14] {
		seeds2 = append(seeds2, pushAll(a))
	}
	for _, a := range E[:8] {
		for _, b := range E[:8] {
			seeds2 = append(seeds2, pushAll(a, b))
		}
	}
	cd, md := 7, 3
	if thorough {
		cd, md = 8, 4
	}
	jobs := []job{
		{"control-flow", ctlAlphabet(), cd, [][]byte{nil, {0x51}, {0x00, 0x51}, {0x00}}, []uint32{0, fGenesis, fMinIf, fGenesis | fMinIf | fMinData}},
		{"mixed", mixAlphabet(), md, seeds2, []uint32{0, fGenesis}},
	}
	if mixedOnly {
		jobs = jobs[1:]
	}
	totalStates, totalTrans := 0, 0
	for _, j := range jobs {
		for _, f := range j.flags {
			for _, seed := range j.seeds {
				seen := map[string]struct{}{}
				frontier := [][]int{{}}
				for d := 0; d < j.depth && len(frontier) > 0; d++ {
					// every (path, symbol) pair is a complete script that is executed in lockstep
					var cases []scriptCase
					var paths [][]int
					for _, path := range frontier {
						for si := range j.syms {
							np := append(append([]int(nil), path...), si)
							var lock []byte
							for _, k := range np {
								lock = append(lock, j.syms[k]...)
							}
							cases = append(cases, scriptCase{Unlock: seed, Lock: lock, Flags: f})
							paths = append(paths, np)
						}
					}
					(&Space[scriptCase]{P: p, Name: space, Check: chk}).Slice(r, cases)
					totalTrans += len(cases)
					// successors: canonical state of the prefix decides whether it is expanded further
					var next [][]int
					var closed []scriptCase
					for i, c := range cases {
						rt, amt := c.ctx()
						key, alive := scriptref.Explore(c.Unlock, c.Lock, c.Flags, &scriptref.TxCtx{Tx: rt, Idx: 0, Amount: amt})
						var syn [][]byte
						for _, k := range paths[i] {
							syn = append(syn, j.syms[k])
						}
						if !alive {
							// a path the rules end inside an open conditional is not extended, but the library's
							// up-front parser refuses unbalanced scripts, so it never gets to show whether IT
							// stops there: close the open blocks (and leave a true value) and compare once more
							if n := syntacticNesting(syn); n > 0 {
								cl := append(append([]byte(nil), c.Lock...), bytes.Repeat([]byte{0x68}, n)...)
								closed = append(closed, scriptCase{Unlock: c.Unlock, Lock: cl, Flags: c.Flags},
									scriptCase{Unlock: c.Unlock, Lock: append(append([]byte(nil), cl...), 0x51), Flags: c.Flags})
							}
							continue
						}
						key += fmt.Sprintf("|syn%d", syntacticNesting(syn))
						if _, ok := seen[key]; ok {
							continue
						}
						seen[key] = struct{}{}
						next = append(next, paths[i])
					}
					if len(closed) > 0 {
						(&Space[scriptCase]{P: p, Name: space, Check: chk}).Slice(r, closed)
						totalTrans += len(closed)
					}
					frontier = next
				}
				totalStates += len(seen)
			}
		}
	}
	r.Note("bfs_canonical_states", totalStates)
	r.Note("bfs_transitions", totalTrans)
	r.Sample("bfs", map[string]any{"alphabet": "control-flow", "path": "IF ELSE ELSE ENDIF RETURN", "seed": "51", "flags": "post-genesis"})
}

func c05Templates(r *rep.Run, p *Prop, chk func(scriptCase) []rep.Finding, thorough bool) {
	var cases []scriptCase
	redeems := [][]byte{{0x51}, {0x00}, {0x76, 0x87}, {0x6a}, {0x51, 0x6b}, {0x63, 0x51, 0x68}, {0x4c}, {}, {0x61}, {0x75}, {0x51, 0x51}}
	for _, rd := range redeems {
		h := refHash160(rd)
		lock := append(append([]byte{0xa9, 0x14}, h...), 0x87)
		badLock := append(append([]byte{0xa9, 0x14}, fill(20, 9)...), 0x87)
		for _, f := range []uint32{0, fP2SH, fP2SH | fClean, fGenesis, fGenesis | fP2SH, fGenesis | fP2SH | fClean, fP2SH | fPushOnly} {
			for _, pre := range [][]byte{nil, {0x51}, {0x00}, {0x51, 0x61}, {0x51, 0x76}, {0x61}} {
				u := append(append([]byte(nil), pre...), minimalPush(rd)...)
				cases = append(cases, scriptCase{Unlock: u, Lock: lock, Flags: f}, scriptCase{Unlock: u, Lock: badLock, Flags: f})
			}
			cases = append(cases, scriptCase{Unlock: nil, Lock: lock, Flags: f})
		}
	}
	// limits: script size, op count, stack depth, element size (both sides of each)
	rept := func(b []byte, n int) []byte { return bytes.Repeat(b, n) }
	for _, f := range []uint32{0, fGenesis} {
		for _, n := range []int{9999, 10000, 10001} {
			cases = append(cases, scriptCase{Unlock: []byte{0x51}, Lock: append([]byte{0x4d, byte((n - 4) & 0xff), byte((n - 4) >> 8)}, append(rept([]byte{0}, n-4), 0x75)...), Flags: f})
			cases = append(cases, scriptCase{Unlock: append([]byte{0x4d, byte((n - 3) & 0xff), byte((n - 3) >> 8)}, rept([]byte{0}, n-3)...), Lock: []byte{0x75, 0x51}, Flags: f})
		}
		for _, n := range []int{499, 500, 501, 502} {
			cases = append(cases, scriptCase{Unlock: []byte{0x51}, Lock: rept([]byte{0x61}, n), Flags: f})
			cases = append(cases, scriptCase{Unlock: []byte{0x00}, Lock: append(append([]byte{0x63}, rept([]byte{0x61}, n-2)...), 0x68, 0x51), Flags: f})
		}
		for _, n := range []int{999, 1000, 1001, 1002} {
			cases = append(cases, scriptCase{Unlock: rept([]byte{0x51}, n), Lock: []byte{0x51}, Flags: f})
			cases = append(cases, scriptCase{Unlock: rept([]byte{0x51}, n-1), Lock: []byte{0x6b, 0x51, 0x51}, Flags: f})
			cases = append(cases, scriptCase{Unlock: rept([]byte{0x51}, n/2), Lock: append(rept([]byte{0x51, 0x6b}, n-n/2), 0x51), Flags: f})
		}
		for _, n := range []int{519, 520, 521} {
			cases = append(cases, scriptCase{Unlock: minimalPush(rept([]byte{1}, n)), Lock: []byte{0x51}, Flags: f})
			cases = append(cases, scriptCase{Unlock: append([]byte{0x00, 0x63}, append(minimalPush(rept([]byte{1}, n)), 0x68, 0x51)...), Lock: []byte{0x51}, Flags: f})
			cases = append(cases, scriptCase{Unlock: pushAll(rept([]byte{1}, n-1), []byte{2}), Lock: []byte{0x7e}, Flags: f})
		}
		// big numbers
		for _, n := range []int{4, 5, 100, 2048} {
			big1 := append(rept([]byte{0xff}, n-1), 0x7f)
			for _, op := range []byte{0x93, 0x95, 0x96, 0x97, 0x8b, 0x8f, 0x90, 0x9f, 0x81} {
				cases = append(cases, scriptCase{Unlock: pushAll(big1, big1), Lock: []byte{op}, Flags: f})
				cases = append(cases, scriptCase{Unlock: pushAll(big1, []byte{0x03}), Lock: []byte{op, 0x76, op}, Flags: f})
			}
		}
		// the alt stack does not survive a script change, also through OP_RETURN
		cases = append(cases,
			scriptCase{Unlock: []byte{0x51, 0x6b, 0x51}, Lock: []byte{0x6c}, Flags: f},
			scriptCase{Unlock: []byte{0x51, 0x6b, 0x51, 0x6a}, Lock: []byte{0x6c}, Flags: f},
			scriptCase{Unlock: []byte{0x51, 0x6b, 0x51, 0x6a}, Lock: []byte{0x51}, Flags: f},
			scriptCase{Unlock: []byte{0x51, 0x6a, 0x05}, Lock: []byte{0x51}, Flags: f},
			scriptCase{Unlock: []byte{0x51}, Lock: []byte{0x00, 0x63, 0x65, 0x68, 0x6a, 0x05}, Flags: f},
			scriptCase{Unlock: []byte{0x51}, Lock: []byte{0x00, 0x63, 0x66, 0x68, 0x6a, 0x4c}, Flags: f},
			scriptCase{Unlock: []byte{0x51}, Lock: []byte{0x51, 0x63, 0x6a, 0x68, 0x6a, 0x05}, Flags: f},
			scriptCase{Unlock: []byte{0x51}, Lock: []byte{0x51, 0x63, 0x6a, 0x67, 0x05}, Flags: f},
		)
	}
	(&Space[scriptCase]{P: p, Name: "templates", Check: chk}).Slice(r, cases)
	r.Note("template_cases", len(cases))
	r.Sample("templates", cases[3])
}

// c05UnlockBFS explores programs on the UNLOCKING side against a few fixed locking
// scripts: what must not cross the script boundary (alt stack, open conditionals, an
// early return) is decided here.
func c05P2SHAll(r *rep.Run, p *Prop, chk func(scriptCase) []rep.Finding) {
	// P2SH spends of EVERY redeem script of up to two bytes
	(&Space[scriptCase]{P: p, Name: "templates", Check: chk}).Indexed(r, (1+256+65536)*4, func(i uint64) scriptCase {
		f := []uint32{fP2SH, fP2SH | fClean}[i%2]
		pre := [][]byte{nil, {0x51}}[i/2%2]
		i /= 4
		var rd []byte
		switch {
		case i == 0:
			rd = []byte{}
		case i <= 256:
			rd = []byte{byte(i - 1)}
		default:
			rd = []byte{byte((i - 257) >> 8), byte(i - 257)}
		}
		lock := append(append([]byte{0xa9, 0x14}, refHash160(rd)...), 0x87)
		return scriptCase{Unlock: append(append([]byte(nil), pre...), minimalPush(rd)...), Lock: lock, Flags: f}
	})
}

func c05UnlockBFS(r *rep.Run, p *Prop, chk func(scriptCase) []rep.Finding, thorough bool) {
	syms := append(ctlAlphabet(), []byte{0x6b}, []byte{0x6c}, []byte{0x76}, []byte{0xab})
	locks := [][]byte{{0x51}, {0x6c}, {0x68, 0x51}, {0x75, 0x51}, {0x67, 0x51, 0x68}, {}, {0x6a}}
	depth := 4
	if thorough {
		depth = 5
	}
	states, trans := 0, 0
	for _, f := range []uint32{0, fGenesis, fGenesis | fP2SH | fClean, fPushOnly} {
		seen := map[string]struct{}{}
		frontier := [][]int{{}}
		for d := 0; d < depth && len(frontier) > 0; d++ {
			var cases []scriptCase
			var paths [][]int
			for _, path := range frontier {
				for si := range syms {
					np := append(append([]int(nil), path...), si)
					var u []byte
					for _, k := range np {
						u = append(u, syms[k]...)
					}
					paths = append(paths, np)
					for _, l := range locks {
						cases = append(cases, scriptCase{Unlock: u, Lock: l, Flags: f})
					}
				}
			}
			(&Space[scriptCase]{P: p, Name: "bfs", Check: chk}).Slice(r, cases)
			trans += len(cases)
			var next [][]int
			for _, np := range paths {
				var u []byte
				var syn [][]byte
				for _, k := range np {
					u = append(u, syms[k]...)
					syn = append(syn, syms[k])
				}
				c := scriptCase{Lock: u, Flags: f}
				rt, amt := c.ctx()
				key, alive := scriptref.Explore(nil, u, f&^fPushOnly, &scriptref.TxCtx{Tx: rt, Idx: 0, Amount: amt})
				if !alive {
					continue
				}
				key += fmt.Sprintf("|syn%d", syntacticNesting(syn))
				if _, ok := seen[key]; !ok {
					seen[key] = struct{}{}
					next = append(next, np)
				}
			}
			frontier = next
		}
		states += len(seen)
	}
	r.Note("unlock_side_bfs_states", states)
	r.Note("unlock_side_bfs_transitions", trans)
}

// c05OptCase: the same execution requested through a different but equivalent list of options.
type c05OptCase struct {
	scriptCase
	// Form: 1 dedicated flag options (WithAfterGenesis/WithForkID/WithP2SH) first, the remaining
	// flags through WithFlags; 2 the same in the opposite order; 3 the flag word split over two
	// WithFlags calls; 4 dedicated options and the whole word; 5 the whole word then WithFlags(0);
	// 6 WithFlags before WithTx; 7/8 plain options on an Engine value that has executed other
	// programs (other era, P2SH, OP_RETURN inside a branch, an unbalanced conditional) before
	Form int `json:"option_form"`
}

func c05OptCheck(c c05OptCase) (fs []rep.Finding) {
	rt, amount := c.ctx()
	ref := scriptref.Verify(c.Unlock, c.Lock, c.Flags, &scriptref.TxCtx{Tx: rt, Idx: c.idx(), Amount: amount}, nil, false)
	if ref.UsedSig || ref.TooBig {
		return nil
	}
	tx := toLib(rt)
	ix := c.idx()
	prev := &bt.Output{Satoshis: amount, LockingScript: libScript(c.Lock)}
	F := scriptflag.Flag(c.Flags)
	var ded []interpreter.ExecutionOptionFunc
	rest := F
	if F.HasFlag(scriptflag.UTXOAfterGenesis) {
		ded = append(ded, interpreter.WithAfterGenesis())
		rest &^= scriptflag.UTXOAfterGenesis
	}
	if F.HasFlag(scriptflag.EnableSighashForkID) {
		ded = append(ded, interpreter.WithForkID())
		rest &^= scriptflag.EnableSighashForkID
	}
	if F.HasFlag(scriptflag.Bip16) {
		ded = append(ded, interpreter.WithP2SH())
		rest &^= scriptflag.Bip16
	}
	withTx := interpreter.WithTx(tx, ix, prev)
	var opts []interpreter.ExecutionOptionFunc
	switch c.Form {
	case 1:
		opts = append(append([]interpreter.ExecutionOptionFunc{withTx}, ded...), interpreter.WithFlags(rest))
	case 2:
		opts = append([]interpreter.ExecutionOptionFunc{withTx, interpreter.WithFlags(rest)}, ded...)
	case 3:
		opts = []interpreter.ExecutionOptionFunc{withTx, interpreter.WithFlags(F & 0xaaaaaaaa), interpreter.WithFlags(F & 0x55555555)}
	case 4:
		opts = append(append([]interpreter.ExecutionOptionFunc{withTx}, ded...), interpreter.WithFlags(F))
	case 5:
		opts = []interpreter.ExecutionOptionFunc{withTx, interpreter.WithFlags(F), interpreter.WithFlags(0)}
	case 6:
		opts = []interpreter.ExecutionOptionFunc{interpreter.WithFlags(F), withTx}
	default:
		opts = []interpreter.ExecutionOptionFunc{withTx, interpreter.WithFlags(F)}
	}
	eng := interpreter.NewEngine()
	switch c.Form {
	case 7: // the Engine value has executed a pre-genesis P2SH spend before
		rd := []byte{0x51}
		_ = eng.Execute(interpreter.WithScripts(libScript(append(append([]byte{0xa9, 0x14}, refHash160(rd)...), 0x87)), libScript(minimalPush(rd))), interpreter.WithFlags(scriptflag.Bip16|scriptflag.VerifyCleanStack))
	case 8: // ... a post-genesis conditional that ends through OP_RETURN inside a branch, and a failing run
		_ = eng.Execute(interpreter.WithScripts(libScript([]byte{0x63, 0x51, 0x6b, 0x6a, 0x67, 0x00, 0x68}), libScript([]byte{0x51})), interpreter.WithAfterGenesis())
		_ = eng.Execute(interpreter.WithScripts(libScript([]byte{0x63, 0x63}), libScript([]byte{0x51, 0x51})), interpreter.WithAfterGenesis())
	}
	err := eng.Execute(opts...)
	if (err == nil) != ref.OK {
		fs = append(fs, rep.F(fmt.Sprintf("options|form=%d|%s", c.Form, era(c.Flags)),
			fmt.Sprintf("requested through option form %d the verdict is %s, the BSV rules for flag word %#x give ok=%v (%s)", c.Form, errText(err), c.Flags, ref.OK, ref.Err)))
	}
	return
}

func c05Options(r *rep.Run, sp *Space[c05OptCase], thorough bool) {
	var base []scriptCase
	flagSets := []uint32{fGenesis, fGenesis | fMinData | fMinIf, fP2SH | fClean, fP2SH, scriptref.ForkID | fGenesis, scriptref.ForkID | fP2SH | fClean | fNops, fGenesis | fP2SH | fClean}
	for op := 0; op < 256; op++ {
		lock := lockFor(byte(op))
		for _, f := range flagSets {
			base = append(base, scriptCase{Unlock: pushAll([]byte{0x02}, []byte{0x01}), Lock: lock, Flags: f})
			base = append(base, scriptCase{Unlock: pushAll(fill(5, 0x11), []byte{0x03}, []byte{}), Lock: append(append([]byte{0x63}, lock...), 0x67, 0x51, 0x68), Flags: f})
		}
	}
	for _, rd := range [][]byte{{0x51}, {0x00}, {0x76, 0x87}, {0x6a}, {0x51, 0x6b}} {
		lock := append(append([]byte{0xa9, 0x14}, refHash160(rd)...), 0x87)
		for _, f := range flagSets {
			for _, pre := range [][]byte{nil, {0x51}, {0x51, 0x61}} {
				base = append(base, scriptCase{Unlock: append(append([]byte(nil), pre...), minimalPush(rd)...), Lock: lock, Flags: f})
			}
		}
	}
	for _, f := range flagSets {
		base = append(base,
			scriptCase{Unlock: []byte{0x51, 0x6a}, Lock: []byte{0x00}, Flags: f},
			scriptCase{Unlock: []byte{0x51}, Lock: []byte{0x51, 0x6a, 0x05}, Flags: f},
			scriptCase{Unlock: []byte{0x51}, Lock: []byte{0x63, 0x51, 0x67, 0x51, 0x67, 0x51, 0x68}, Flags: f},
			scriptCase{Unlock: pushAll(bytes.Repeat([]byte{0xff}, 6), []byte{0x01}), Lock: []byte{0x93, 0x75, 0x51}, Flags: f},
			scriptCase{Unlock: []byte{0x51, 0x51}, Lock: []byte{0x51}, Flags: f},
		)
	}
	var cases []c05OptCase
	for _, b := range base {
		for form := 1; form <= 8; form++ {
			cases = append(cases, c05OptCase{b, form})
		}
	}
	sp.Slice(r, cases)
	r.Note("option_form_cases", len(cases))
}
