// Package rep is the reporting half of the verification framework: it counts
// what a run explored, turns oracle failures into replayable violation files,
// matches them against the committed known-findings list and writes the
// evidence file the harness reads.
package rep

import (
	"crypto/sha256"
	"encoding/hex"
	"encoding/json"
	"fmt"
	"os"
	"path/filepath"
	"regexp"
	"runtime/debug"
	"sort"
	"strconv"
	"strings"
	"sync"
	"sync/atomic"
	"time"
)

// Root is the directory of the framework (cwd of every check).
var Root = func() string {
	if d := os.Getenv("VERIF_ROOT"); d != "" {
		return d
	}
	d, _ := os.Getwd()
	return d
}()

// outDir is where evidence/ and violations/ are written: the framework root, or
// VERIF_OUT for side runs (seed evaluation against a scratch copy of the library)
// that must not overwrite the evidence of the registered checks.
func outDir() string {
	if d := os.Getenv("VERIF_OUT"); d != "" {
		return d
	}
	return Root
}

// Finding is one oracle failure. Key names the call site, failure kind and
// operand class (narrow enough that a different failure has a different key).
type Finding struct {
	Key    string         `json:"key"`
	What   string         `json:"what"`
	Detail map[string]any `json:"detail,omitempty"`
}

// F is a convenience constructor.
func F(key, what string, kv ...any) Finding {
	f := Finding{Key: key, What: what}
	if len(kv) > 0 {
		f.Detail = map[string]any{}
		for i := 0; i+1 < len(kv); i += 2 {
			f.Detail[fmt.Sprint(kv[i])] = kv[i+1]
		}
	}
	return f
}

type known struct {
	Property string `json:"property"`
	Key      string `json:"key"`
	Status   string `json:"status"` // known | fixed
	Commit   string `json:"commit,omitempty"`
	What     string `json:"what"`
}

// Run accumulates the result of one check invocation.
type Run struct {
	ID    string
	Tier  string
	Level string
	Seed  int64
	start time.Time

	evals atomic.Uint64

	mu         sync.Mutex
	distinct   map[[8]byte]struct{}
	samples    []any
	sampleSeen map[string]int
	vioKeys    map[string]int // key -> count
	knownHit   map[string]bool
	violations int
	harnessErr []string
	knownList  []known
	notes      map[string]any
	incomplete []string
}

// Start begins a run for property id.
func Start(id, tier, level string) *Run {
	r := &Run{ID: id, Tier: tier, Level: level, start: time.Now(),
		distinct: map[[8]byte]struct{}{}, sampleSeen: map[string]int{},
		vioKeys: map[string]int{}, knownHit: map[string]bool{}, notes: map[string]any{}}
	if s := os.Getenv("VERIF_SEED"); s != "" {
		r.Seed, _ = strconv.ParseInt(s, 10, 64)
	}
	b, err := os.ReadFile(filepath.Join(Root, "known_findings.json"))
	if err == nil {
		var all []known
		if err := json.Unmarshal(b, &all); err != nil {
			fmt.Fprintln(os.Stderr, "known_findings.json unreadable:", err)
			os.Exit(2)
		}
		for _, k := range all {
			if k.Property == id {
				r.knownList = append(r.knownList, k)
			}
		}
	}
	return r
}

// Eval counts n evaluated cases.
func (r *Run) Eval(n uint64) { r.evals.Add(n) }

// Evals returns the count so far.
func (r *Run) Evals() uint64 { return r.evals.Load() }

// Distinct records a non-trivial case identity (any string/bytes); duplicates are
// counted once.
func (r *Run) Distinct(parts ...any) {
	h := sha256.New()
	for _, p := range parts {
		switch v := p.(type) {
		case []byte:
			h.Write(v)
		case string:
			h.Write([]byte(v))
		default:
			fmt.Fprint(h, v)
		}
		h.Write([]byte{0})
	}
	var k [8]byte
	copy(k[:], h.Sum(nil))
	r.mu.Lock()
	r.distinct[k] = struct{}{}
	r.mu.Unlock()
}

// DistinctCount returns the number of distinct identities recorded.
func (r *Run) DistinctCount() int {
	r.mu.Lock()
	defer r.mu.Unlock()
	return len(r.distinct)
}

// Sample keeps up to 3 samples per class for the evidence file.
func (r *Run) Sample(class string, s any) {
	r.mu.Lock()
	defer r.mu.Unlock()
	if r.sampleSeen[class] >= 2 || len(r.samples) >= 24 {
		return
	}
	r.sampleSeen[class]++
	r.samples = append(r.samples, map[string]any{"space": class, "case": s})
}

// Note adds an extra key to the coverage object.
func (r *Run) Note(k string, v any) {
	r.mu.Lock()
	r.notes[k] = v
	r.mu.Unlock()
}

// AddCount adds n to an integer coverage note.
func (r *Run) AddCount(k string, n int) {
	r.mu.Lock()
	c, _ := r.notes[k].(int)
	r.notes[k] = c + n
	r.mu.Unlock()
}

// Incomplete records that a cap was hit; the run is then not exhaustive.
func (r *Run) Incomplete(why string) {
	r.mu.Lock()
	r.incomplete = append(r.incomplete, why)
	r.mu.Unlock()
}

// HarnessError records a failure of the machinery itself (anchor failed,
// nondeterminism): exit code 2, no VIOLATION line.
func (r *Run) HarnessError(msg string) {
	r.mu.Lock()
	if len(r.harnessErr) < 20 {
		r.harnessErr = append(r.harnessErr, msg)
		fmt.Println("HARNESS-ERROR:", msg)
	}
	r.mu.Unlock()
}

func (r *Run) match(key string) *known {
	for i := range r.knownList {
		k := &r.knownList[i]
		if k.Key == key {
			return k
		}
		if strings.HasSuffix(k.Key, "*") && strings.HasPrefix(key, strings.TrimSuffix(k.Key, "*")) {
			return k
		}
	}
	return nil
}

// Report files a finding for the case `input` (JSON-serialisable; replayable
// through `vcheck replay`). space names the enumeration the case came from.
func (r *Run) Report(space string, input any, f Finding) {
	r.mu.Lock()
	defer r.mu.Unlock()
	if k := r.match(f.Key); k != nil && k.Status == "known" {
		if !r.knownHit[k.Key] {
			r.knownHit[k.Key] = true
			fmt.Printf("KNOWN-FINDING: property=%s %s [%s]\n", r.ID, k.What, k.Key)
		}
		c, _ := r.notes["known_finding_hits"].(int)
		r.notes["known_finding_hits"] = c + 1
		return
	}
	r.violations++
	r.vioKeys[f.Key]++
	if r.vioKeys[f.Key] > 3 { // a few witnesses per key are enough
		return
	}
	doc := map[string]any{"property": r.ID, "space": space, "key": f.Key, "what": f.What,
		"detail": f.Detail, "input": input}
	b, _ := json.MarshalIndent(doc, "", " ")
	sum := sha256.Sum256(b)
	dir := filepath.Join(outDir(), "violations", r.ID)
	_ = os.MkdirAll(dir, 0o755)
	p := filepath.Join(dir, hex.EncodeToString(sum[:6])+".json")
	_ = os.WriteFile(p, b, 0o644)
	fmt.Printf("VIOLATION property=%s replay=%s\n", r.ID, p)
	fmt.Printf("  key=%s\n  what=%s\n", f.Key, f.What)
}

// Finish writes the evidence file and returns the process exit code.
func (r *Run) Finish(rule string) int {
	r.mu.Lock()
	defer r.mu.Unlock()
	cov := map[string]any{
		"evaluations":         r.evals.Load(),
		"distinct_nontrivial": len(r.distinct),
		"rule":                rule,
		"samples":             r.samples,
		"exhaustive":          len(r.incomplete) == 0,
	}
	if len(r.incomplete) > 0 {
		cov["caps_hit"] = r.incomplete
	}
	for k, v := range r.notes {
		cov[k] = v
	}
	if len(r.samples) == 0 {
		cov["samples"] = []any{"(none recorded)"}
	}
	keys := make([]string, 0, len(r.vioKeys))
	for k := range r.vioKeys {
		keys = append(keys, k)
	}
	sort.Strings(keys)
	if len(keys) > 0 {
		cov["violation_keys"] = keys
	}
	kk := []string{}
	for k := range r.knownHit {
		kk = append(kk, k)
	}
	sort.Strings(kk)
	if len(kk) > 0 {
		cov["known_findings_seen"] = kk
	}
	ev := map[string]any{
		"property_id": r.ID, "tier": r.Tier, "seed": r.Seed, "level": r.Level,
		"coverage": cov, "wall_s": time.Since(r.start).Seconds(), "violations": r.violations,
		"assumptions": []string{
			"trusted base: Go toolchain, crypto/*, encoding/json, go-bk (ECDSA, base58), x/crypto ripemd160",
			"space bounded as stated in coverage.rule; nothing outside it is claimed",
		},
	}
	if len(r.harnessErr) > 0 {
		ev["harness_errors"] = r.harnessErr
	}
	b, _ := json.MarshalIndent(ev, "", " ")
	_ = os.MkdirAll(filepath.Join(outDir(), "evidence"), 0o755)
	if err := os.WriteFile(filepath.Join(outDir(), "evidence", r.ID+".json"), b, 0o644); err != nil {
		fmt.Println("cannot write evidence:", err)
		return 2
	}
	fmt.Printf("%s %s: evaluations=%d distinct=%d violations=%d known_hits=%v wall=%.1fs exhaustive=%v\n",
		r.ID, r.Tier, r.evals.Load(), len(r.distinct), r.violations, r.notes["known_finding_hits"],
		time.Since(r.start).Seconds(), len(r.incomplete) == 0)
	// confirmed violations decide the exit code; harness errors alone (no confirmed
	// violation) mean the machinery is at fault: exit 2, no verdict
	if r.violations > 0 {
		return 1
	}
	if len(r.harnessErr) > 0 {
		return 2
	}
	return 0
}

var (
	numRe = regexp.MustCompile(`-?\d+`)
	hexRe = regexp.MustCompile(`0x[0-9a-fA-F]+`)
)

// PanicKey builds a narrow key from a recovered panic: first library frame and
// the message with numbers abstracted.
func PanicKey(v any, stack []byte) (key, msg string) {
	msg = fmt.Sprint(v)
	cls := hexRe.ReplaceAllString(msg, "N")
	cls = numRe.ReplaceAllString(cls, "N")
	if len(cls) > 80 {
		cls = cls[:80]
	}
	fn := "?"
	for _, l := range strings.Split(string(stack), "\n") {
		if strings.HasPrefix(l, "github.com/libsv/go-bt/v2") {
			if i := strings.LastIndex(l, "("); i > 0 {
				l = l[:i]
			}
			fn = strings.TrimPrefix(l, "github.com/libsv/go-bt/v2")
			fn = strings.TrimLeft(fn, "/.")
			break
		}
	}
	return "panic|" + fn + "|" + cls, msg
}

// Guard runs fn and converts a panic into a Finding.
func Guard(fn func()) (f *Finding) {
	defer func() {
		if v := recover(); v != nil {
			st := debug.Stack()
			key, msg := PanicKey(v, st)
			f = &Finding{Key: key, What: "panic: " + msg, Detail: map[string]any{"stack": trimStack(st)}}
		}
	}()
	fn()
	return nil
}

func trimStack(st []byte) string {
	s := string(st)
	lines := strings.Split(s, "\n")
	out := []string{}
	for _, l := range lines {
		if strings.Contains(l, "go-bt") || strings.Contains(l, "/repo/") {
			out = append(out, strings.TrimSpace(l))
		}
		if len(out) > 12 {
			break
		}
	}
	return strings.Join(out, " | ")
}

// FinishMerge is Finish for a supplementary stage of a property's check that runs as a
// separate program after the main stage (the write monitor, which needs the instrumented
// build): instead of replacing evidence/<id>.json it adds its own coverage under
// coverage.<section> and its violations to the total.
func (r *Run) FinishMerge(section, rule string) int {
	r.mu.Lock()
	defer r.mu.Unlock()
	path := filepath.Join(outDir(), "evidence", r.ID+".json")
	ev := map[string]any{}
	if b, err := os.ReadFile(path); err == nil {
		_ = json.Unmarshal(b, &ev)
	}
	cov, _ := ev["coverage"].(map[string]any)
	if cov == nil {
		fmt.Printf("%s %s: no evidence of the main stage to merge into (%s)\n", r.ID, section, path)
		return 2
	}
	sec := map[string]any{"evaluations": r.evals.Load(), "distinct_nontrivial": len(r.distinct), "rule": rule, "violations": r.violations, "wall_s": time.Since(r.start).Seconds()}
	for k, v := range r.notes {
		sec[k] = v
	}
	keys := make([]string, 0, len(r.vioKeys))
	for k := range r.vioKeys {
		keys = append(keys, k)
	}
	sort.Strings(keys)
	if len(keys) > 0 {
		sec["violation_keys"] = keys
	}
	cov[section] = sec
	if v, ok := ev["violations"].(float64); ok {
		ev["violations"] = int(v) + r.violations
	}
	if len(r.harnessErr) > 0 {
		ev["harness_errors"] = r.harnessErr
	}
	b, _ := json.MarshalIndent(ev, "", " ")
	if err := os.WriteFile(path, b, 0o644); err != nil {
		fmt.Println("cannot write evidence:", err)
		return 2
	}
	fmt.Printf("%s %s %s: evaluations=%d distinct=%d violations=%d wall=%.1fs\n", r.ID, r.Tier, section, r.evals.Load(), len(r.distinct), r.violations, time.Since(r.start).Seconds())
	if r.violations > 0 {
		return 1
	}
	if len(r.harnessErr) > 0 {
		return 2
	}
	return 0
}
