package props

import (
	"bytes"
	"context"
	"encoding/hex"
	"fmt"
	"math/big"

	"github.com/libsv/go-bk/bec"
	"github.com/libsv/go-bt/v2"
	"github.com/libsv/go-bt/v2/bscript"
	"github.com/libsv/go-bt/v2/bscript/interpreter"
	"github.com/libsv/go-bt/v2/ord"
	"github.com/libsv/go-bt/v2/unlocker"

	"verif/internal/ref/txref"
	"verif/internal/rep"
)

type c20Case struct {
	Flow    int      `json:"flow"` // 0 list->accept, 1 list->accept2dummies, 2 bid->accept, 3 bid2d->accept2d
	Seller  int      `json:"seller_key"`
	Buyer   int      `json:"buyer_key"`
	Price   uint64   `json:"price"`
	OrdSats uint64   `json:"ordinal_sats"`
	Funds   []uint64 `json:"funding_values"`
	Q       quote    `json:"quote"`
	Insc    bool     `json:"ordinal_is_inscription"`
	// OwnKeys: every funding UTXO is locked to a key of its own (and carries that key's unlocker)
	OwnKeys bool `json:"funding_utxos_have_own_keys,omitempty"`
	// SameTx: the second funding UTXO is another output of the transaction that holds the ordinal
	SameTx bool `json:"second_funding_utxo_shares_the_ordinals_txid,omitempty"`
	// Tail: the inscription script of the ordinal goes on with OP_RETURN and this many raw bytes
	// (an enriched inscription); 0 = none, 1..5 = tails of 0, 1, 2, 2, 3 bytes
	Tail int `json:"ordinal_script_op_return_tail,omitempty"`
	// SellerScript: what the seller asks to be paid to: 0 P2PKH, 1 P2PK (uncompressed key), 2 1-of-2
	// multisig, 3 P2PKH continued by an inscription envelope, 4 a 100-byte script. (A flow may
	// refuse a shape; what it completes must satisfy the statement.)
	SellerScript int `json:"seller_receive_script,omitempty"`
}

var c20Keys = testPrivKeys(4)

type c20Party struct {
	priv *bec.PrivateKey
	lock []byte
}

func c20PartyOf(k int) c20Party {
	priv, pub := bec.PrivKeyFromBytes(bec.S256(), c20Keys[k])
	return c20Party{priv, refP2PKH(refHash160(pub.SerialiseCompressed()))}
}

func unlockerPtr(p *bec.PrivateKey) *bt.Unlocker {
	var u bt.Unlocker = &unlocker.Simple{PrivateKey: p}
	return &u
}

func c20Check(c c20Case) (fs []rep.Finding) {
	ctx := context.Background()
	seller, buyer := c20PartyOf(c.Seller), c20PartyOf(c.Buyer)
	ordLock := seller.lock
	if c.Insc {
		ordLock = append(append([]byte(nil), seller.lock...), c14Templates()["inscription"][25:]...)
		if c.Tail > 0 {
			// well-formed continuations of 0, 1, 2, 2 and 3 bytes after the OP_RETURN
			ordLock = append(append(ordLock, 0x6a), [][]byte{{}, {0x00}, {0x01, 0x2a}, {0x51, 0x52}, {0x02, 0x2a, 0x2b}}[c.Tail-1]...)
		}
	}
	ordUTXO := &bt.UTXO{TxID: txid32(0xee), Vout: 3, Satoshis: c.OrdSats, LockingScript: libScript(ordLock)}
	buyerRecv := refP2PKH(fill(20, 0xb1))
	dummyScript := refP2PKH(fill(20, 0xd1))
	changeScript := refP2PKH(fill(20, 0xc1))
	sellerRecv := refP2PKH(fill(20, 0x51))
	switch c.SellerScript {
	case 1:
		sellerRecv = bytesJoin([]byte{0x41, 0x04}, fill(64, 0x51), []byte{0xac})
	case 2:
		sellerRecv = bytesJoin([]byte{0x51, 0x21, 0x02}, fill(32, 0x51), []byte{0x21, 0x03}, fill(32, 0x52), []byte{0x52, 0xae})
	case 3:
		sellerRecv = append(append([]byte(nil), sellerRecv...), c14Templates()["inscription"][25:]...)
	case 4:
		sellerRecv = append([]byte{0x4c, 98}, fill(98, 0x51)...)
	}
	prevOuts := map[string]*bt.Output{hex.EncodeToString(ordUTXO.TxID) + fmt.Sprint(ordUTXO.Vout): {Satoshis: c.OrdSats, LockingScript: libScript(ordLock)}}
	var funds []*bt.UTXO
	for i, v := range c.Funds {
		owner := buyer
		if c.OwnKeys {
			owner = c20PartyOf((c.Buyer + 1 + i) % len(c20Keys))
		}
		u := &bt.UTXO{TxID: txid32(byte(0x20 + i)), Vout: uint32(i), Satoshis: v, LockingScript: libScript(owner.lock), Unlocker: unlockerPtr(owner.priv)}
		if c.SameTx && i == 1 {
			u.TxID, u.Vout = append([]byte(nil), ordUTXO.TxID...), ordUTXO.Vout+4
		}
		funds = append(funds, u)
		prevOuts[hex.EncodeToString(u.TxID)+fmt.Sprint(u.Vout)] = &bt.Output{Satoshis: v, LockingScript: libScript(owner.lock)}
	}
	fq := c.Q.lib()
	var tx *bt.Tx
	var err error
	sellerOutIdx := -1
	var sellerOutBytes []byte
	var again func()
	otherScript := refP2PKH(fill(20, 0xd4))
	switch c.Flow {
	case 0, 1:
		so := &bt.Output{Satoshis: c.Price, LockingScript: libScript(sellerRecv)}
		sellerOutBytes = so.Bytes()
		pstx, lerr := ord.ListOrdinalForSale(ctx, &ord.ListOrdinalArgs{SellerReceiveOutput: so, OrdinalUTXO: ordUTXO, OrdinalUnlocker: &unlocker.Simple{PrivateKey: seller.priv}})
		if lerr != nil {
			return append(fs, rep.F("list|error", lerr.Error()))
		}
		// the buyer receives the partially signed tx over the wire
		pstx2, perr := bt.NewTxFromBytes(pstx.ExtendedBytes())
		if perr != nil {
			return append(fs, rep.F("list|unparsable", perr.Error()))
		}
		vla := &ord.ValidateListingArgs{ListedOrdinalUTXO: ordUTXO}
		ala := &ord.AcceptListingArgs{PSTx: pstx2, UTXOs: funds, BuyerReceiveOrdinalScript: libScript(buyerRecv), DummyOutputScript: libScript(dummyScript), ChangeScript: libScript(changeScript), FQ: fq}
		if c.Flow == 0 {
			tx, err = ord.AcceptOrdinalSaleListing(ctx, vla, ala)
			sellerOutIdx = 1
		} else {
			tx, err = ord.AcceptOrdinalSaleListing2Dummies(ctx, vla, ala)
			sellerOutIdx = 2
		}
		again = func() {
			ala2 := &ord.AcceptListingArgs{PSTx: pstx2, UTXOs: append([]*bt.UTXO(nil), funds...), BuyerReceiveOrdinalScript: libScript(otherScript), DummyOutputScript: libScript(otherScript), ChangeScript: libScript(otherScript), FQ: fq}
			if c.Flow == 0 {
				_, _ = ord.AcceptOrdinalSaleListing(ctx, vla, ala2)
			} else {
				_, _ = ord.AcceptOrdinalSaleListing2Dummies(ctx, vla, ala2)
			}
		}
	case 2:
		pstx, berr := ord.MakeBidToBuy1SatOrdinal(ctx, &ord.MakeBidArgs{BidAmount: c.Price, OrdinalTxID: hex.EncodeToString(ordUTXO.TxID), OrdinalVOut: ordUTXO.Vout,
			BidderUTXOs: funds, BuyerReceiveOrdinalScript: libScript(buyerRecv), DummyOutputScript: libScript(dummyScript), ChangeScript: libScript(changeScript), FQ: fq})
		if berr != nil {
			return nil // bid refused: nothing produced
		}
		pstx2, perr := bt.NewTxFromBytes(pstx.ExtendedBytes())
		if perr != nil {
			return append(fs, rep.F("bid|unparsable", perr.Error()))
		}
		tx, err = ord.AcceptBidToBuy1SatOrdinal(ctx, &ord.ValidateBidArgs{OrdinalUTXO: ordUTXO, BidAmount: c.Price, ExpectedFQ: fq},
			&ord.AcceptBidArgs{PSTx: pstx2, SellerReceiveScript: libScript(sellerRecv), OrdinalUnlocker: &unlocker.Simple{PrivateKey: seller.priv}})
		again = func() {
			_, _ = ord.AcceptBidToBuy1SatOrdinal(ctx, &ord.ValidateBidArgs{OrdinalUTXO: ordUTXO, BidAmount: c.Price, ExpectedFQ: fq},
				&ord.AcceptBidArgs{PSTx: pstx2, SellerReceiveScript: libScript(otherScript), OrdinalUnlocker: &unlocker.Simple{PrivateKey: seller.priv}})
		}
	case 3:
		pstx, berr := ord.MakeBidToBuy1SatOrdinal2Dummies(ctx, &ord.MakeBid2DArgs{BidAmount: c.Price, OrdinalTxID: hex.EncodeToString(ordUTXO.TxID), OrdinalVOut: ordUTXO.Vout,
			BidderUTXOs: funds, BuyerReceiveOrdinalScript: libScript(buyerRecv), DummyOutputScript: libScript(dummyScript), ChangeScript: libScript(changeScript), FQ: fq})
		if berr != nil {
			return nil
		}
		pstx2, perr := bt.NewTxFromBytes(pstx.ExtendedBytes())
		if perr != nil {
			return append(fs, rep.F("bid2d|unparsable", perr.Error()))
		}
		prev := []*bt.UTXO{funds[0], funds[1], ordUTXO}
		prev = append(prev, funds[2:]...)
		tx, err = ord.AcceptBidToBuy1SatOrdinal2Dummies(ctx, &ord.ValidateBid2DArgs{PreviousUTXOs: prev, BidAmount: c.Price, ExpectedFQ: fq},
			&ord.AcceptBid2DArgs{PSTx: pstx2, SellerReceiveOrdinalScript: libScript(sellerRecv), OrdinalUnlocker: &unlocker.Simple{PrivateKey: seller.priv}})
		again = func() {
			_, _ = ord.AcceptBidToBuy1SatOrdinal2Dummies(ctx, &ord.ValidateBid2DArgs{PreviousUTXOs: prev, BidAmount: c.Price, ExpectedFQ: fq},
				&ord.AcceptBid2DArgs{PSTx: pstx2, SellerReceiveOrdinalScript: libScript(otherScript), OrdinalUnlocker: &unlocker.Simple{PrivateKey: seller.priv}})
		}
	}
	if err != nil || tx == nil {
		return nil // flow refused; the property speaks about completed transactions
	}
	flow := []string{"list-accept", "list-accept2d", "bid-accept", "bid2d-accept2d"}[c.Flow]
	// the same partially signed transaction object is completed a SECOND time towards other scripts (a
	// seller re-running the acceptance with another receive address): the sale returned first is a
	// transaction of its own and stays what it was
	{
		snap := append([]byte(nil), tx.ExtendedBytes()...)
		if again != nil {
			_ = rep.Guard(again)
		}
		if !bytes.Equal(snap, tx.ExtendedBytes()) {
			fs = append(fs, rep.F(flow+"|earlier-result-changed-by-a-second-acceptance", "the completed transaction changed when the same partially signed transaction was completed a second time"))
		}
	}
	// (a) every input verifies
	final, perr := txref.Parse(tx.Bytes())
	if perr != nil {
		return append(fs, rep.F(flow+"|unparsable-result", perr.Error()))
	}
	ordIdx := -1
	var offset uint64
	inSum := new(big.Int)
	for i, in := range final.Tx.Ins {
		po := prevOuts[hex.EncodeToString(in.TxID)+fmt.Sprint(in.Vout)]
		if po == nil {
			fs = append(fs, rep.F(flow+"|unknown-input", fmt.Sprintf("input %d spends an outpoint nobody supplied", i)))
			continue
		}
		if bytes.Equal(in.TxID, ordUTXO.TxID) && in.Vout == ordUTXO.Vout {
			ordIdx = i
		}
		if ordIdx < 0 {
			offset += po.Satoshis
		}
		inSum.Add(inSum, new(big.Int).SetUint64(po.Satoshis))
		vt, _ := bt.NewTxFromBytes(tx.Bytes())
		if e := interpreter.NewEngine().Execute(interpreter.WithTx(vt, i, &bt.Output{Satoshis: po.Satoshis, LockingScript: libScript(*po.LockingScript)}), interpreter.WithForkID(), interpreter.WithAfterGenesis()); e != nil {
			role := "buyer"
			if i == ordIdx {
				role = "seller"
			}
			fs = append(fs, rep.F(flow+"|input-rejected|"+role, fmt.Sprintf("input %d is rejected by the interpreter: %v", i, e)))
		}
	}
	if ordIdx < 0 {
		return append(fs, rep.F(flow+"|ordinal-not-spent", "the ordinal input is missing"))
	}
	// (b) listing flows: seller output unchanged at the index of the seller's input
	if c.Flow <= 1 {
		if ordIdx >= len(tx.Outputs) || !bytes.Equal(tx.Outputs[ordIdx].Bytes(), sellerOutBytes) {
			fs = append(fs, rep.F(flow+"|seller-output-moved-or-changed", fmt.Sprintf("the seller's requested output is not at index %d unchanged", ordIdx)))
		}
		_ = sellerOutIdx
	} else {
		// bid flows: the seller is paid the bid amount to the script they asked for
		found := false
		for _, o := range final.Tx.Outs {
			if o.Sats == c.Price && bytes.Equal(o.Script, sellerRecv) {
				found = true
			}
		}
		if !found {
			fs = append(fs, rep.F(flow+"|seller-not-paid", "no output pays the bid amount to the seller's script"))
		}
	}
	// (c) first-in-first-out: the ordinal's first satoshi lands in the buyer's output
	var cum uint64
	landed := -1
	for k, o := range final.Tx.Outs {
		if offset >= cum && offset < cum+o.Sats {
			landed = k
			break
		}
		cum += o.Sats
	}
	if landed < 0 || !bytes.Equal(final.Tx.Outs[landed].Script, buyerRecv) {
		fs = append(fs, rep.F(flow+"|ordinal-misrouted", fmt.Sprintf("the ordinal satoshi (offset %d) lands in output %d, not in the buyer's script", offset, landed)))
	}
	// (d) fee
	_, std, data := refSizes(final.Tx)
	need := refFee(std, data, c.Q)
	left := new(big.Int).Sub(inSum, sumOut(final.Tx))
	if left.Cmp(need) < 0 {
		hasChange := len(final.Tx.Outs) >= 4
		fs = append(fs, rep.F(fmt.Sprintf("%s|underpays|change=%v", flow, hasChange), fmt.Sprintf("pays %s satoshis, the quote asks %s for %d bytes", left, need, std+data)))
	}
	return
}

// ---- inscriptions ----

type c20Insc struct {
	CT     int  `json:"content_type_len"`
	Data   int  `json:"data_len"`
	Enrich int  `json:"enrich"` // 0 none, 1 one part, 2 two parts
	Spare  bool `json:"prefix_has_spare_capacity"`
	Seed   int  `json:"first_byte,omitempty"` // first byte of the payload and of the content type (0: the default pattern)
}

func c20InscCheck(c c20Insc) (fs []rep.Finding) {
	prefix := refP2PKH(fill(20, 0x42))
	ctb := bytes.Repeat([]byte("t"), c.CT)
	data := fill(c.Data, 0x61)
	if c.Seed != 0 {
		if len(data) > 0 {
			data[0] = byte(c.Seed)
		}
		if len(ctb) > 0 {
			ctb[0] = byte(c.Seed)
		}
	}
	ct := string(ctb)
	pre := libScript(prefix)
	if c.Spare {
		b := make([]byte, 25, 4096)
		copy(b, prefix)
		s := bscript.Script(b)
		pre = &s
	}
	args := &bscript.InscriptionArgs{LockingScriptPrefix: pre, Data: data, ContentType: ct}
	if c.Enrich > 0 {
		parts := [][]byte{[]byte("app")}
		if c.Enrich > 1 {
			parts = append(parts, fill(80, 1))
		}
		args.EnrichedArgs = &bscript.EnrichedInscriptionArgs{OpReturnData: parts}
	}
	cls := fmt.Sprintf("ct=%s,data=%s", lenClass(c.CT), lenClass(c.Data))
	var firstScript, firstWas []byte     // the script the first call produced, kept as returned and as a copy
	for round := 0; round < 3; round++ { // twice: the second call must not see leftovers of the first; then the specific-ordinal entry point
		tx := bt.NewTx()
		if round == 1 {
			// between the two a different inscription is made from the same prefix object
			other := *args
			other.Data, other.ContentType = fill(c.Data+1, 0x39), "x/"+ct
			_ = bt.NewTx().Inscribe(&other)
			if !bytes.Equal(firstScript, firstWas) {
				return append(fs, rep.F("Inscribe|earlier-inscription-overwritten", "inscribing other content from the same prefix object changed the script of the inscription made before"))
			}
		}
		if round == 2 {
			// satoshi 3 of input 1 (inputs of 5 and 7 satoshis) is to carry the inscription:
			// first-in-first-out puts it at offset 8, so the output in front must hold 8 satoshis
			extra := refP2PKH(fill(20, 0x77))
			_ = tx.FromUTXOs(&bt.UTXO{TxID: txid32(1), Vout: 0, Satoshis: 5, LockingScript: libScript(prefix)}, &bt.UTXO{TxID: txid32(2), Vout: 1, Satoshis: 7, LockingScript: libScript(prefix)})
			if err := tx.InscribeSpecificOrdinal(args, 1, 3, libScript(extra)); err != nil {
				return append(fs, rep.F("InscribeSpecificOrdinal|error|"+cls, err.Error()))
			}
			if len(tx.Outputs) != 2 || tx.Outputs[0].Satoshis != 8 || !bytes.Equal(*tx.Outputs[0].LockingScript, extra) {
				return append(fs, rep.F("InscribeSpecificOrdinal|separator-output", "the output in front of the inscription does not hold the 8 satoshis that precede the chosen ordinal"))
			}
			// the same with 50 coins in front of the chosen input (more than 2^32 satoshis)
			big := bt.NewTx()
			_ = big.FromUTXOs(&bt.UTXO{TxID: txid32(3), Vout: 0, Satoshis: 5_000_000_000, LockingScript: libScript(prefix)}, &bt.UTXO{TxID: txid32(4), Vout: 1, Satoshis: 7, LockingScript: libScript(prefix)})
			if err := big.InscribeSpecificOrdinal(args, 1, 3, libScript(extra)); err != nil || len(big.Outputs) != 2 || big.Outputs[0].Satoshis != 5_000_000_003 {
				return append(fs, rep.F("InscribeSpecificOrdinal|separator-output", "with 5,000,000,000 satoshis in front the separating output does not hold 5,000,000,003"))
			}
		} else if err := tx.Inscribe(args); err != nil {
			return append(fs, rep.F("Inscribe|error|"+cls, err.Error()))
		}
		if !bytes.Equal(*args.LockingScriptPrefix, prefix) {
			fs = append(fs, rep.F("Inscribe|modifies-callers-prefix", "the caller's locking-script prefix changed"))
		}
		out := tx.Outputs[len(tx.Outputs)-1]
		if round == 0 {
			firstScript = *out.LockingScript
			firstWas = append([]byte(nil), firstScript...)
		} else if !bytes.Equal(firstScript, firstWas) {
			return append(fs, rep.F("Inscribe|earlier-inscription-overwritten", "inscribing again from the same prefix changed the script of the inscription made before"))
		}
		got, err := out.LockingScript.ParseInscription()
		if err != nil {
			return append(fs, rep.F("ParseInscription|rejects-own-inscription|"+cls, err.Error()))
		}
		if got.ContentType != ct {
			fs = append(fs, rep.F("roundtrip|content-type|ct="+lenClass(c.CT)+"|data="+lenClass(c.Data), fmt.Sprintf("content type of length %d came back with length %d", len(ct), len(got.ContentType))))
		}
		if !bytes.Equal(got.Data, data) {
			fs = append(fs, rep.F("roundtrip|data|data="+lenClass(c.Data)+"|ct="+lenClass(c.CT), fmt.Sprintf("data of length %d came back with length %d", len(data), len(got.Data))))
		}
		if got.LockingScriptPrefix == nil || !bytes.Equal(*got.LockingScriptPrefix, prefix) {
			fs = append(fs, rep.F("roundtrip|prefix|"+cls, "script prefix differs"))
		}
		if !out.LockingScript.IsP2PKHInscription() || out.LockingScript.ScriptType() != bscript.ScriptTypePubKeyHashInscription {
			fs = append(fs, rep.F("inscription-not-recognised|"+cls, "inscribed output is not classified as a P2PKH inscription"))
		}
		if out.Satoshis != 1 {
			fs = append(fs, rep.F("inscription-output-value", "inscription output does not hold exactly one satoshi"))
		}
	}
	return
}

func lenClass(n int) string {
	switch {
	case n == 0:
		return "empty"
	case n == 1:
		return "1"
	default:
		return ">1"
	}
}

func init() {
	p := register(&Prop{ID: "C20", Level: "exploration",
		Rule: "exhaustive product: 4 flow pairs (list->accept, list->accept2Dummies, bid->accept, bid2Dummies->accept2Dummies) x seller/buyer keys (2x2 quick, 3x3 thorough) x funding UTXOs all locked to the buyer's key / each to a key of its own / the second one being another output of the ordinal's transaction x prices {1,2,546,1000,1000000} x ordinal UTXO of 1 (and 2) satoshis, plain or inscription script (also continued by OP_RETURN and a well-formed tail of 0..3 bytes) x funding sets of 2..4 UTXOs whose values are placed around the thresholds (price, price+1, reference-fee boundary -2..+3, ample) with the UTXO exceeding the price at every position, and sets in which no UTXO exceeds the price although two or three together do x 3 fee quotes x the script the seller asks to be paid to {P2PKH; and for the first key pair P2PK with an uncompressed key, 1-of-2 multisig, P2PKH continued by an inscription, a 100-byte script - a flow may refuse a shape, what it completes is judged}; the partially signed tx crosses a serialisation boundary. Oracle for every completed transaction (examined after the same partially signed transaction object was completed a second time towards other scripts, which must not change it): each input accepted by Execute(WithTx, WithForkID, WithAfterGenesis) against its spent output; listing flows keep the seller's output byte-identical at the index of the seller's input; FIFO satoshi assignment puts the ordinal's first satoshi in the buyer's script; inputs-outputs >= reference fee of the actual size. Inscriptions: content-type lengths {0,1,75,76,255,256} x payload lengths {0,1,75,76,255,256,65535,65536} x enrichment {none,1,2 parts} x prefix with/without spare capacity, plus one- and two-byte payloads and content types with every first byte value, inscribed twice through Inscribe and once through InscribeSpecificOrdinal (ordinal 3 of the second input; the separating output must hold the satoshis in front of it): ParseInscription returns the same content type, data and 25-byte prefix. distinct_nontrivial = distinct completed transactions + inscription cases",
	})
	sF := NewSpace(p, "flows", c20Check)
	sI := NewSpace(p, "inscriptions", c20InscCheck)
	p.Run = func(r *rep.Run, thorough bool) {
		quotes := []quote{{50, 1000, 50, 1000}, {500, 1000, 500, 1000}, {1, 1, 1, 1}}
		nk := 2
		if thorough {
			nk = 3
		}
		completed := 0
		(&Space[c20Case]{P: p, Name: sF.Name, Check: func(c c20Case) []rep.Finding {
			fs := c20Check(c)
			if len(fs) == 0 {
				r.Distinct(fmt.Sprint(c))
			}
			return fs
		}}).Each(r, func(yield func(c20Case)) {
			for flow := 0; flow < 4; flow++ {
				for s := 0; s < nk; s++ {
					for b := 0; b < nk; b++ {
						for _, price := range []uint64{1, 2, 546, 1000, 1000000} {
							for _, q := range quotes {
								// rough fee scale of a 4-in/4-out tx at this quote
								feeScale := uint64(700 * q.SS / q.SB)
								extras := []uint64{0, 1, 2, feeScale/2 + 1, feeScale - 2, feeScale - 1, feeScale, feeScale + 1, feeScale + 2, feeScale + 3, feeScale + 40, 5_000_000}
								for _, ex := range extras {
									big := price + 1 + ex
									sets := [][]uint64{}
									if flow == 0 || flow == 2 {
										sets = append(sets, []uint64{big, 1}, []uint64{1, big}, []uint64{big, ex + 2}, []uint64{price, big, 7}, []uint64{3, price, big}, []uint64{big, price + 1, 5, 2})
									} else {
										sets = append(sets, []uint64{1, 1, big}, []uint64{1, 1, price, big}, []uint64{1, 1, ex + 2, price}, []uint64{2, 3, big}, []uint64{1, 1, big, 1})
									}
									// funding sets in which NO UTXO exceeds the price although several together do (the flows
									// refuse them today; a flow that starts to combine UTXOs must still route the ordinal right)
									if ex == 0 || ex == 5_000_000 {
										half := price/2 + 1
										if flow == 0 || flow == 2 {
											sets = append(sets, []uint64{price, price}, []uint64{price, price, price + ex}, []uint64{half, half, price}, []uint64{half, half, half, half})
										} else {
											sets = append(sets, []uint64{1, 1, price, price}, []uint64{1, 1, half, half, price}, []uint64{1, 1, price, price, price})
										}
									}
									for _, fs := range sets {
										for _, ordSats := range []uint64{1, 2} {
											if ordSats == 2 && (flow >= 2 || !thorough && s+b > 0) {
												continue
											}
											yield(c20Case{Flow: flow, Seller: s, Buyer: b, Price: price, OrdSats: ordSats, Funds: fs, Q: q, Insc: (s+b+int(ex))%2 == 0})
											yield(c20Case{Flow: flow, Seller: s, Buyer: b, Price: price, OrdSats: ordSats, Funds: fs, Q: q, Insc: (s+b+int(ex))%2 == 0, OwnKeys: true})
											completed += 2
											if (s+b == 0 || thorough) && (s+b+int(ex))%2 == 0 {
												for tail := 1; tail <= 5; tail++ {
													yield(c20Case{Flow: flow, Seller: s, Buyer: b, Price: price, OrdSats: ordSats, Funds: fs, Q: q, Insc: true, Tail: tail})
													completed++
												}
											}
											if s+b == 0 || thorough {
												yield(c20Case{Flow: flow, Seller: s, Buyer: b, Price: price, OrdSats: ordSats, Funds: fs, Q: q, Insc: (s+b+int(ex))%2 == 0, SameTx: true})
												completed++
												for ss := 1; ss <= 4; ss++ {
													yield(c20Case{Flow: flow, Seller: s, Buyer: b, Price: price, OrdSats: ordSats, Funds: fs, Q: q, Insc: ss%2 == 0, SellerScript: ss})
													completed++
												}
											}
										}
									}
								}
							}
						}
					}
				}
			}
		})
		r.Sample("flows", c20Case{Flow: 0, Seller: 0, Buyer: 1, Price: 1000, OrdSats: 1, Funds: []uint64{3, 1000, 1400}, Q: quotes[1]})
		var ic []c20Insc
		for _, ct := range []int{0, 1, 75, 76, 255, 256} {
			for _, dl := range []int{0, 1, 75, 76, 255, 256, 65535, 65536} {
				for en := 0; en < 3; en++ {
					ic = append(ic, c20Insc{CT: ct, Data: dl, Enrich: en}, c20Insc{CT: ct, Data: dl, Enrich: en, Spare: true})
				}
			}
		}
		// one- and two-byte payloads / content types with every first byte
		for seed := 1; seed < 256; seed++ {
			ic = append(ic, c20Insc{CT: 5, Data: 1, Seed: seed}, c20Insc{CT: 1, Data: 2, Seed: seed}, c20Insc{CT: 1, Data: 1, Enrich: 1, Seed: seed})
		}
		(&Space[c20Insc]{P: p, Name: sI.Name, Check: func(c c20Insc) []rep.Finding {
			fs := c20InscCheck(c)
			if len(fs) == 0 {
				r.Distinct(fmt.Sprint("i", c))
			}
			return fs
		}}).Slice(r, ic)
		r.Sample("inscriptions", ic[17])
		r.Note("inscription_cases", len(ic))
	}
}
