//go:build verif

package main

// The write monitor: frame conditions ("computing the hash leaves the transaction unchanged",
// "outputs are left untouched", "marshalling does not change the object") checked on the WRITES
// themselves. The library runs instrumented (the same overlay as the schedule explorer: every
// field reached through a pointer carries an access probe); the harness registers the caller's
// objects with vsync.Watch and every write to one of them - undone later or not - is a finding.
// Single-threaded, deterministic, one execution per scenario; the scenario lists are finite
// products enumerated completely.
//
//	vsched watch <ID> <quick|thorough>     run the scenarios of one property, merge into evidence/<ID>.json
//	vsched watch-replay <violation.json>   re-run one scenario

import (
	"context"
	"encoding/json"
	"fmt"
	"os"
	"sort"
	"strings"

	"github.com/libsv/go-bk/bec"
	"github.com/libsv/go-bt/v2"
	"github.com/libsv/go-bt/v2/bscript"
	"github.com/libsv/go-bt/v2/bscript/interpreter"
	"github.com/libsv/go-bt/v2/bscript/interpreter/scriptflag"
	"github.com/libsv/go-bt/v2/sighash"
	"github.com/libsv/go-bt/v2/unlocker"
	"github.com/libsv/go-bt/v2/zzverif/vsync"

	"verif/internal/rep"
)

type watchScenario struct {
	Name string
	Body func()
}

var watchKey = func() *bec.PrivateKey {
	k, _ := bec.PrivKeyFromBytes(bec.S256(), []byte{7, 1, 2, 3, 4, 5, 6, 7, 8, 9, 10, 11, 12, 13, 14, 15, 16, 17, 18, 19, 20, 21, 22, 23, 24, 25, 26, 27, 28, 29, 30, 31})
	return k
}()

func watchP2PKH() *bscript.Script {
	s, _ := bscript.NewP2PKHFromPubKeyBytes(watchKey.PubKey().SerialiseCompressed())
	return s
}

// watchTx builds nin P2PKH inputs (filled: 107-byte unlocking scripts; otherwise nil) and nout
// outputs (the second one a data output).
func watchTx(nin, nout int, filled bool) *bt.Tx {
	tx := bt.NewTx()
	tx.LockTime = 3
	for i := 0; i < nin; i++ {
		id := make([]byte, 32)
		id[0], id[31] = byte(i+1), 0x77
		_ = tx.FromUTXOs(&bt.UTXO{TxID: id, Vout: uint32(i), Satoshis: uint64(5000 + i), LockingScript: watchP2PKH()})
		if filled {
			us := make(bscript.Script, 107)
			for k := range us {
				us[k] = byte(0x30 + i)
			}
			us[0], us[73] = 72, 33
			tx.Inputs[i].UnlockingScript = &us
		}
	}
	for j := 0; j < nout; j++ {
		if j == 1 {
			_ = tx.AddOpReturnOutput([]byte("write monitor"))
			continue
		}
		tx.AddOutput(&bt.Output{Satoshis: uint64(700 + j), LockingScript: watchP2PKH()})
	}
	return tx
}

// watchAll registers the transaction and everything it points to.
func watchAll(tx *bt.Tx, allowTx []string, allowIn map[int][]string, allowOut map[int][]string) {
	vsync.Watch(tx, "the caller's transaction", allowTx...)
	for i, in := range tx.Inputs {
		vsync.Watch(in, fmt.Sprintf("input %d of the caller's transaction", i), allowIn[i]...)
	}
	for j, o := range tx.Outputs {
		vsync.Watch(o, fmt.Sprintf("output %d of the caller's transaction", j), allowOut[j]...)
	}
}

func watchScenarios(id string, thorough bool) []watchScenario {
	var out []watchScenario
	add := func(name string, body func()) { out = append(out, watchScenario{name, body}) }
	maxIn, maxOut := 2, 2
	if thorough {
		maxIn, maxOut = 3, 3
	}
	shapes := func(f func(nin, nout int, filled bool, tag string)) {
		for nin := 1; nin <= maxIn; nin++ {
			for nout := 0; nout <= maxOut; nout++ {
				for _, filled := range []bool{false, true} {
					f(nin, nout, filled, fmt.Sprintf("nin=%d nout=%d filled=%v", nin, nout, filled))
				}
			}
		}
	}
	switch id {
	case "C02", "C03":
		hts := []sighash.Flag{0x41, 0x42, 0x43, 0xc1, 0xc2, 0xc3, 0x40, 0x5f}
		if id == "C03" {
			hts = []sighash.Flag{0x01, 0x02, 0x03, 0x81, 0x82, 0x83, 0x00, 0x1f}
		}
		shapes(func(nin, nout int, filled bool, tag string) {
			for idx := 0; idx < nin; idx++ {
				for _, ht := range hts {
					idx, ht := idx, ht
					add(fmt.Sprintf("%s idx=%d ht=%#x", tag, idx, uint8(ht)), func() {
						tx := watchTx(nin, nout, filled)
						watchAll(tx, nil, nil, nil)
						if id == "C02" {
							_, _ = tx.CalcInputPreimage(uint32(idx), ht)
						} else {
							_, _ = tx.CalcInputPreimageLegacy(uint32(idx), ht)
						}
						_, _ = tx.CalcInputSignatureHash(uint32(idx), ht)
					})
				}
			}
		})
	case "C04":
		shapes(func(nin, nout int, filled bool, tag string) {
			if filled {
				return
			}
			for idx := 0; idx < nin; idx++ {
				for _, ht := range []sighash.Flag{0, 0x41, 0x42, 0x43, 0xc1, 0xc3, 0x01, 0x03, 0x83} {
					idx, ht := idx, ht
					add(fmt.Sprintf("FillInput %s idx=%d ht=%#x", tag, idx, uint8(ht)), func() {
						tx := watchTx(nin, nout, false)
						watchAll(tx, nil, map[int][]string{idx: {"UnlockingScript"}}, nil)
						_ = tx.FillInput(context.Background(), &unlocker.Simple{PrivateKey: watchKey}, bt.UnlockerParams{InputIdx: uint32(idx), SigHashFlags: ht})
					})
				}
			}
			add("FillAllInputs "+tag, func() {
				tx := watchTx(nin, nout, false)
				al := map[int][]string{}
				for i := 0; i < nin; i++ {
					al[i] = []string{"UnlockingScript"}
				}
				watchAll(tx, nil, al, nil)
				_ = tx.FillAllInputs(context.Background(), &unlocker.Getter{PrivateKey: watchKey})
			})
		})
	case "C08":
		key := watchKey.PubKey().SerialiseCompressed()
		push := func(b []byte) []byte { return append([]byte{byte(len(b))}, b...) }
		cat := func(p ...[]byte) []byte {
			var o []byte
			for _, x := range p {
				o = append(o, x...)
			}
			return o
		}
		sig := func(ht byte) []byte { return []byte{0x30, 0x06, 0x02, 0x01, 0x01, 0x02, 0x01, 0x01, ht} }
		type pair struct {
			name         string
			unlock, lock func(ht byte) []byte
		}
		pairs := []pair{
			{"key CHECKSIG", func(ht byte) []byte { return push(sig(ht)) }, func(byte) []byte { return cat(push(key), []byte{0xac}) }},
			{"1of1 CHECKMULTISIG", func(ht byte) []byte { return cat([]byte{0x00}, push(sig(ht))) }, func(byte) []byte { return cat([]byte{0x51}, push(key), []byte{0x51, 0xae}) }},
			{"CODESEPARATOR key CHECKSIG", func(ht byte) []byte { return push(sig(ht)) }, func(byte) []byte { return cat([]byte{0x51, 0xab, 0x75}, push(key), []byte{0xac}) }},
			{"CODESEPARATOR 1of1 CHECKMULTISIG", func(ht byte) []byte { return cat([]byte{0x00}, push(sig(ht))) }, func(byte) []byte {
				return cat([]byte{0x51, 0xab, 0x75, 0x51}, push(key), []byte{0x51, 0xae})
			}},
			{"sig in lock", func(ht byte) []byte { return push(sig(ht)) }, func(ht byte) []byte { return cat(push(sig(ht)), []byte{0x75}, push(key), []byte{0xac}) }},
			{"P2PKH", func(ht byte) []byte { return cat(push(sig(ht)), push(key)) }, func(byte) []byte { return *watchP2PKH() }},
			{"arith", func(byte) []byte { return []byte{0x52, 0x53} }, func(byte) []byte { return []byte{0x93, 0x55, 0x87} }},
			{"OP_RETURN", func(byte) []byte { return []byte{0x51} }, func(byte) []byte { return []byte{0x6a, 0x01, 0x02} }},
		}
		for _, pr := range pairs {
			for _, ht := range []byte{0x01, 0x02, 0x03, 0x83, 0x41, 0x43, 0xc3} {
				for _, f := range []scriptflag.Flag{0, scriptflag.EnableSighashForkID, scriptflag.UTXOAfterGenesis, scriptflag.EnableSighashForkID | scriptflag.UTXOAfterGenesis} {
					for idx := 0; idx < 2; idx++ {
						pr, ht, f, idx := pr, ht, f, idx
						add(fmt.Sprintf("Execute %s ht=%#x flags=%#x idx=%d", pr.name, ht, uint32(f), idx), func() {
							tx := watchTx(2, 2, true)
							us := bscript.Script(pr.unlock(ht))
							tx.Inputs[idx].UnlockingScript = &us
							tx.Inputs[idx].PreviousTxScript, tx.Inputs[idx].PreviousTxSatoshis = nil, 0
							ls := bscript.Script(pr.lock(ht))
							prev := &bt.Output{Satoshis: 4321, LockingScript: &ls}
							watchAll(tx, nil, map[int][]string{idx: {"PreviousTxScript", "PreviousTxSatoshis"}}, nil)
							vsync.Watch(prev, "the previous output handed to WithTx")
							_ = interpreter.NewEngine().Execute(interpreter.WithTx(tx, idx, prev), interpreter.WithFlags(f))
						})
					}
				}
			}
		}
	case "C10":
		fq := bt.NewFeeQuote()
		shapes(func(nin, nout int, filled bool, tag string) {
			add("Change(script) "+tag, func() {
				tx := watchTx(nin, nout, filled)
				watchAll(tx, []string{"Outputs"}, nil, nil)
				_ = tx.Change(watchP2PKH(), fq)
			})
			add("ChangeToAddress "+tag, func() {
				tx := watchTx(nin, nout, filled)
				watchAll(tx, []string{"Outputs"}, nil, nil)
				_ = tx.ChangeToAddress("1BgGZ9tcN4rm9KBzDn7KprQz87SZ26SAMH", fq)
			})
			for k := 0; k < nout; k++ {
				k := k
				add(fmt.Sprintf("ChangeToExistingOutput(%d) %s", k, tag), func() {
					tx := watchTx(nin, nout, filled)
					watchAll(tx, nil, nil, map[int][]string{k: {"Satoshis"}})
					_ = tx.ChangeToExistingOutput(uint(k), fq)
				})
			}
		})
	case "C11":
		fq := bt.NewFeeQuote()
		shapes(func(nin, nout int, filled bool, tag string) {
			add("size and fee queries "+tag, func() {
				tx := watchTx(nin, nout, filled)
				if filled && nin > 1 {
					tx.Inputs[0].UnlockingScript = nil // partly signed
				}
				watchAll(tx, nil, nil, nil)
				_ = tx.Size()
				_ = tx.SizeWithTypes()
				_, _ = tx.EstimateSize()
				_, _ = tx.EstimateSizeWithTypes()
				_, _ = tx.EstimateFeesPaid(fq)
				_, _ = tx.IsFeePaidEnough(fq)
				_, _ = tx.EstimateIsFeePaidEnough(fq)
				_ = tx.TotalInputSatoshis()
				_ = tx.TotalOutputSatoshis()
			})
		})
	case "C12":
		fq := bt.NewFeeQuote()
		shapes(func(nin, nout int, filled bool, tag string) {
			for _, batches := range []int{1, 2} {
				batches := batches
				add(fmt.Sprintf("Fund %s batches=%d", tag, batches), func() {
					tx := watchTx(nin, nout+1, filled)
					tx.Outputs[0].Satoshis = 1_000_000 // not covered by the prior inputs
					watchAll(tx, []string{"Inputs"}, nil, nil)
					n := 0
					_ = tx.Fund(context.Background(), fq, func(ctx context.Context, deficit uint64) ([]*bt.UTXO, error) {
						if n >= batches {
							return nil, bt.ErrNoUTXO
						}
						n++
						id := make([]byte, 32)
						id[5] = byte(n)
						return []*bt.UTXO{{TxID: id, Vout: 1, Satoshis: 600_000, LockingScript: watchP2PKH()}}, nil
					})
				})
			}
		})
	case "C01":
		shapes(func(nin, nout int, filled bool, tag string) {
			add("serialisation and parsing "+tag, func() {
				tx := watchTx(nin, nout, filled)
				watchAll(tx, nil, nil, nil)
				b, e := tx.Bytes(), tx.ExtendedBytes()
				_, _ = tx.TxID(), tx.TxIDBytes()
				_ = tx.Size()
				_ = tx.Clone()
				for _, in := range tx.Inputs {
					_, _ = in.Bytes(false), in.Bytes(true)
					_ = in.PreviousTxIDStr()
				}
				for _, o := range tx.Outputs {
					_, _ = o.Bytes(), o.BytesForSigHash()
				}
				_, _ = bt.NewTxFromBytes(b)
				_, _ = bt.NewTxFromBytes(e)
			})
		})
	case "C16":
		shapes(func(nin, nout int, filled bool, tag string) {
			add("JSON marshalling "+tag, func() {
				tx := watchTx(nin, nout, filled)
				watchAll(tx, nil, nil, nil)
				_, _ = json.Marshal(tx)
				_, _ = json.Marshal(tx.NodeJSON())
				list := bt.Txs{tx}
				_, _ = json.Marshal(list.NodeJSON())
				for _, o := range tx.Outputs {
					_, _ = json.Marshal(o)
					_, _ = json.Marshal(o.NodeJSON())
				}
				for _, in := range tx.Inputs {
					_, _ = json.Marshal(in)
				}
				_ = tx.Bytes()
				_ = tx.ExtendedBytes()
				_ = tx.TxID()
				_ = tx.Clone()
			})
		})
	}
	return out
}

func runWatchScenario(sc watchScenario) (*vsync.Result, []rep.Finding) {
	res := vsync.Run(nil, []func(){sc.Body})
	var fs []rep.Finding
	seen := map[string]bool{}
	for _, w := range res.WatchedWrites {
		fn := w.Where
		if i := strings.LastIndex(fn, " "); i >= 0 {
			fn = fn[i+1:]
		}
		obj := w.Object
		if i := strings.Index(obj, " of the"); i > 0 {
			obj = strings.TrimRight(obj[:i], " 0123456789")
		}
		key := fmt.Sprintf("writes-to-callers-object|%s.%s|in %s", obj, w.Field, fn)
		if seen[key] {
			continue
		}
		seen[key] = true
		fs = append(fs, rep.F(key, fmt.Sprintf("%s: field %s is written at %s", w.Object, w.Field, w.Where)))
	}
	for _, p := range res.Panics {
		fs = append(fs, rep.F("panic", p))
	}
	return res, fs
}

func watchMain(args []string) {
	if len(args) < 1 {
		fmt.Println("usage: vsched watch <ID> <quick|thorough>")
		os.Exit(2)
	}
	id, tier := args[0], "quick"
	if len(args) > 1 {
		tier = args[1]
	}
	scs := watchScenarios(id, tier == "thorough")
	if len(scs) == 0 {
		fmt.Println("no write-monitor scenarios for", id)
		os.Exit(2)
	}
	r := rep.Start(id, tier, "exploration")
	accesses := 0
	names := map[string]bool{}
	for _, sc := range scs {
		res, fs := runWatchScenario(sc)
		if len(fs) > 0 {
			// determinism: the same scenario must report the same writes again
			_, again := runWatchScenario(sc)
			if fmt.Sprint(keysOf(fs)) != fmt.Sprint(keysOf(again)) {
				r.HarnessError("write monitor not deterministic for scenario " + sc.Name)
				continue
			}
		}
		for _, f := range fs {
			r.Report("write-monitor", map[string]any{"scenario": sc.Name}, f)
		}
		accesses += res.Accesses
		r.Eval(1)
		r.Distinct(sc.Name)
		names[sc.Name] = true
	}
	if accesses == 0 {
		r.HarnessError("the write monitor saw no access probe at all: the instrumented build is not in effect")
	}
	r.Note("access_probes_executed", accesses)
	r.Note("scenarios", len(names))
	os.Exit(r.FinishMerge("write_monitor", "frame conditions checked on the writes themselves: the library runs with an access probe in front of every statement that touches a field reached through a pointer (go/types instrumentation of packages bt, bscript, bscript/interpreter, generated from the working tree at check time); the caller's transaction, inputs, outputs (and previous output) are registered with the monitor and every write to them that the property does not allow - whether or not it is undone before the call returns - is a violation. Scenarios: complete product of transaction shapes (inputs 1..2/3, outputs 0..2/3, unlocking scripts absent/filled) x input index x hash types / operations of the property; single-threaded, deterministic, one execution each"))
}

func keysOf(fs []rep.Finding) []string {
	var k []string
	for _, f := range fs {
		k = append(k, f.Key)
	}
	sort.Strings(k)
	return k
}

func watchReplay(path string) {
	b, err := os.ReadFile(path)
	if err != nil {
		fmt.Println(err)
		os.Exit(2)
	}
	var doc struct {
		Property string `json:"property"`
		Input    struct {
			Scenario string `json:"scenario"`
		} `json:"input"`
	}
	if err := json.Unmarshal(b, &doc); err != nil {
		fmt.Println(err)
		os.Exit(2)
	}
	for _, th := range []bool{false, true} {
		for _, sc := range watchScenarios(doc.Property, th) {
			if sc.Name == doc.Input.Scenario {
				_, fs := runWatchScenario(sc)
				fmt.Printf("replay property=%s write-monitor scenario %q\n", doc.Property, sc.Name)
				for _, f := range fs {
					fmt.Printf("replay: FINDING key=%s what=%s\n", f.Key, f.What)
				}
				if len(fs) == 0 {
					fmt.Println("replay: no write to a watched object")
					os.Exit(0)
				}
				os.Exit(1)
			}
		}
	}
	fmt.Println("scenario not found:", doc.Input.Scenario)
	os.Exit(2)
}
