package props

import (
	"path/filepath"

	"verif/internal/rep"
)

// vectorsDir holds the framework's own copy of the node vectors that certify the
// reference models (copied from bscript/interpreter/data of the pinned tree, so
// that the certification does not depend on files an edited tree could change).
func vectorsDir() string { return filepath.Join(rep.Root, "internal", "ref", "vectors") }
