package sighashref

import "testing"

func TestAnchor(t *testing.T) {
	n, err := Anchor("../vectors")
	if err != nil {
		t.Fatal(n, err)
	}
	t.Log("vectors matched:", n)
}
