//go:build verif

package main

// The concurrent stage of the input-quantified properties: the operations a property speaks of are
// functions of their arguments, so two or three callers working on DISTINCT objects at the same time
// must get exactly what each gets alone. The bodies run under the cooperative scheduler in the
// instrumented build: every lock operation the library performs (the sync shim is substituted in
// every file that imports sync) is a scheduling point and all interleavings at those points are
// explored (DFS over choice prefixes, unbounded preemptions; without locks the schedules are the
// start orders); on every schedule the vector-clock monitor reports conflicting unordered accesses
// to anything reachable by both callers (package-level variables, shared tables, caches, pools)
// and every caller's results are compared with the results of running its body alone.
//
//	vsched conc <ID> <quick|thorough>     explore the scenarios of one property, merge into evidence/<ID>.json
//	vsched conc-replay <violation.json>   re-run one scenario on its recorded schedule

import (
	"bytes"
	"crypto/sha256"
	"encoding/hex"
	"encoding/json"
	"fmt"
	"os"
	"strings"

	"github.com/libsv/go-bt/v2"
	"github.com/libsv/go-bt/v2/bscript"
	"github.com/libsv/go-bt/v2/bscript/interpreter"
	"github.com/libsv/go-bt/v2/sighash"
	"github.com/libsv/go-bt/v2/zzverif/vsync"

	"verif/internal/rep"
)

type concScenario struct {
	Name    string
	Threads []func() string
}

func concFill(n int, b byte) []byte { return bytes.Repeat([]byte{b}, n) }

func concP2PKH(b byte) *bscript.Script {
	s := bscript.Script(append(append([]byte{0x76, 0xa9, 0x14}, concFill(20, b)...), 0x88, 0xac))
	return &s
}

func concSum(parts ...[]byte) string {
	h := sha256.New()
	for _, p := range parts {
		h.Write([]byte{byte(len(p)), byte(len(p) >> 8), byte(len(p) >> 16)})
		h.Write(p)
	}
	return hex.EncodeToString(h.Sum(nil)[:8])
}

// concTx: a transaction of its own for every caller (k distinguishes callers).
func concTx(k byte, nin, nout int) *bt.Tx {
	tx := bt.NewTx()
	tx.LockTime = uint32(k)
	for i := 0; i < nin; i++ {
		id := concFill(32, k)
		id[0] = byte(i + 1)
		_ = tx.FromUTXOs(&bt.UTXO{TxID: id, Vout: uint32(i), Satoshis: uint64(5000 + int(k) + i), LockingScript: concP2PKH(k + byte(i))})
		us := bscript.Script(concFill(20+i, k))
		us[0] = byte(19 + i)
		tx.Inputs[i].UnlockingScript = &us
	}
	for j := 0; j < nout; j++ {
		if j == 1 {
			_ = tx.AddOpReturnOutput(concFill(10+int(k%7), k))
			continue
		}
		tx.AddOutput(&bt.Output{Satoshis: uint64(700 + j + int(k)), LockingScript: concP2PKH(k ^ 0x55)})
	}
	return tx
}

func errStr(err error) string {
	if err == nil {
		return "ok"
	}
	return "err:" + err.Error()
}

// concBody returns the body of one caller of property id, parameterised by k.
func concBody(id string, k byte, variant int) func() string {
	switch id {
	case "C17":
		return func() string {
			n := []int{1500, 33, 1024, 5000}[variant%4]
			data := concFill(n, k)
			data[0] = byte(variant)
			b := bscript.BIP276{Prefix: bscript.PrefixScript, Version: int(k%200) + 1, Network: int(k%200) + 1, Data: data}
			text := bscript.EncodeBIP276(b)
			d, err := bscript.DecodeBIP276(text)
			ok, verr := bscript.ValidateAddress(text)
			out := []string{concSum([]byte(text)), errStr(err), fmt.Sprint(ok), errStr(verr)}
			if d != nil {
				out = append(out, d.Prefix, fmt.Sprint(d.Version, d.Network), concSum(d.Data))
			}
			// a corrupted text of this caller's own
			bad := []byte(text)
			bad[len(bad)-1] ^= 1
			_, berr := bscript.DecodeBIP276(string(bad))
			out = append(out, fmt.Sprint(berr != nil))
			return strings.Join(out, "|")
		}
	case "C13":
		return func() string {
			var scripts [][]byte
			scripts = append(scripts, *concP2PKH(k), append([]byte{0x4c, 80}, concFill(80, k)...), []byte{0x63, 0x51, 0x67, 0x01, k, 0x68, 0x6a, 0x02, k, k}, append([]byte{0x21}, append(concFill(33, k), 0xac)...))
			var out []string
			for _, raw := range scripts[variant%2*2:] {
				s := bscript.NewFromBytes(append([]byte(nil), raw...))
				p := &interpreter.DefaultOpcodeParser{}
				ps, err := p.Parse(s)
				out = append(out, errStr(err))
				if err == nil {
					up, uerr := p.Unparse(ps)
					out = append(out, errStr(uerr))
					if up != nil {
						out = append(out, hex.EncodeToString(*up))
					}
				}
				parts, derr := bscript.DecodeParts(raw)
				enc, eerr := bscript.EncodeParts(parts)
				asm, aerr := s.ToASM()
				out = append(out, errStr(derr), errStr(eerr), hex.EncodeToString(enc), asm, errStr(aerr), s.String())
				if back, err := bscript.NewFromASM(asm); err == nil {
					out = append(out, back.String())
				}
				jb, jerr := json.Marshal(s)
				var sb bscript.Script
				out = append(out, string(jb), errStr(jerr), errStr(json.Unmarshal(jb, &sb)), sb.String())
				pf, perr := bscript.PushDataPrefix(concFill(int(k)+70, k))
				out = append(out, hex.EncodeToString(pf), errStr(perr))
				s2 := &bscript.Script{}
				_ = s2.AppendPushData(concFill(int(k%90)+1, k))
				_ = s2.AppendOpcodes(bscript.OpDUP, bscript.OpCHECKSIG)
				out = append(out, s2.String())
			}
			return strings.Join(out, "|")
		}
	case "C14":
		return func() string {
			ord := bytes.Join([][]byte{*concP2PKH(k), {0x00, 0x63, 0x03}, []byte("ord"), {0x51, 0x0a}, []byte("text/plain"), {0x00, 0x05}, concFill(5, k), {0x68}}, nil)
			ms := bytes.Join([][]byte{{0x51, 0x21}, concFill(33, k), {0x21}, concFill(33, k+1), {0x52, 0xae}}, nil)
			var out []string
			for _, raw := range [][]byte{*concP2PKH(k), ord, ms, {0x6a, 0x02, k, k}, {0x00, 0x6a}, append([]byte{0xa9, 0x14}, append(concFill(20, k), 0x87)...), {k, 0x4c}} {
				s := bscript.NewFromBytes(raw)
				addrs, aerr := s.Addresses()
				pkh, perr := s.PublicKeyHash()
				asm, _ := s.ToASM()
				out = append(out, fmt.Sprint(s.IsP2PKH(), s.IsP2PK(), s.IsP2SH(), s.IsData(), s.IsMultiSigOut(), s.IsInscribed(), s.IsP2PKHInscription(), s.ScriptType(), addrs, errStr(aerr), hex.EncodeToString(pkh), errStr(perr), asm))
				if ia, err := s.ParseInscription(); err == nil && ia != nil {
					out = append(out, ia.ContentType, hex.EncodeToString(ia.Data))
				}
				o := &bt.Output{Satoshis: uint64(k), LockingScript: s}
				nb, nerr := json.Marshal(o.NodeJSON())
				out = append(out, string(nb), errStr(nerr))
			}
			return strings.Join(out, "|")
		}
	case "C15":
		return func() string {
			h := concFill(20, k)
			h[0] = byte(variant)
			var out []string
			for _, mainnet := range []bool{true, false} {
				a, err := bscript.NewAddressFromPublicKeyHash(h, mainnet)
				out = append(out, errStr(err))
				if err != nil {
					continue
				}
				out = append(out, a.AddressString, a.PublicKeyHash)
				a2, err2 := bscript.NewAddressFromString(a.AddressString)
				out = append(out, errStr(err2))
				if a2 != nil {
					out = append(out, a2.PublicKeyHash)
				}
				s, serr := bscript.NewP2PKHFromAddress(a.AddressString)
				out = append(out, errStr(serr))
				if s != nil {
					out = append(out, s.String())
				}
				ok, verr := bscript.ValidateAddress(a.AddressString)
				bad := a.AddressString[:len(a.AddressString)-1] + "2"
				ok2, _ := bscript.ValidateAddress(bad)
				out = append(out, fmt.Sprint(ok, ok2), errStr(verr))
				tx := bt.NewTx()
				out = append(out, errStr(tx.PayToAddress(a.AddressString, 1000)), hex.EncodeToString(tx.Bytes()))
			}
			s1, _ := bscript.NewP2PKHFromPubKeyHash(h)
			s2, _ := bscript.NewP2PKHFromPubKeyHashStr(hex.EncodeToString(h))
			out = append(out, s1.String(), s2.String())
			return strings.Join(out, "|")
		}
	case "C01", "C16":
		return func() string {
			tx := concTx(k, 1+variant%2, 2)
			var out []string
			b, eb := tx.Bytes(), tx.ExtendedBytes()
			out = append(out, concSum(b), concSum(eb), tx.TxID(), fmt.Sprint(tx.Size()))
			t2, err := bt.NewTxFromBytes(eb)
			out = append(out, errStr(err))
			if t2 != nil {
				out = append(out, concSum(t2.ExtendedBytes()), t2.TxID())
			}
			t3, used, err := bt.NewTxFromStream(append(append([]byte(nil), b...), 1, 2, 3))
			out = append(out, errStr(err), fmt.Sprint(used))
			if t3 != nil {
				out = append(out, concSum(t3.Bytes()))
			}
			var list bt.Txs
			n, err := list.ReadFrom(bytes.NewReader(append(append([]byte{2}, b...), b...)))
			out = append(out, fmt.Sprint(n, len(list)), errStr(err))
			out = append(out, concSum(tx.Clone().Bytes()))
			if id == "C16" {
				jb, jerr := json.Marshal(tx)
				nb, nerr := json.Marshal(tx.NodeJSON())
				out = append(out, concSum(jb), errStr(jerr), concSum(nb), errStr(nerr))
				var a bt.Tx
				out = append(out, errStr(json.Unmarshal(jb, &a)), concSum(a.Bytes()))
				c := bt.NewTx()
				out = append(out, errStr(json.Unmarshal(nb, c.NodeJSON())), concSum(c.Bytes()))
				for _, o := range tx.Outputs {
					ob, _ := json.Marshal(o)
					onb, _ := json.Marshal(o.NodeJSON())
					var o1, o2 bt.Output
					out = append(out, string(ob), string(onb), errStr(json.Unmarshal(ob, &o1)), errStr(json.Unmarshal(onb, o2.NodeJSON())), fmt.Sprint(o1.Satoshis, o2.Satoshis), o1.LockingScriptHexString(), o2.LockingScriptHexString())
				}
				u := &bt.UTXO{TxID: concFill(32, k), Vout: uint32(k), Satoshis: uint64(k) * 1000, LockingScript: concP2PKH(k)}
				ub, _ := json.Marshal(u)
				unb, _ := json.Marshal(u.NodeJSON())
				var u1, u2 bt.UTXO
				out = append(out, string(ub), string(unb), errStr(json.Unmarshal(ub, &u1)), errStr(json.Unmarshal(unb, u2.NodeJSON())), u1.TxIDStr(), u2.TxIDStr(), fmt.Sprint(u1.Satoshis, u2.Satoshis))
			}
			return strings.Join(out, "|")
		}
	case "C02", "C03":
		return func() string {
			tx := concTx(k, 2, 2+variant%2)
			var out []string
			hts := []sighash.Flag{0x41, 0x42, 0x43, 0xc1, 0xc2, 0xc3}
			if id == "C03" {
				hts = []sighash.Flag{0x01, 0x02, 0x03, 0x81, 0x82, 0x83}
			}
			for idx := uint32(0); idx < 2; idx++ {
				for _, ht := range hts {
					var pre []byte
					var err error
					if id == "C02" {
						pre, err = tx.CalcInputPreimage(idx, ht)
					} else {
						pre, err = tx.CalcInputPreimageLegacy(idx, ht)
					}
					h, herr := tx.CalcInputSignatureHash(idx, ht)
					out = append(out, concSum(pre), errStr(err), hex.EncodeToString(h), errStr(herr))
				}
			}
			// SINGLE without a matching output (legacy: the constant one)
			t1 := concTx(k, 2, 1)
			h, herr := t1.CalcInputSignatureHash(1, hts[2])
			out = append(out, hex.EncodeToString(h), errStr(herr), concSum(tx.ExtendedBytes()))
			return strings.Join(out, "|")
		}
	}
	return nil
}

func concScenarios(id string, thorough bool) []concScenario {
	if concBody(id, 1, 0) == nil {
		return nil
	}
	var out []concScenario
	mk := func(name string, ks []byte, vs []int) {
		sc := concScenario{Name: name}
		for i := range ks {
			sc.Threads = append(sc.Threads, concBody(id, ks[i], vs[i]))
		}
		out = append(out, sc)
	}
	mk("two callers, different arguments", []byte{3, 9}, []int{0, 0})
	mk("two callers, equal arguments in objects of their own", []byte{5, 5}, []int{0, 0})
	mk("two callers, different shapes", []byte{3, 9}, []int{0, 1})
	mk("three callers", []byte{3, 9, 4}, []int{0, 1, 2})
	if thorough {
		mk("two callers, shapes 2 and 3", []byte{7, 8}, []int{2, 3})
		mk("three callers, equal arguments", []byte{6, 6, 6}, []int{0, 0, 0})
		mk("four callers", []byte{3, 9, 4, 11}, []int{0, 1, 2, 3})
	}
	return out
}

type concExec struct {
	res *vsync.Result
	out []string
}

func runConc(sc concScenario, prefix []int) concExec {
	out := make([]string, len(sc.Threads))
	var bodies []func()
	for i, th := range sc.Threads {
		i, th := i, th
		bodies = append(bodies, func() { out[i] = th() })
	}
	return concExec{vsync.Run(prefix, bodies), out}
}

func concCheck(sc concScenario, alone []string, prefix []int) (fs []rep.Finding, r *vsync.Result) {
	ex := runConc(sc, prefix)
	r = ex.res
	if !r.Deadlock && len(r.Panics) == 0 {
		for i := range alone {
			if ex.out[i] != alone[i] {
				fs = append(fs, rep.F("concurrent|result-differs-from-the-call-alone", fmt.Sprintf("caller %d got a different result than the same call made alone (first difference at result field %d)", i+1, firstDiff(ex.out[i], alone[i]))))
				break
			}
		}
	}
	seen := map[string]bool{}
	for _, rc := range r.Races {
		k := fmt.Sprintf("concurrent|data-race|%s|%s", rc.Field, raceSites(rc))
		if !seen[k] {
			seen[k] = true
			fs = append(fs, rep.F(k, fmt.Sprintf("unordered conflicting accesses to %s.%s by callers working on distinct objects: %s vs %s (%s / %s)", rc.Object, rc.Field, rc.A, rc.B, rc.WhereA, rc.WhereB)))
		}
	}
	if r.Deadlock {
		fs = append(fs, rep.F("concurrent|deadlock", "no caller can run: "+strings.Join(r.Blocked, "; ")))
	}
	for _, p := range r.Panics {
		fs = append(fs, rep.F("concurrent|panic", p))
	}
	if r.Diverged {
		fs = append(fs, rep.F("harness|schedule-diverged", "a recorded choice was out of range during replay"))
	}
	return
}

func firstDiff(a, b string) int {
	x, y := strings.Split(a, "|"), strings.Split(b, "|")
	for i := 0; i < len(x) && i < len(y); i++ {
		if x[i] != y[i] {
			return i
		}
	}
	return len(x)
}

const concScheduleCap = 4000

func concMain(args []string) {
	if len(args) < 1 {
		fmt.Println("usage: vsched conc <ID> <quick|thorough>")
		os.Exit(2)
	}
	id, tier := args[0], "quick"
	if len(args) > 1 {
		tier = args[1]
	}
	scs := concScenarios(id, tier == "thorough")
	if len(scs) == 0 {
		fmt.Println("no concurrent-stage scenarios for", id)
		os.Exit(0)
	}
	r := rep.Start(id, tier, "exploration")
	schedules, points, accesses, capped, boundedOnly := 0, 0, 0, 0, 0
	outcomes := map[string]bool{}
	for _, sc := range scs {
		// every caller alone (a fresh single-thread run each): the sequential reference
		alone := make([]string, len(sc.Threads))
		for i, th := range sc.Threads {
			th := th
			var o string
			vsync.Run(nil, []func(){func() { o = th() }})
			alone[i] = o
			// the body must be a function of its arguments to begin with
			var o2 string
			vsync.Run(nil, []func(){func() { o2 = th() }})
			if o2 != o {
				r.Report("concurrent-stage", map[string]any{"scenario": sc.Name, "schedule": []int{}}, rep.F("sequential|second-call-differs", fmt.Sprintf("caller %d: the same call made twice in a row gives different results (first difference at result field %d)", i+1, firstDiff(o, o2))))
			}
		}
		n := 0
		bound := 2
		reported := map[string]bool{}
		var rec func(prefix []int)
		rec = func(prefix []int) {
			if n >= concScheduleCap {
				return
			}
			n++
			fs, res := concCheck(sc, alone, prefix)
			schedules++
			points += len(res.Points)
			accesses += res.Accesses
			ch := choicesOf(res)
			outcomes[sc.Name+fmt.Sprint(len(fs))] = true
			if len(fs) > 0 {
				fs2, _ := concCheck(sc, alone, ch)
				if fmt.Sprint(keys(fs)) != fmt.Sprint(keys(fs2)) && !onlyRacesLost(fs, fs2) {
					r.HarnessError("concurrent stage not deterministic for scenario " + sc.Name)
				} else {
					for _, f := range fs {
						if !reported[f.Key] { // one witness schedule per finding and scenario
							reported[f.Key] = true
							r.Report("concurrent-stage", map[string]any{"scenario": sc.Name, "schedule": ch}, f)
						}
					}
				}
			}
			pre := 0
			for i := 0; i < len(res.Points); i++ {
				p := res.Points[i]
				if i >= len(prefix) {
					for alt := 1; alt < len(p.Enabled); alt++ {
						cost := pre
						if p.Running != 0 && len(p.Enabled) > 0 && p.Enabled[0] == p.Running {
							cost++ // switching away from a caller that could go on
						}
						if bound >= 0 && cost > bound {
							continue
						}
						rec(append(append([]int{}, ch[:i]...), alt))
					}
				}
				if p.Chosen > 0 && p.Running != 0 && p.Enabled[0] == p.Running {
					pre++
				}
			}
		}
		// every schedule with at most two preemptions first; then, when that space was small, all of them
		rec(nil)
		total := n
		if n < concScheduleCap/4 {
			n, bound = 0, -1
			rec(nil)
			total += n
			if n >= concScheduleCap {
				capped++
			}
		} else {
			boundedOnly++
		}
		n = total
		r.Eval(uint64(n))
		r.Distinct(sc.Name)
	}
	if accesses == 0 {
		r.HarnessError("the concurrent stage saw no access probe at all: the instrumented build is not in effect")
	}
	r.Note("scenarios", len(scs))
	r.Note("schedules_explored", schedules)
	r.Note("scheduling_points", points)
	r.Note("access_probes_executed", accesses)
	r.Note("exhaustive", capped == 0 && boundedOnly == 0)
	r.Note("preemption_bounds_completed", map[bool]string{true: "2, then unbounded (every scenario explored to completion)", false: "2 (some scenario was too large to finish unbounded, see the caps)"}[capped == 0 && boundedOnly == 0])
	if boundedOnly > 0 {
		r.Note("scenarios_explored_to_preemption_bound_2_only", boundedOnly)
	}
	if capped > 0 {
		r.Note("scenarios_stopped_at_schedule_cap", capped)
		r.Note("schedule_cap", concScheduleCap)
	}
	os.Exit(r.FinishMerge("concurrent_stage", "schedule exploration of the property's operations called by 2-3 (thorough: 4) callers at once on objects of their own, in the instrumented build under the cooperative scheduler: every lock operation of the library is a scheduling point, all interleavings at those points are explored (DFS over choice prefixes: first every schedule with at most 2 preemptions, then unbounded - which is every start order when the code takes no lock; a scenario whose bounded space exceeds 1,000 schedules is left at bound 2 and reported as such); on every schedule: no unordered conflicting access to anything both callers reach (package-level variables, shared tables, caches, pools - vector-clock monitor over every access probe), no deadlock, no panic, and every caller's results equal the results of its call made alone; each body is also run twice in a row alone and must repeat itself"))
}

func concReplay(path string) {
	b, err := os.ReadFile(path)
	if err != nil {
		fmt.Println(err)
		os.Exit(2)
	}
	var doc struct {
		Property string `json:"property"`
		Input    struct {
			Scenario string `json:"scenario"`
			Schedule []int  `json:"schedule"`
		} `json:"input"`
	}
	if err := json.Unmarshal(b, &doc); err != nil {
		fmt.Println(err)
		os.Exit(2)
	}
	for _, sc := range concScenarios(doc.Property, true) {
		if sc.Name != doc.Input.Scenario {
			continue
		}
		alone := make([]string, len(sc.Threads))
		for i, th := range sc.Threads {
			th := th
			vsync.Run(nil, []func(){func() { alone[i] = th() }})
		}
		fs, res := concCheck(sc, alone, doc.Input.Schedule)
		fmt.Printf("replay property=%s concurrent-stage scenario %q schedule=%v\n", doc.Property, sc.Name, doc.Input.Schedule)
		for _, p := range res.Points {
			fmt.Printf("  point: enabled=%v chosen=%d %s\n", p.Enabled, p.Chosen, p.Desc)
		}
		for _, f := range fs {
			fmt.Printf("replay: FINDING key=%s what=%s\n", f.Key, f.What)
		}
		if len(fs) > 0 {
			os.Exit(1)
		}
		fmt.Println("replay: no finding on this schedule")
		os.Exit(0)
	}
	fmt.Println("scenario not found:", doc.Input.Scenario)
	os.Exit(2)
}
