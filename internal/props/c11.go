package props

import (
	"bytes"
	"context"
	"encoding/hex"
	"encoding/json"
	"fmt"
	"math/big"

	"github.com/libsv/go-bk/bec"
	"github.com/libsv/go-bt/v2"
	"github.com/libsv/go-bt/v2/unlocker"

	"verif/internal/ref/txref"
	"verif/internal/rep"
)

var c11Quotes = []quote{
	{5, 100, 5, 100}, {1, 1000, 1, 1000}, {500, 1000, 250, 1000}, {1, 1, 1, 1}, {3, 1, 2, 1},
	{7, 3, 1, 4}, {1000, 1, 1, 1000}, {29, 100, 46, 10}, {1, 2, 250, 1000}, {0, 1, 0, 1}, {46, 10, 29, 100}, {350, 1000, 35, 100},
}

func c11OutScript(kind int) []byte {
	switch kind {
	case 0:
		return refP2PKH(fill(20, 3))
	case 1:
		return []byte{0x6a}
	case 2:
		return []byte{0x6a, 0x00}
	case 3:
		return []byte{0x6a, 0x01, 0x42}
	case 4:
		return append([]byte{0x6a, 75}, fill(75, 1)...)
	case 5:
		return append([]byte{0x6a, 0x4c, 76}, fill(76, 1)...)
	case 6:
		return append([]byte{0x00, 0x6a, 0x4e, 0, 0, 1, 0}, fill(65536, 1)...)
	case 7:
		return []byte{0x00, 0x6a}
	case 8:
		return []byte{0x00, 0x6a, 0x03, 1, 2, 3}
	case 9:
		return []byte{0x00}
	case 10:
		return []byte{0x00, 0x51, 0x6a}
	case 11:
		return []byte{}
	case 12:
		return append([]byte{0x51, 0x6a, 0x4c, 200}, fill(200, 1)...) // OP_RETURN not first: standard bytes
	}
	return nil
}

const c11Kinds = 13

type c11Case struct {
	Outs   []int `json:"out_kinds"`
	NIn    int   `json:"nin"`
	Signed int   `json:"signed"` // 0 none, 1 all (107-byte scripts), 2 first only, 3 all with 50-byte scripts, 4 none (empty non-nil scripts)
	Q      quote `json:"quote"`
	Rel    int   `json:"rel"` // in-out relative to the reference fee: 0 fee-1, 1 fee, 2 fee+1, 3 out>in, 4 equal, 5 ample
	OnEst  bool  `json:"on_estimate"`
	OutRep int   `json:"out_rep,omitempty"`     // >0: the first output kind repeated this many times
	InRep  int   `json:"in_rep,omitempty"`      // >0: this many inputs
	QForm  int   `json:"quote_form,omitempty"`  // how the quote object is put together, see quote.libForm
	Huge   bool  `json:"huge_output,omitempty"` // the first output carries 2^64-4 satoshis, the inputs 1000
	// HugeIn (with Huge): 0 = inputs of 1000; 1 = inputs of 5000 (more than the outputs' sum modulo 2^64);
	// 2 = two inputs of 2^63 each (their sum wraps as well: mathematically inputs exceed the first output by 4)
	HugeIn int `json:"huge_inputs,omitempty"`
	// NullPrev: the first input spends an all-zero previous txid (1: at its own index, 2: at index
	// 0xffffffff - the shape of a coinbase input); its recorded value counts like any other input's
	NullPrev int `json:"null_prev,omitempty"`
}

func c11Build(c c11Case) *txref.Tx {
	t := &txref.Tx{Version: 1}
	for i, k := range c.Outs {
		t.Outs = append(t.Outs, txref.Out{Sats: uint64(1000 + 10*i), Script: c11OutScript(k)})
	}
	if c.OutRep > 0 {
		t.Outs = nil
		for i := 0; i < c.OutRep; i++ {
			t.Outs = append(t.Outs, txref.Out{Sats: uint64(10 + i), Script: c11OutScript(c.Outs[0])})
		}
	}
	nin := c.NIn
	if c.InRep > 0 {
		nin = c.InRep
	}
	if c.Huge && len(t.Outs) > 0 {
		t.Outs[0].Sats = ^uint64(0) - 3
	}
	for i := 0; i < nin; i++ {
		in := p2pkhIn(i, 0)
		switch {
		case c.Signed == 1, c.Signed == 2 && i == 0:
			in.Script = fill(107, 0x30)
		case c.Signed == 3:
			in.Script = fill(50, 0x30)
		case c.Signed == 4:
			in.Script = []byte{} // unsigned the way a parsed or cloned transaction is: empty, not nil
		}
		t.Ins = append(t.Ins, in)
	}
	return t
}

func c11Check(c c11Case) (fs []rep.Finding) {
	ref := c11Build(c)
	est := refEstimated(ref)
	// amount relation is set against the fee of the actual or the estimated size
	basis := ref
	if c.OnEst {
		basis = est
	}
	_, bs, bd := refSizes(basis)
	fee := refFee(bs, bd, c.Q)
	out := sumOut(ref)
	var in *big.Int
	switch c.Rel {
	case 0:
		in = new(big.Int).Add(out, new(big.Int).Sub(fee, big.NewInt(1)))
	case 1:
		in = new(big.Int).Add(out, fee)
	case 2:
		in = new(big.Int).Add(out, new(big.Int).Add(fee, big.NewInt(1)))
	case 3:
		in = new(big.Int).Sub(out, big.NewInt(1))
	case 4:
		in = new(big.Int).Set(out)
	default:
		in = new(big.Int).Add(out, big.NewInt(1_000_000_000))
	}
	if c.Huge {
		in = big.NewInt([]int64{1000, 5000, 0}[c.HugeIn])
	}
	if in.Sign() < 0 || len(ref.Ins) == 0 {
		in = big.NewInt(0)
	}
	if len(ref.Ins) > 0 {
		ref.Ins[0].PrevSats = in.Uint64()
		est.Ins[0].PrevSats = in.Uint64()
	}
	if c.Huge && c.HugeIn == 2 && len(ref.Ins) >= 2 {
		for i := 0; i < 2; i++ {
			ref.Ins[i].PrevSats = 1 << 63
			est.Ins[i].PrevSats = 1 << 63
		}
	}
	if c.NullPrev > 0 && len(ref.Ins) > 0 {
		for _, t := range []*txref.Tx{ref, est} {
			t.Ins[0].TxID = make([]byte, 32)
			if c.NullPrev == 2 {
				t.Ins[0].Vout = 0xffffffff
			}
		}
	}
	tx := toLib(ref)
	fq := c.Q.libForm(c.QForm)

	total, std, data := refSizes(ref)
	sz := tx.SizeWithTypes()
	if uint64(tx.Size()) != total || sz.TotalBytes != total {
		fs = append(fs, rep.F("size|total", fmt.Sprintf("Size=%d TotalBytes=%d serialised=%d", tx.Size(), sz.TotalBytes, total)))
	}
	if sz.TotalStdBytes != std || sz.TotalDataBytes != data || sz.TotalStdBytes+sz.TotalDataBytes != sz.TotalBytes {
		fs = append(fs, rep.F("size|partition", fmt.Sprintf("std=%d data=%d want std=%d data=%d", sz.TotalStdBytes, sz.TotalDataBytes, std, data)))
	}
	diff := new(big.Int).Sub(sumIn(ref), out)
	want := diff.Sign() >= 0 && diff.Cmp(refFee(std, data, c.Q)) >= 0
	got, err := tx.IsFeePaidEnough(fq)
	if err != nil {
		fs = append(fs, rep.F("IsFeePaidEnough|error", err.Error()))
	} else if got != want {
		fs = append(fs, rep.F(fmt.Sprintf("IsFeePaidEnough|wrong|rel=%d", c.Rel), fmt.Sprintf("got %v; in-out=%s fee=%s", got, diff, refFee(std, data, c.Q))))
	}
	// estimates
	et, es, ed := refSizes(est)
	esz, err := tx.EstimateSizeWithTypes()
	n, err2 := tx.EstimateSize()
	if err != nil || err2 != nil {
		fs = append(fs, rep.F("Estimate|unexpected-error", fmt.Sprint(err, err2)))
		return
	}
	if uint64(n) != et || esz.TotalBytes != et || esz.TotalStdBytes != es || esz.TotalDataBytes != ed {
		fs = append(fs, rep.F("EstimateSize|differs", fmt.Sprintf("got %d/%d/%d want %d/%d/%d", esz.TotalBytes, esz.TotalStdBytes, esz.TotalDataBytes, et, es, ed)))
	}
	ef, err := tx.EstimateFeesPaid(fq)
	if err != nil {
		fs = append(fs, rep.F("EstimateFeesPaid|error", err.Error()))
	} else {
		ws, wd := floorMulDiv(es, c.Q.SS, c.Q.SB), floorMulDiv(ed, c.Q.DS, c.Q.DB)
		if new(big.Int).SetUint64(ef.StdFeePaid).Cmp(ws) != 0 || new(big.Int).SetUint64(ef.DataFeePaid).Cmp(wd) != 0 ||
			ef.TotalFeePaid != ef.StdFeePaid+ef.DataFeePaid {
			fs = append(fs, rep.F("EstimateFeesPaid|not-floor-formula", fmt.Sprintf("got std=%d data=%d total=%d want std=%s data=%s", ef.StdFeePaid, ef.DataFeePaid, ef.TotalFeePaid, ws, wd)))
		}
	}
	wantE := diff.Sign() >= 0 && diff.Cmp(refFee(es, ed, c.Q)) >= 0
	gotE, err := tx.EstimateIsFeePaidEnough(fq)
	if err != nil {
		fs = append(fs, rep.F("EstimateIsFeePaidEnough|error", err.Error()))
	} else if gotE != wantE {
		fs = append(fs, rep.F(fmt.Sprintf("EstimateIsFeePaidEnough|wrong|rel=%d", c.Rel), fmt.Sprintf("got %v; in-out=%s fee=%s", gotE, diff, refFee(es, ed, c.Q))))
	}
	return
}

// ---- estimate vs really signed size ----

type c11Sign struct {
	Key     int  `json:"key"`
	NIn     int  `json:"nin"`
	NOut    int  `json:"nout"`
	Pre     int  `json:"presigned_mask"`
	Insc    bool `json:"inscription_prev"`
	HashAll bool `json:"-"`
	// Hash of: 0 the compressed key (what the library's own P2PKH builders pay to), 1 the
	// uncompressed form of the same key, 2 an unrelated key
	PayTo int `json:"pays_to_key_form,omitempty"`
}

var c11Keys = testPrivKeys(8)

func c11SignCheck(c c11Sign) (fs []rep.Finding) {
	priv, pub := bec.PrivKeyFromBytes(bec.S256(), c11Keys[c.Key])
	lock := refP2PKH(refHash160(pub.SerialiseCompressed()))
	switch c.PayTo {
	case 1:
		lock = refP2PKH(refHash160(pub.SerialiseUncompressed()))
	case 2:
		lock = refP2PKH(fill(20, 0x5a))
	}
	if c.Insc {
		lock = append(append([]byte(nil), lock...), c14Templates()["inscription"][25:]...)
	}
	tx := bt.NewTx()
	for i := 0; i < c.NIn; i++ {
		if err := tx.FromUTXOs(&bt.UTXO{TxID: txid32(byte(i + c.Key*16)), Vout: uint32(i), Satoshis: uint64(5000 + i + c.Pre), LockingScript: libScript(lock)}); err != nil {
			return append(fs, rep.F("harness", err.Error()))
		}
	}
	for i := 0; i < c.NOut; i++ {
		tx.AddOutput(&bt.Output{Satoshis: uint64(100 + i + c.Key), LockingScript: libScript(refP2PKH(fill(20, byte(i))))})
	}
	u := &unlocker.Simple{PrivateKey: priv}
	ctx := context.Background()
	est0, err := tx.EstimateSize()
	if err != nil {
		return append(fs, rep.F("EstimateSize|error-on-p2pkh", err.Error()))
	}
	for i := 0; i < c.NIn; i++ {
		if c.Pre&(1<<i) != 0 {
			if err := tx.FillInput(ctx, u, bt.UnlockerParams{InputIdx: uint32(i)}); err != nil {
				return append(fs, rep.F("FillInput|error", err.Error()))
			}
		}
	}
	est1, err := tx.EstimateSize()
	if err != nil {
		return append(fs, rep.F("EstimateSize|error-on-p2pkh", err.Error()))
	}
	if err := tx.FillAllInputs(ctx, &unlocker.Getter{PrivateKey: priv}); err != nil {
		return append(fs, rep.F("FillAllInputs|error", err.Error()))
	}
	real := tx.Size()
	if est0 < real || est1 < real {
		fs = append(fs, rep.F("EstimateSize|below-signed-size", fmt.Sprintf("estimate %d / %d (partially signed) but signed size %d", est0, est1, real)))
	}
	return
}

// ---- estimation must refuse to guess ----

type c11Err struct {
	NIn    int  `json:"nin"`
	Pos    int  `json:"pos"`
	Kind   int  `json:"kind"` // 0 nil, 1 empty, 2 P2PK, 3 P2SH, 4 data, 5 multisig, 6 p2pkh with trailing byte, 7..11 P2PKH look-alikes
	Signed bool `json:"signed"`
}

func c11ErrCheck(c c11Err) (fs []rep.Finding) {
	t := &txref.Tx{Version: 1}
	for i := 0; i < c.NIn; i++ {
		t.Ins = append(t.Ins, p2pkhIn(i, 10000))
	}
	t.Outs = []txref.Out{{Sats: 1, Script: refP2PKH(fill(20, 1))}}
	tx := toLib(t)
	tp := c14Templates()
	switch c.Kind {
	case 0:
		tx.Inputs[c.Pos].PreviousTxScript = nil
	case 1:
		tx.Inputs[c.Pos].PreviousTxScript = libScript([]byte{})
	case 2:
		tx.Inputs[c.Pos].PreviousTxScript = libScript(tp["p2pk33"])
	case 3:
		tx.Inputs[c.Pos].PreviousTxScript = libScript(tp["p2sh"])
	case 4:
		tx.Inputs[c.Pos].PreviousTxScript = libScript(tp["opreturn"])
	case 5:
		tx.Inputs[c.Pos].PreviousTxScript = libScript(tp["ms1of1"])
	case 6:
		tx.Inputs[c.Pos].PreviousTxScript = libScript(append(append([]byte(nil), tp["p2pkh"]...), 0x61))
	case 12, 13, 14, 15:
		// a P2PKH prefix followed by something that only begins like an inscription envelope
		tx.Inputs[c.Pos].PreviousTxScript = libScript([][]byte{
			bytesJoin(tp["p2pkh"], []byte{0x00, 0x63, 0x03, 'o', 'r', 'd'}),
			bytesJoin(tp["p2pkh"], []byte{0x00, 0x63, 0x03, 'o', 'r', 'd', 0x51, 0x4c}),
			bytesJoin(tp["p2pkh"], []byte{0x00, 0x63, 0x03, 'o', 'r', 'd', 0x51, 0x01, 0x41, 0x00, 0x01, 0x42}),
			bytesJoin(tp["p2pkh"], []byte{0x00, 0x63, 0x03, 'a', 'b', 'c', 0x51, 0x01, 0x41, 0x00, 0x01, 0x42, 0x68}),
		}[c.Kind-12])
	case 7, 8, 9, 10, 11:
		// scripts that look like P2PKH once push prefixes are dropped, but are not the 25-byte template
		h := fill(20, 0x5c)
		tx.Inputs[c.Pos].PreviousTxScript = libScript([][]byte{
			bytesJoin([]byte{0x76, 0xa9, 0x4c, 0x14}, h, []byte{0x88, 0xac}),
			bytesJoin([]byte{0x76, 0xa9, 0x14}, h, []byte{0x88, 0x01, 0xac}),
			bytesJoin([]byte{0x01, 0x76, 0x01, 0xa9, 0x14}, h, []byte{0x01, 0x88, 0x01, 0xac}),
			bytesJoin([]byte{0x76, 0xa9, 0x15}, h, []byte{0x00, 0x88, 0xac}),
			bytesJoin([]byte{0x61, 0x76, 0xa9, 0x14}, h, []byte{0x88, 0xac}),
		}[c.Kind-7])
	}
	if c.Signed {
		for _, in := range tx.Inputs {
			in.UnlockingScript = libScript(fill(107, 1))
		}
	}
	fq := bt.NewFeeQuote()
	if _, err := tx.EstimateSize(); err == nil {
		fs = append(fs, rep.F("EstimateSize|guesses", "no error for a missing/unsupported spent script"))
	}
	if _, err := tx.EstimateSizeWithTypes(); err == nil {
		fs = append(fs, rep.F("EstimateSizeWithTypes|guesses", "no error for a missing/unsupported spent script"))
	}
	if _, err := tx.EstimateFeesPaid(fq); err == nil {
		fs = append(fs, rep.F("EstimateFeesPaid|guesses", "no error for a missing/unsupported spent script"))
	}
	if _, err := tx.EstimateIsFeePaidEnough(fq); err == nil {
		fs = append(fs, rep.F("EstimateIsFeePaidEnough|guesses", "no error for a missing/unsupported spent script"))
	}
	return
}

// c11Refresh: a FeeQuote object that is in use is refreshed from a JSON document. After a document
// that is accepted the quote holds exactly the document's entries (a type it omits is gone); after
// one that is rejected it holds what it held before. Fees computed from it afterwards follow.
type c11Refresh struct {
	Prior int `json:"prior_state"` // 0 fresh default quote, 1 both types set through AddQuote, 2 both set, then read
	Doc   int `json:"document"`
}

var c11RefreshDocs = []struct {
	doc      string
	ok       bool
	std, dat *[2]int // satoshis, bytes; nil = absent after an accepted refresh
}{
	{`{"standard":{"miningFee":{"satoshis":500,"bytes":1000},"relayFee":{"satoshis":500,"bytes":1000}},"data":{"miningFee":{"satoshis":250,"bytes":1000},"relayFee":{"satoshis":250,"bytes":1000}}}`, true, &[2]int{500, 1000}, &[2]int{250, 1000}},
	{`{"standard":{"miningFee":{"satoshis":500,"bytes":1000},"relayFee":{"satoshis":500,"bytes":1000}}}`, true, &[2]int{500, 1000}, nil},
	{`{"data":{"miningFee":{"satoshis":7,"bytes":3},"relayFee":{"satoshis":7,"bytes":3}}}`, true, nil, &[2]int{7, 3}},
	{`{}`, true, nil, nil},
	{`{"standard":{"miningFee":{"satoshis":500,"bytes":1000},"relayFee":{"satoshis":500,"bytes":1000}},"priority":{"miningFee":{"satoshis":1,"bytes":1},"relayFee":{"satoshis":1,"bytes":1}}}`, false, nil, nil},
	{`{"data":{"miningFee":{"satoshis":9,"bytes":10},"relayFee":{"satoshis":9,"bytes":10}},"standard":{"miningFee":{"satoshis":"many","bytes":1000}}}`, false, nil, nil},
	{`{"standard":{"miningFee":{"satoshis":500,"bytes":1000}},"data":`, false, nil, nil},
	{`[]`, false, nil, nil},
}

func c11RefreshCheck(c c11Refresh) (fs []rep.Finding) {
	fq := bt.NewFeeQuote()
	before := map[bt.FeeType][2]int{bt.FeeTypeStandard: {5, 100}, bt.FeeTypeData: {5, 100}}
	if c.Prior >= 1 {
		fq.AddQuote(bt.FeeTypeStandard, &bt.Fee{FeeType: bt.FeeTypeStandard, MiningFee: bt.FeeUnit{Satoshis: 977, Bytes: 3}, RelayFee: bt.FeeUnit{Satoshis: 977, Bytes: 3}})
		fq.AddQuote(bt.FeeTypeData, &bt.Fee{FeeType: bt.FeeTypeData, MiningFee: bt.FeeUnit{Satoshis: 13, Bytes: 7}, RelayFee: bt.FeeUnit{Satoshis: 13, Bytes: 7}})
		before = map[bt.FeeType][2]int{bt.FeeTypeStandard: {977, 3}, bt.FeeTypeData: {13, 7}}
	}
	if c.Prior == 2 {
		_, _ = fq.Fee(bt.FeeTypeStandard)
		_, _ = fq.Fee(bt.FeeTypeData)
		_, _ = json.Marshal(fq)
	}
	d := c11RefreshDocs[c.Doc]
	err := json.Unmarshal([]byte(d.doc), fq)
	if (err == nil) != d.ok {
		return append(fs, rep.F("quote-refresh|verdict", fmt.Sprintf("document %d: err=%v, expected accepted=%v", c.Doc, err, d.ok)))
	}
	want := map[bt.FeeType]*[2]int{bt.FeeTypeStandard: d.std, bt.FeeTypeData: d.dat}
	if !d.ok {
		bs, bd := before[bt.FeeTypeStandard], before[bt.FeeTypeData]
		want = map[bt.FeeType]*[2]int{bt.FeeTypeStandard: &bs, bt.FeeTypeData: &bd}
	}
	for _, ft := range []bt.FeeType{bt.FeeTypeStandard, bt.FeeTypeData} {
		f, ferr := fq.Fee(ft)
		w := want[ft]
		switch {
		case w == nil && ferr == nil:
			fs = append(fs, rep.F("quote-refresh|stale-entry|accepted="+fmt.Sprint(d.ok), fmt.Sprintf("after the refresh the quote still answers for %s (%d/%d) although the accepted document does not carry it", ft, f.MiningFee.Satoshis, f.MiningFee.Bytes)))
		case w != nil && (ferr != nil || f.MiningFee.Satoshis != w[0] || f.MiningFee.Bytes != w[1]):
			fs = append(fs, rep.F("quote-refresh|wrong-rate|accepted="+fmt.Sprint(d.ok), fmt.Sprintf("after the refresh (accepted=%v) the %s fee is %+v (err=%v), want %d/%d", d.ok, ft, f, ferr, w[0], w[1])))
		}
	}
	// and what a transaction is charged follows the same rates
	if want[bt.FeeTypeStandard] != nil && want[bt.FeeTypeData] != nil {
		t := &txref.Tx{Version: 1, Ins: []txref.In{p2pkhIn(0, 100000)}, Outs: []txref.Out{{Sats: 1000, Script: refP2PKH(fill(20, 1))}, {Sats: 0, Script: c11OutScript(5)}}}
		t.Ins[0].Script = fill(107, 0x30)
		_, std, data := refSizes(t)
		q := quote{want[bt.FeeTypeStandard][0], want[bt.FeeTypeStandard][1], want[bt.FeeTypeData][0], want[bt.FeeTypeData][1]}
		ef, err := toLib(t).EstimateFeesPaid(fq)
		if err != nil || new(big.Int).SetUint64(ef.TotalFeePaid).Cmp(refFee(std, data, q)) != 0 {
			fs = append(fs, rep.F("quote-refresh|fee-follows-other-rates", fmt.Sprintf("fee computed after the refresh: %+v (err=%v), the quote's rates give %s", ef, err, refFee(std, data, q))))
		}
	}
	return
}

func init() {
	p := register(&Prop{ID: "C11", Level: "exploration",
		Rule: "exhaustive: (accounting) every multiset-ordered choice of <=2 (quick) / <=3 (thorough) outputs from 13 script kinds (P2PKH, OP_RETURN alone/empty/1/75/76-byte, OP_FALSE OP_RETURN with 65536-byte payload and bare, `00`, `00 51 6a`, empty, OP_RETURN not first) x inputs 0..3 x signing state (none/all/first/short scripts) x 11 fee quotes (independent std/data rates incl. >1 sat/byte, non-dyadic rates, zero) x in-out placed at {fee-1, fee, fee+1, out>in, equal, ample} relative to the big-integer reference fee of the actual and of the estimated size: TotalBytes=len(bytes)=Std+Data, fee = floor+floor, predicates exact; (signed) 8 keys x nIn 1..3 x nOut 0..2 x every subset of inputs pre-signed x plain/inscription spent script, paying to the hash of the compressed key, of the uncompressed form of the same key, or of another key: EstimateSize >= size after FillAllInputs; (counts) 252/253/254 outputs with 0..2 inputs and 252/253/254 inputs with 0..2 outputs x quotes x fee relations; (errors) every position x 16 missing/unsupported spent scripts (incl. five P2PKH look-alikes: hash through PUSHDATA1, opcodes as pushed bytes, 21-byte hash, leading NOP; and four P2PKH prefixes followed by a broken inscription envelope: opener only, truncated push, no OP_ENDIF, another tag) x signed/unsigned: every estimator returns an error; (null outpoint) one or two inputs the first of which spends an all-zero previous txid (at its own index / at index 0xffffffff) x quotes x the six fee relations: its value counts; (wrap) outputs totalling 2^64-4 and more against inputs of 1000, of 5000 (more than the outputs' sum modulo 2^64) and of 2^63+2^63; (quote forms) the same quotes assembled through 9 other call sequences (a relay fee that differs from the mining fee, refreshed from JSON into a quote object that already held default / other rates, Fee objects labelled with the other type, unlabelled, through FeeQuotes.UpdateMinerFees, update of existing entries, relabelled copy, a fresh default quote after another default quote's Fee objects were changed in place); (quote refresh) 3 prior states of a quote object x 8 JSON documents (both types, one type only, empty, unknown type after a valid entry, bad unit in a later entry, truncated, not an object): after an accepted document the quote holds exactly its entries, after a rejected one what it held before, and fees follow; (builders) outputs built by AddOpReturnOutput / AddOpReturnPartsOutput / CreateOpReturnOutput for item lengths {1,2,75,76,255,256,65535,65536} (single and pairs) and AddHashPuzzleOutput: script equals the reference layout and is counted as data / standard bytes accordingly. distinct_nontrivial = distinct (tx bytes, quote, relation) triples",
	})
	sA := NewSpace(p, "accounting", c11Check)
	sS := NewSpace(p, "signed", c11SignCheck)
	sE := NewSpace(p, "errors", c11ErrCheck)
	sB := NewSpace(p, "builders", c11BuilderCheck)
	sR := NewSpace(p, "quote-refresh", c11RefreshCheck)
	p.Run = func(r *rep.Run, thorough bool) {
		var outsets [][]int
		outsets = append(outsets, []int{})
		for a := 0; a < c11Kinds; a++ {
			outsets = append(outsets, []int{a})
			for b := 0; b < c11Kinds; b++ {
				outsets = append(outsets, []int{a, b})
				if thorough {
					for c := 0; c < c11Kinds; c++ {
						if (a == 6 && b == 6) || (b == 6 && c == 6) || (a == 6 && c == 6) {
							continue
						}
						outsets = append(outsets, []int{a, b, c})
					}
				}
			}
		}
		(&Space[c11Case]{P: p, Name: sA.Name, Check: func(c c11Case) []rep.Finding {
			fs := c11Check(c)
			if len(fs) == 0 {
				r.Distinct("a", fmt.Sprint(c))
			}
			return fs
		}}).Each(r, func(yield func(c11Case)) {
			for _, os := range outsets {
				for nin := 0; nin <= 3; nin++ {
					for sg := 0; sg < 5; sg++ {
						if nin == 0 && sg > 0 {
							continue
						}
						for _, q := range c11Quotes {
							for rel := 0; rel < 6; rel++ {
								for _, onEst := range []bool{false, true} {
									if onEst && (rel > 2 || sg == 1) {
										continue
									}
									yield(c11Case{Outs: os, NIn: nin, Signed: sg, Q: q, Rel: rel, OnEst: onEst})
								}
							}
						}
					}
				}
			}
		})
		// counts on both sides of the varint boundary, independently for inputs and outputs
		var bc []c11Case
		// outputs whose total is within a fee of 2^64 (sums that wrap must not make them look paid)
		for _, os := range [][]int{{0}, {0, 0}, {3, 0}, {0, 5}} {
			for nin := 1; nin <= 2; nin++ {
				for _, q := range c11Quotes {
					for _, sg := range []int{0, 1, 2} {
						bc = append(bc, c11Case{Outs: os, NIn: nin, Signed: sg, Q: q, Rel: 3, Huge: true})
						bc = append(bc, c11Case{Outs: os, NIn: nin, Signed: sg, Q: q, Rel: 3, Huge: true, HugeIn: 1})
						if nin == 2 {
							bc = append(bc, c11Case{Outs: os, NIn: nin, Signed: sg, Q: q, Rel: 3, Huge: true, HugeIn: 2})
						}
					}
				}
			}
		}
		// the same quotes put together through other call sequences
		for _, os := range [][]int{{}, {0}, {3}, {0, 5}, {5, 0, 3}, {8, 0}} {
			for nin := 1; nin <= 2; nin++ {
				for _, q := range c11Quotes {
					for rel := 0; rel < 3; rel++ {
						for form := 1; form <= 10; form++ {
							bc = append(bc, c11Case{Outs: os, NIn: nin, Signed: 2, Q: q, Rel: rel, QForm: form}, c11Case{Outs: os, NIn: nin, Signed: 0, Q: q, Rel: rel, OnEst: true, QForm: form})
						}
						for np := 1; np <= 2; np++ {
							for _, r2 := range []int{rel, rel + 3} {
								bc = append(bc, c11Case{Outs: os, NIn: nin, Signed: 1, Q: q, Rel: r2, NullPrev: np}, c11Case{Outs: os, NIn: nin, Signed: 0, Q: q, Rel: r2, OnEst: true, NullPrev: np})
							}
						}
					}
				}
			}
		}
		for _, nout := range []int{252, 253, 254} {
			for _, nin := range []int{0, 1, 2} {
				for _, k := range []int{0, 3, 11} {
					for _, q := range c11Quotes[:6] {
						for rel := 0; rel < 3; rel++ {
							bc = append(bc, c11Case{Outs: []int{k}, NIn: nin, Signed: 2, Q: q, Rel: rel, OutRep: nout})
						}
					}
				}
			}
		}
		for _, nin := range []int{252, 253, 254} {
			for _, os := range [][]int{{}, {0}, {0, 4}} {
				for _, q := range c11Quotes[:6] {
					for rel := 0; rel < 3; rel++ {
						bc = append(bc, c11Case{Outs: os, Signed: rel, Q: q, Rel: rel, InRep: nin}, c11Case{Outs: os, Signed: 1, Q: q, Rel: rel, InRep: nin, OnEst: true})
					}
				}
			}
		}
		(&Space[c11Case]{P: p, Name: sA.Name, Check: func(c c11Case) []rep.Finding {
			fs := c11Check(c)
			if len(fs) == 0 {
				r.Distinct("a", fmt.Sprint(c))
			}
			return fs
		}}).Slice(r, bc)
		r.Note("count_boundary_cases", len(bc))
		r.Note("output_sets", len(outsets))
		r.Sample("accounting", c11Case{Outs: []int{0, 5}, NIn: 2, Signed: 2, Q: c11Quotes[5], Rel: 1})
		var sc []c11Sign
		nk := 4
		if thorough {
			nk = 8
		}
		for k := 0; k < nk; k++ {
			for nin := 1; nin <= 3; nin++ {
				for nout := 0; nout <= 2; nout++ {
					for pre := 0; pre < 1<<nin; pre++ {
						sc = append(sc, c11Sign{Key: k, NIn: nin, NOut: nout, Pre: pre}, c11Sign{Key: k, NIn: nin, NOut: nout, Pre: pre, Insc: true})
						if nout <= 1 {
							sc = append(sc, c11Sign{Key: k, NIn: nin, NOut: nout, Pre: pre, PayTo: 1}, c11Sign{Key: k, NIn: nin, NOut: nout, Pre: pre, PayTo: 2})
						}
					}
				}
			}
		}
		(&Space[c11Sign]{P: p, Name: sS.Name, Check: func(c c11Sign) []rep.Finding {
			fs := c11SignCheck(c)
			if len(fs) == 0 {
				r.Distinct("s", fmt.Sprint(c))
			}
			return fs
		}}).Slice(r, sc)
		r.Note("signing_cases", len(sc))
		r.Sample("signed", sc[len(sc)/2])
		var ec []c11Err
		for nin := 1; nin <= 3; nin++ {
			for pos := 0; pos < nin; pos++ {
				for k := 0; k < 16; k++ {
					ec = append(ec, c11Err{nin, pos, k, false}, c11Err{nin, pos, k, true})
				}
			}
		}
		(&Space[c11Err]{P: p, Name: sE.Name, Check: func(c c11Err) []rep.Finding {
			fs := c11ErrCheck(c)
			if len(fs) == 0 {
				r.Distinct("e", fmt.Sprint(c))
			}
			return fs
		}}).Slice(r, ec)
		r.Sample("errors", ec[3])
		var bcs []c11Builder
		lens := []int{1, 2, 75, 76, 255, 256, 65535, 65536}
		for nin := 0; nin <= 1; nin++ {
			for _, a := range lens {
				bcs = append(bcs, c11Builder{Lens: []int{a}, Via: 0, NIn: nin}, c11Builder{Lens: []int{a}, Via: 1, NIn: nin}, c11Builder{Lens: []int{a}, Via: 2, NIn: nin})
				for _, b := range lens {
					bcs = append(bcs, c11Builder{Lens: []int{a, b}, Via: 1, NIn: nin}, c11Builder{Lens: []int{b, a, 3}, Via: 2, NIn: nin})
				}
			}
			bcs = append(bcs, c11Builder{Via: 3, NIn: nin})
		}
		(&Space[c11Builder]{P: p, Name: sB.Name, Check: func(c c11Builder) []rep.Finding {
			fs := c11BuilderCheck(c)
			if len(fs) == 0 {
				r.Distinct("b", fmt.Sprint(c))
			}
			return fs
		}}).Slice(r, bcs)
		r.Note("builder_cases", len(bcs))
		var rcs []c11Refresh
		for prior := 0; prior < 3; prior++ {
			for d := range c11RefreshDocs {
				rcs = append(rcs, c11Refresh{prior, d})
			}
		}
		sR.Slice(r, rcs)
	}
}

// ---- outputs built by the library's own builders ----

type c11Builder struct {
	Lens []int `json:"data_lens"`
	Via  int   `json:"via"` // 0 AddOpReturnOutput (one item), 1 AddOpReturnPartsOutput, 2 CreateOpReturnOutput+AddOutput, 3 AddHashPuzzleOutput
	NIn  int   `json:"nin"`
}

func c11BuilderCheck(c c11Builder) (fs []rep.Finding) {
	tx := bt.NewTx()
	ref := &txref.Tx{Version: 1}
	for i := 0; i < c.NIn; i++ {
		in := p2pkhIn(i, 1000)
		ref.Ins = append(ref.Ins, in)
	}
	tx = toLib(ref)
	var parts [][]byte
	want := []byte{0x00, 0x6a}
	for i, l := range c.Lens {
		d := fill(l, byte(0x30+i))
		parts = append(parts, d)
		want = append(append(want, refPrefix(l)...), d...)
	}
	var err error
	switch c.Via {
	case 0:
		err = tx.AddOpReturnOutput(parts[0])
	case 1:
		err = tx.AddOpReturnPartsOutput(parts)
	case 2:
		var o *bt.Output
		if o, err = bt.CreateOpReturnOutput(parts); err == nil {
			tx.AddOutput(o)
		}
	case 3:
		pkh := fill(20, 0x55)
		err = tx.AddHashPuzzleOutput("secret", hex.EncodeToString(pkh), 700)
		want = bytesJoin([]byte{0xa9, 0x14}, refHash160([]byte("secret")), []byte{0x88, 0x76, 0xa9, 0x14}, pkh, []byte{0x88, 0xac})
	}
	if err != nil {
		return append(fs, rep.F("builder|error", err.Error()))
	}
	if len(tx.Outputs) != 1 || !bytes.Equal(scriptBytes(tx.Outputs[0].LockingScript), want) {
		return append(fs, rep.F(fmt.Sprintf("builder|script|via=%d", c.Via), "the output built by the library is not OP_FALSE OP_RETURN followed by shortest-form pushes of the items (or the hash-puzzle template)"))
	}
	ref.Outs = []txref.Out{{Sats: tx.Outputs[0].Satoshis, Script: want}}
	total, std, data := refSizes(ref)
	sz := tx.SizeWithTypes()
	if sz.TotalBytes != total || sz.TotalStdBytes != std || sz.TotalDataBytes != data || uint64(tx.Size()) != total {
		fs = append(fs, rep.F(fmt.Sprintf("builder|size-partition|via=%d", c.Via), fmt.Sprintf("got %d/%d/%d want %d/%d/%d", sz.TotalBytes, sz.TotalStdBytes, sz.TotalDataBytes, total, std, data)))
	}
	if c.Via != 3 && (data != uint64(len(want)) || !tx.HasDataOutputs() || !tx.Outputs[0].LockingScript.IsData()) {
		fs = append(fs, rep.F("builder|not-a-data-output", "an OP_RETURN output built by the library is not counted as data"))
	}
	if c.Via == 3 && (data != 0 || tx.HasDataOutputs()) {
		fs = append(fs, rep.F("builder|hash-puzzle-counted-as-data", "a hash-puzzle output is counted as data"))
	}
	return
}
