package props

import (
	"bytes"
	"encoding/hex"
	"encoding/json"
	"fmt"
	"github.com/libsv/go-bt/v2/bscript"
	"io"

	"github.com/libsv/go-bt/v2"

	"verif/internal/enum"
	"verif/internal/ref/txref"
	"verif/internal/rep"
)

// txRecipe is a compact, JSON-friendly description of a reference transaction.
type txRecipe struct {
	V, LT     uint32
	NIn, NOut int
	Vout, Seq uint32
	SLen      int // unlocking script length; -1 = nil script
	PrevSats  uint64
	PrevLen   int // previous script length; -1 = nil
	Sats      uint64
	OLen      int
	Big       string // which script gets BigLen bytes: "", in0.script, inL.script, in0.prev, out0.script, outL.script
	BigLen    int
	// NullIn0: input 0 spends the null outpoint (32 zero bytes, index 0xffffffff) as a coinbase does
	NullIn0 bool `json:",omitempty"`
}

func (r txRecipe) build() *txref.Tx {
	t := &txref.Tx{Version: r.V, LockTime: r.LT}
	for i := 0; i < r.NIn; i++ {
		in := txref.In{TxID: txid32(byte(i + 1)), Vout: r.Vout + uint32(i), Seq: r.Seq - uint32(i), PrevSats: r.PrevSats + uint64(i)}
		if r.SLen >= 0 {
			in.Script = fill(r.SLen, byte(0x10+i))
		}
		if r.PrevLen >= 0 {
			in.PrevScript = fill(r.PrevLen, byte(0x30+i))
		}
		if r.NullIn0 && i == 0 {
			in.TxID, in.Vout = make([]byte, 32), 0xffffffff
		}
		t.Ins = append(t.Ins, in)
	}
	for i := 0; i < r.NOut; i++ {
		t.Outs = append(t.Outs, txref.Out{Sats: r.Sats - uint64(i), Script: fill(r.OLen, byte(0x50+i))})
	}
	switch r.Big {
	case "in0.script":
		t.Ins[0].Script = fill(r.BigLen, 0x77)
	case "inL.script":
		t.Ins[len(t.Ins)-1].Script = fill(r.BigLen, 0x78)
	case "in0.prev":
		t.Ins[0].PrevScript = fill(r.BigLen, 0x79)
	case "out0.script":
		t.Outs[0].Script = fill(r.BigLen, 0x7a)
	case "outL.script":
		t.Outs[len(t.Outs)-1].Script = fill(r.BigLen, 0x7b)
	}
	return t
}

var u32Dom = []uint32{0, 1, 0x7fffffff, 0x80000000, 0xffffffff, 0xEF000000, 0x000000EF}
var satDom = []uint64{0, 1, 1 << 63, ^uint64(0)}

// c01Struct: structure -> bytes -> structure (standard and extended).
func c01Struct(rc txRecipe) (fs []rep.Finding) {
	ref := rc.build()
	if ref.Ambiguous() {
		return nil
	}
	tx := toLib(ref)
	std, ext := ref.Bytes(false), ref.Bytes(true)
	// a serialisation handed to the caller is the caller's: serialising again (this or another
	// transaction, any format) must not change bytes returned earlier
	{
		h1, h2 := tx.Bytes(), tx.ExtendedBytes()
		k1, k2 := append([]byte(nil), h1...), append([]byte(nil), h2...)
		var parts, partsWas [][]byte
		parts = append(parts, tx.TxIDBytes())
		for _, in := range tx.Inputs {
			parts = append(parts, in.Bytes(false), in.Bytes(true))
		}
		for _, out := range tx.Outputs {
			parts = append(parts, out.Bytes(), out.BytesForSigHash())
		}
		for _, b := range parts {
			partsWas = append(partsWas, append([]byte(nil), b...))
		}
		o := toLib(ref)
		o.Version, o.LockTime = ^o.Version, ^o.LockTime
		for _, in := range o.Inputs {
			in.SequenceNumber, in.PreviousTxOutIndex = ^in.SequenceNumber, ^in.PreviousTxOutIndex
		}
		for _, out := range o.Outputs {
			out.Satoshis = ^out.Satoshis
		}
		for i := 0; i < 3; i++ {
			_, _, _, _ = o.ExtendedBytes(), o.Bytes(), o.TxID(), tx.Size()
			for _, in := range o.Inputs {
				_, _ = in.Bytes(true), in.Bytes(false)
			}
			for _, out := range o.Outputs {
				_, _ = out.BytesForSigHash(), out.Bytes()
			}
		}
		for i := range parts {
			if !bytes.Equal(parts[i], partsWas[i]) {
				fs = append(fs, rep.F("Bytes|returned-slice-changes-later", "bytes returned by TxIDBytes / Input.Bytes / Output.Bytes changed when another object was serialised"))
				return
			}
		}
		if !bytes.Equal(h1, k1) || !bytes.Equal(h2, k2) {
			fs = append(fs, rep.F("Bytes|returned-slice-changes-later", "bytes returned by an earlier serialisation changed when another serialisation was made"))
			return
		}
	}
	if got := tx.Bytes(); !bytes.Equal(got, std) {
		fs = append(fs, rep.F("Bytes|differs-from-reference", "standard serialisation differs", "got", hex.EncodeToString(got[:min(len(got), 80)]), "want", hex.EncodeToString(std[:min(len(std), 80)])))
		return
	}
	if got := tx.ExtendedBytes(); !bytes.Equal(got, ext) {
		fs = append(fs, rep.F("ExtendedBytes|differs-from-reference", "extended serialisation differs"))
		return
	}
	wantID := ref.TxID()
	if hex.EncodeToString(wantID) != tx.TxID() || !bytes.Equal(tx.TxIDBytes(), wantID) {
		fs = append(fs, rep.F("TxID|not-reversed-sha256d", "txid is not the reversed double hash of the standard form"))
	}
	// parse back: every decoder
	for _, form := range []struct {
		name string
		b    []byte
		prev bool
	}{{"std", std, false}, {"ext", ext, true}} {
		exp := *ref
		if form.prev {
			// a nil previous script comes back as an empty one; compare as bytes
			exp.Ins = append([]txref.In(nil), ref.Ins...)
		}
		t1, err := bt.NewTxFromBytes(form.b)
		if err != nil {
			fs = append(fs, rep.F("NewTxFromBytes|rejects-own-serialisation|"+form.name, err.Error()))
			continue
		}
		if d := cmpTx(t1, &exp, form.prev); d != "" {
			fs = append(fs, rep.F("NewTxFromBytes|field-lost|"+form.name, d))
		}
		t2, used, err := bt.NewTxFromStream(append(append([]byte(nil), form.b...), 0xaa, 0xbb))
		if err != nil || used != len(form.b) {
			fs = append(fs, rep.F("NewTxFromStream|used|"+form.name, fmt.Sprintf("err=%v used=%d want %d", err, used, len(form.b))))
		} else if d := cmpTx(t2, &exp, form.prev); d != "" {
			fs = append(fs, rep.F("NewTxFromStream|field-lost|"+form.name, d))
		}
		// a parsed transaction is a value of its own: the caller may reuse the buffer it was parsed
		// from, and may grow one of its scripts, without any other part of it changing
		for _, via := range []string{"NewTxFromBytes", "NewTxFromStream", "ReadFrom", "Clone"} {
			src := append(make([]byte, 0, len(form.b)+64), form.b...)
			var p *bt.Tx
			switch via {
			case "NewTxFromBytes":
				p, _ = bt.NewTxFromBytes(src)
			case "NewTxFromStream":
				p, _, _ = bt.NewTxFromStream(src)
			case "ReadFrom":
				p = &bt.Tx{}
				if _, err := p.ReadFrom(bytes.NewBuffer(src)); err != nil {
					p = nil
				}
			case "Clone":
				if q, _ := bt.NewTxFromBytes(src); q != nil {
					p = q.Clone()
				}
			}
			if p == nil {
				continue
			}
			for i := range src {
				src[i] = 0x5a
			}
			_ = append(src, bytes.Repeat([]byte{0x5a}, 64)...)
			if d := cmpTx(p, &exp, form.prev); d != "" {
				fs = append(fs, rep.F("parse|shares-source-buffer|"+via+"|"+form.name, "the parsed transaction changed when the buffer it was parsed from was overwritten: "+d))
				continue
			}
			spillScripts(p)
			if d := cmpTx(p, &exp, form.prev); d != "" {
				fs = append(fs, rep.F("parse|scripts-share-a-buffer|"+via+"|"+form.name, "appending to one script of a parsed transaction (in its spare capacity) changed another part of it: "+d))
			}
		}
		var t3 bt.Tx
		n, err := t3.ReadFrom(bytes.NewReader(form.b))
		if err != nil || int(n) != len(form.b) {
			fs = append(fs, rep.F("ReadFrom|used|"+form.name, fmt.Sprintf("err=%v n=%d want %d", err, n, len(form.b))))
		} else if d := cmpTx(&t3, &exp, form.prev); d != "" {
			fs = append(fs, rep.F("ReadFrom|field-lost|"+form.name, d))
		}
		// the same Tx value parses another transaction (fewer inputs and outputs): afterwards it
		// is that transaction
		{
			other := *ref
			other.Version ^= 0x00010001
			if len(other.Ins) > 0 {
				other.Ins = other.Ins[:len(other.Ins)-1]
			}
			if len(other.Outs) > 0 {
				other.Outs = other.Outs[:len(other.Outs)-1]
			}
			if !other.Ambiguous() {
				ob := other.Bytes(form.prev)
				if n, err := t3.ReadFrom(bytes.NewReader(ob)); err != nil || int(n) != len(ob) {
					fs = append(fs, rep.F("ReadFrom|into-used-tx|"+form.name, fmt.Sprintf("err=%v n=%d want %d", err, n, len(ob))))
				} else if d := cmpTx(&t3, &other, form.prev); d != "" {
					fs = append(fs, rep.F("ReadFrom|into-used-tx|"+form.name, d))
				}
			}
		}
		// an Input object that has been serialised is then decoded into from JSON (encoding/json
		// reuses the elements of a slice it decodes into): what it serialises to afterwards is
		// what it now holds
		if len(ref.Ins) > 0 && form.name == "std" {
			donor := &bt.Input{PreviousTxOutIndex: 77, SequenceNumber: 0x01020304, UnlockingScript: bscript.NewFromBytes([]byte{0x51, 0x52})}
			_ = donor.PreviousTxIDAdd(txid32(0xd7))
			if jb, err := json.Marshal(donor); err == nil {
				_ = t1.Bytes()
				if err := json.Unmarshal(jb, t1.Inputs[0]); err == nil {
					exp2 := *ref
					exp2.Ins = append([]txref.In(nil), ref.Ins...)
					exp2.Ins[0] = txref.In{TxID: txid32(0xd7), Vout: 77, Seq: 0x01020304, Script: []byte{0x51, 0x52}}
					if !bytes.Equal(t1.Bytes(), exp2.Bytes(false)) {
						fs = append(fs, rep.F("Bytes|stale-after-json-decode-into-input", "an input that had been serialised was decoded into from JSON; the transaction does not serialise to what it now holds"))
					}
				}
			}
			// t1 is parsed again for the steps below
			t1, _ = bt.NewTxFromBytes(form.b)
		}
		// re-serialise in the arrival format
		var again []byte
		if form.prev {
			again = t1.ExtendedBytes()
		} else {
			again = t1.Bytes()
		}
		if !bytes.Equal(again, form.b) {
			fs = append(fs, rep.F("reserialise|differs|"+form.name, "parse then serialise is not the identity"))
		}
	}
	// clone
	cl := tx.Clone()
	if d := cmpTx(cl, ref, true); d != "" {
		fs = append(fs, rep.F("Clone|differs", d))
	}
	return
}

// c01Bytes: bytes -> structure -> bytes for an arbitrary string.
type c01BytesCase struct {
	Data HB `json:"data"`
}

func c01Bytes(c c01BytesCase) (fs []rep.Finding) {
	s := []byte(c.Data)
	rp, rerr := txref.Parse(s)
	if rerr == nil && rp.Tx.Ambiguous() {
		return nil
	}
	if ps, err := txref.ParseStd(s); err == nil && ps.Tx.Ambiguous() {
		return nil
	}
	tx, used, err := bt.NewTxFromStream(append([]byte(nil), s...))
	if err != nil {
		if rerr == nil && rp.Minimal {
			fs = append(fs, rep.F("NewTxFromStream|rejects-minimal-valid", "a minimally encoded transaction was rejected: "+err.Error()))
		}
		if _, e2 := bt.NewTxFromBytes(append([]byte(nil), s...)); e2 == nil {
			fs = append(fs, rep.F("NewTxFromBytes|accepts-what-stream-rejects", "decoders disagree"))
		}
		return
	}
	if rerr != nil {
		fs = append(fs, rep.F("NewTxFromStream|accepts-non-transaction", fmt.Sprintf("accepted (used=%d) a string the reference cannot parse: %v", used, rerr)))
		return
	}
	if used != rp.Used {
		fs = append(fs, rep.F("NewTxFromStream|used-mismatch", fmt.Sprintf("used=%d, transaction ends at %d", used, rp.Used)))
		return
	}
	if d := cmpTx(tx, rp.Tx, rp.Extended); d != "" {
		fs = append(fs, rep.F("NewTxFromStream|field-mismatch", d))
		return
	}
	if rp.Minimal {
		var again []byte
		if rp.Extended {
			again = tx.ExtendedBytes()
		} else {
			again = tx.Bytes()
		}
		if !bytes.Equal(again, s[:used]) {
			fs = append(fs, rep.F("reserialise|differs|string", "minimal string does not re-serialise to itself"))
		}
	}
	if hex.EncodeToString(rp.Tx.TxID()) != tx.TxID() {
		fs = append(fs, rep.F("TxID|not-reversed-sha256d", "txid mismatch on parsed string"))
	}
	_, e2 := bt.NewTxFromBytes(append([]byte(nil), s...))
	if (e2 == nil) != (used == len(s)) {
		fs = append(fs, rep.F("NewTxFromBytes|trailing-bytes", fmt.Sprintf("used=%d len=%d err=%v", used, len(s), e2)))
	}
	var t3 bt.Tx
	n, e3 := t3.ReadFrom(bytes.NewReader(s))
	if e3 != nil || int(n) != used {
		fs = append(fs, rep.F("ReadFrom|disagrees-with-stream", fmt.Sprintf("n=%d err=%v used=%d", n, e3, used)))
	}
	return
}

// c01Concat: streams and counted lists of several serialisations.
type c01ConcatCase struct {
	Parts      []HB `json:"parts"`
	Trail      HB   `json:"trail"`
	CountWidth int  `json:"count_width"`
}

func c01Concat(c c01ConcatCase) (fs []rep.Finding) {
	var all []byte
	var refs []*txref.Parsed
	for _, p := range c.Parts {
		rp, err := txref.Parse(p)
		if err != nil || rp.Used != len(p) {
			panic("harness: concat part is not a transaction")
		}
		refs = append(refs, rp)
		all = append(all, p...)
	}
	all = append(all, c.Trail...)
	// repeated NewTxFromStream
	off := 0
	for i, rp := range refs {
		tx, used, err := bt.NewTxFromStream(all[off:])
		if err != nil || used != rp.Used {
			fs = append(fs, rep.F("stream|tx-boundary", fmt.Sprintf("tx %d: err=%v used=%d want %d", i, err, used, rp.Used)))
			return
		}
		if d := cmpTx(tx, rp.Tx, rp.Extended); d != "" {
			fs = append(fs, rep.F("stream|field-mismatch", d))
		}
		off += used
	}
	// sequential ReadFrom on one reader
	rd := bytes.NewReader(all)
	for i, rp := range refs {
		var tx bt.Tx
		n, err := tx.ReadFrom(rd)
		if err != nil || int(n) != rp.Used {
			fs = append(fs, rep.F("reader|tx-boundary", fmt.Sprintf("tx %d: err=%v n=%d want %d", i, err, n, rp.Used)))
			return
		}
		if d := cmpTx(&tx, rp.Tx, rp.Extended); d != "" {
			fs = append(fs, rep.F("reader|field-mismatch", d))
		}
	}
	if rd.Len() != len(c.Trail) {
		fs = append(fs, rep.F("reader|over-read", fmt.Sprintf("%d bytes left, want %d", rd.Len(), len(c.Trail))))
	}
	// the same through readers that expose nothing but Read (whole and one byte at a time)
	for _, mode := range []string{"plain", "1byte"} {
		under := bytes.NewReader(all)
		var src io.Reader = plainReader{under}
		if mode == "1byte" {
			src = oneByteReader{under}
		}
		for i, rp := range refs {
			var tx bt.Tx
			n, err := tx.ReadFrom(src)
			if err != nil || int(n) != rp.Used {
				fs = append(fs, rep.F("reader-"+mode+"|tx-boundary", fmt.Sprintf("tx %d: err=%v n=%d want %d", i, err, n, rp.Used)))
				break
			}
			if d := cmpTx(&tx, rp.Tx, rp.Extended); d != "" {
				fs = append(fs, rep.F("reader-"+mode+"|field-mismatch", d))
			}
			rest := len(all)
			for _, q := range refs[:i+1] {
				rest -= q.Used
			}
			if under.Len() != rest {
				fs = append(fs, rep.F("reader-"+mode+"|over-read", fmt.Sprintf("after tx %d the source has %d bytes left, want %d", i, under.Len(), rest)))
				break
			}
		}
		if cnt, ok := txref.VarIntWide(uint64(len(refs)), c.CountWidth); ok {
			under := bytes.NewReader(append(append([]byte(nil), cnt...), all...))
			var src io.Reader = plainReader{under}
			if mode == "1byte" {
				src = oneByteReader{under}
			}
			var txs bt.Txs
			_, err := txs.ReadFrom(src)
			if err != nil || len(txs) != len(refs) || under.Len() != len(c.Trail) {
				fs = append(fs, rep.F("Txs.ReadFrom-"+mode+"|boundary", fmt.Sprintf("err=%v count=%d left=%d want %d", err, len(txs), under.Len(), len(c.Trail))))
			}
		}
	}
	// counted list
	cnt, ok := txref.VarIntWide(uint64(len(refs)), c.CountWidth)
	if ok {
		list := append(append([]byte(nil), cnt...), all...)
		var txs bt.Txs
		rd := bytes.NewReader(list)
		n, err := txs.ReadFrom(rd)
		if err != nil || int(n) != len(list)-len(c.Trail) || len(txs) != len(refs) {
			fs = append(fs, rep.F("Txs.ReadFrom|boundary", fmt.Sprintf("err=%v n=%d want %d count=%d", err, n, len(list)-len(c.Trail), len(txs))))
			return
		}
		for i, rp := range refs {
			if d := cmpTx(txs[i], rp.Tx, rp.Extended); d != "" {
				fs = append(fs, rep.F("Txs.ReadFrom|field-mismatch", d))
			}
		}
		// the same list variable parses another list (the first transaction alone, then none):
		// what it holds afterwards is what the bytes just read contain
		one := append([]byte{0x01}, all[:refs[0].Used]...)
		if n, err := txs.ReadFrom(bytes.NewReader(one)); err != nil || int(n) != len(one) || len(txs) != 1 {
			fs = append(fs, rep.F("Txs.ReadFrom|into-used-list", fmt.Sprintf("a one-transaction list parsed into a list variable used before: err=%v n=%d count=%d", err, n, len(txs))))
		} else if d := cmpTx(txs[0], refs[0].Tx, refs[0].Extended); d != "" {
			fs = append(fs, rep.F("Txs.ReadFrom|into-used-list", d))
		}
		if n, err := txs.ReadFrom(bytes.NewReader([]byte{0x00})); err != nil || n != 1 || len(txs) != 0 {
			fs = append(fs, rep.F("Txs.ReadFrom|into-used-list", fmt.Sprintf("an empty list parsed into a list variable used before: err=%v n=%d count=%d", err, n, len(txs))))
		}
	}
	return
}

// c01VarInt: the three views of a length prefix - Bytes, Length, ReadFrom (and the slice decoder and
// the "will the next value be longer" query the size arithmetic uses) - agree with each other and
// with the reference classes for one value.
type c01VarIntCase struct {
	V uint64 `json:"v"`
}

func c01VarInt(c c01VarIntCase) (fs []rep.Finding) {
	v := bt.VarInt(c.V)
	want := txref.VarInt(c.V)
	b := v.Bytes()
	if !bytes.Equal(b, want) {
		fs = append(fs, rep.F("VarInt|Bytes", fmt.Sprintf("%d encodes as %x, want %x", c.V, b, want)))
	}
	// the returned bytes are the caller's: extended (as in append(v.Bytes(), payload...)) and
	// overwritten, they must not change what this or a neighbouring value encodes to afterwards
	b = append(b, 0xde, 0xad, 0xbe, 0xef, 0xde, 0xad, 0xbe, 0xef)
	for i := range b {
		b[i] = 0xde
	}
	for d := uint64(0); d <= 8; d++ {
		if c.V+d < c.V {
			break
		}
		if got := bt.VarInt(c.V + d).Bytes(); !bytes.Equal(got, txref.VarInt(c.V+d)) {
			fs = append(fs, rep.F("VarInt|Bytes-shares-memory", fmt.Sprintf("after the bytes returned for %d were extended and overwritten by their owner, %d encodes as %x", c.V, c.V+d, got)))
			break
		}
	}
	if v.Length() != len(want) {
		fs = append(fs, rep.F("VarInt|Length", fmt.Sprintf("Length(%d)=%d, encoding has %d bytes", c.V, v.Length(), len(want))))
	}
	var back bt.VarInt
	n, err := back.ReadFrom(bytes.NewReader(append(append([]byte(nil), want...), 0xaa, 0xbb)))
	if err != nil || uint64(back) != c.V || int(n) != len(want) {
		fs = append(fs, rep.F("VarInt|ReadFrom", fmt.Sprintf("%x read back as %d using %d bytes (err=%v)", want, uint64(back), n, err)))
	}
	if got, used := bt.NewVarIntFromBytes(append(append([]byte(nil), want...), 0xaa)); uint64(got) != c.V || used != len(want) {
		fs = append(fs, rep.F("VarInt|NewVarIntFromBytes", fmt.Sprintf("%x decoded as %d using %d bytes", want, uint64(got), used)))
	}
	inc := 0
	if c.V == ^uint64(0) {
		inc = -1
	} else {
		inc = len(txref.VarInt(c.V+1)) - len(want)
	}
	if got := v.UpperLimitInc(); got != inc {
		fs = append(fs, rep.F("VarInt|UpperLimitInc", fmt.Sprintf("UpperLimitInc(%d)=%d, the next value is %d bytes longer", c.V, got, inc)))
	}
	return
}

func init() {
	p := register(&Prop{ID: "C01", Level: "exploration",
		Rule: "exhaustive over: (0) the length prefix alone: every value 0..70000 and 2^k-2..2^k+2 for k=17..64 through VarInt.Bytes/Length/ReadFrom/NewVarIntFromBytes/UpperLimitInc against the reference classes (the bytes VarInt.Bytes returned are extended and overwritten, then the value and its 8 successors are encoded again); (1) product of shapes nIn,nOut in 0..3 x per-input {vout,seq in 3 values, script len 0/1/2/nil, prev value 2, prev script nil/empty/1} x per-output {4 values, len 0/1/2} x version,locktime in 7 boundary values each, plus one-dimension-at-a-time boundary cross (counts and script lengths 252,253,65535,65536); each through Bytes/ExtendedBytes/TxID/NewTxFromBytes/NewTxFromStream/ReadFrom/Clone against the reference codec; (2) every such serialisation with each length prefix (alone and in pairs) re-encoded in each wider class; (2b) every truncation of those serialisations; (3) all strings <version>[marker]x with x of length<=8/9 (quick/thorough) over {00,01,02,EF,FD,FE,FF}; (4) all ordered pairs/triples of 12 serialisations x 0..2 trailing bytes through stream, reader and counted-list decoding with the count in every varint class, the list variable then parsing a shorter and an empty list. distinct_nontrivial = distinct serialisations/strings on which the library accepted",
	})
	spStruct := NewSpace(p, "struct", c01Struct)
	spBytes := NewSpace(p, "bytes", c01Bytes)
	spConcat := NewSpace(p, "concat", c01Concat)
	spVar := NewSpace(p, "varint", c01VarInt)
	p.Run = func(r *rep.Run, thorough bool) {
		// ---- space 0: the length prefix on its own, every value up to 70,000 and around every power of two
		spVar.Each(r, func(yield func(c01VarIntCase)) {
			for v := uint64(0); v <= 70000; v++ {
				yield(c01VarIntCase{v})
			}
			for k := 17; k <= 64; k++ {
				var p2 uint64
				if k < 64 {
					p2 = 1 << uint(k)
				}
				for _, d := range []uint64{^uint64(1), ^uint64(0), 0, 1, 2} { // -2, -1, 0, +1, +2
					yield(c01VarIntCase{p2 + d})
				}
			}
		})
		var recipes []txRecipe
		u3 := []uint32{0, 1, 0xffffffff}
		maxN := 3
		for nin := 0; nin <= maxN; nin++ {
			for nout := 0; nout <= maxN; nout++ {
				enum.Product([]int{3, 3, 4, 2, 3, 4, 3, 7, 7}, func(ix []int) {
					if nin == 0 && (ix[0]|ix[1]|ix[2]|ix[3]|ix[4]) != 0 {
						return
					}
					if nout == 0 && (ix[5]|ix[6]) != 0 {
						return
					}
					rc := txRecipe{NIn: nin, NOut: nout, Vout: u3[ix[0]], Seq: u3[ix[1]], SLen: ix[2] - 1,
						PrevSats: []uint64{0, ^uint64(0) - 7}[ix[3]], PrevLen: ix[4] - 1, Sats: satDom[ix[5]] + 5, OLen: ix[6],
						V: u32Dom[ix[7]], LT: u32Dom[ix[8]]}
					recipes = append(recipes, rc)
				})
			}
		}
		// boundary cross
		base := txRecipe{V: 1, LT: 0, NIn: 1, NOut: 1, Vout: 1, Seq: 0xffffffff, SLen: 2, PrevSats: 1000, PrevLen: 25, Sats: 999, OLen: 25}
		bigs := []int{252, 253, 65535, 65536}
		for _, n := range bigs {
			if n <= 253 || thorough {
				b := base
				b.NIn = n
				recipes = append(recipes, b)
			}
			b := base
			b.NOut = n
			recipes = append(recipes, b)
			for _, pos := range []string{"in0.script", "inL.script", "in0.prev", "out0.script", "outL.script"} {
				for _, shape := range [][2]int{{1, 1}, {2, 2}} {
					b := base
					b.NIn, b.NOut = shape[0], shape[1]
					b.Big, b.BigLen = pos, n
					recipes = append(recipes, b)
				}
			}
		}
		for _, rc := range recipes[:3] {
			r.Sample("struct", rc)
		}
		counting := func(rc txRecipe) []rep.Finding {
			fs := c01Struct(rc)
			if len(fs) == 0 {
				t := rc.build()
				if !t.Ambiguous() {
					r.Distinct(t.Bytes(true))
				}
			}
			return fs
		}
		(&Space[txRecipe]{P: p, Name: spStruct.Name, Check: counting}).Slice(r, recipes)
		r.Note("structures", len(recipes))

		// ---- space 2a: non-minimal re-encodings
		var seeds []*txref.Tx
		for i, rc := range recipes {
			if i%997 == 0 || rc.Big != "" && rc.BigLen <= 253 {
				t := rc.build()
				if !t.Ambiguous() && len(t.Ins)+len(t.Outs) <= 6 {
					seeds = append(seeds, t)
				}
			}
		}
		countB := func(c c01BytesCase) []rep.Finding {
			fs := c01Bytes(c)
			if len(fs) == 0 {
				if _, _, err := bt.NewTxFromStream(c.Data); err == nil {
					r.Distinct([]byte(c.Data))
				}
			}
			return fs
		}
		sb := &Space[c01BytesCase]{P: p, Name: spBytes.Name, Check: countB}
		sb.Each(r, func(yield func(c01BytesCase)) {
			for _, t := range seeds {
				for _, ext := range []bool{false, true} {
					_, k := t.BytesW(ext, nil)
					for a := 0; a < k; a++ {
						for _, wa := range []int{3, 5, 9} {
							b, _ := t.BytesW(ext, func(i int) int {
								if i == a {
									return wa
								}
								return 0
							})
							yield(c01BytesCase{Data: b})
							for c := a + 1; c < k; c++ {
								for _, wc := range []int{3, 5, 9} {
									b, _ := t.BytesW(ext, func(i int) int {
										if i == a {
											return wa
										}
										if i == c {
											return wc
										}
										return 0
									})
									yield(c01BytesCase{Data: b})
								}
							}
						}
					}
				}
			}
		})
		r.Note("nonminimal_seeds", len(seeds))
		// ---- space 2a': every length/count field carrying an adversarial claim (accepted => must be a transaction)
		sb.Each(r, func(yield func(c01BytesCase)) {
			for _, t := range seeds {
				for _, ext := range []bool{false, true} {
					b, offs, widths := varintOffsets(t, ext)
					for k := range offs {
						for _, cl := range c09Claims {
							m := append([]byte(nil), b[:offs[k]]...)
							m = append(m, txref.VarInt(cl)...)
							yield(c01BytesCase{Data: append(append([]byte(nil), m...), b[offs[k]+widths[k]:]...)})
							yield(c01BytesCase{Data: append(append([]byte(nil), m...), 0, 0, 0, 0, 0, 0, 0, 0, 0, 0, 0, 0, 0)})
						}
					}
				}
			}
		})
		// ---- space 2a'': every truncation of every seed serialisation, and each followed by 1..4
		// zero bytes (what the parser accepts of these must be a whole transaction)
		sb.Each(r, func(yield func(c01BytesCase)) {
			for _, t := range seeds {
				for _, ext := range []bool{false, true} {
					b := t.Bytes(ext)
					for n := 0; n < len(b); n++ {
						yield(c01BytesCase{Data: append([]byte(nil), b[:n]...)})
					}
					for z := 1; z <= 4; z++ {
						yield(c01BytesCase{Data: append(append([]byte(nil), b...), make([]byte, z)...)})
					}
				}
			}
		})
		// ---- space 2b: restricted-alphabet strings
		alpha := []byte{0x00, 0x01, 0x02, 0xEF, 0xFD, 0xFE, 0xFF}
		maxL := 8
		if thorough {
			maxL = 9
		}
		for _, prefix := range [][]byte{{1, 0, 0, 0}, {1, 0, 0, 0, 0, 0, 0, 0, 0, 0xEF}} {
			for l := 0; l <= maxL; l++ {
				n := uint64(1)
				for i := 0; i < l; i++ {
					n *= uint64(len(alpha))
				}
				ll, pre := l, prefix
				sb.Indexed(r, n, func(i uint64) c01BytesCase {
					b := make([]byte, len(pre)+ll)
					copy(b, pre)
					for k := ll - 1; k >= 0; k-- {
						b[len(pre)+k] = alpha[i%uint64(len(alpha))]
						i /= uint64(len(alpha))
					}
					return c01BytesCase{Data: b}
				})
			}
		}
		r.Sample("bytes", "0100000000000000000000EF 00 00 00000000 (empty extended tx)")
		// ---- space 2c: concatenations
		var parts []HB
		for i, t := range seeds {
			if len(parts) >= 12 {
				break
			}
			parts = append(parts, t.Bytes(i%2 == 1))
		}
		// two handcrafted: empty tx and empty extended tx
		parts = append(parts, (&txref.Tx{Version: 2, LockTime: 7}).Bytes(false), (&txref.Tx{Version: 2, LockTime: 7}).Bytes(true))
		trails := []HB{{}, {0x00}, {0x01, 0x00}, {0xEF}}
		(&Space[c01ConcatCase]{P: p, Name: spConcat.Name, Check: func(c c01ConcatCase) []rep.Finding {
			fs := c01Concat(c)
			if len(fs) == 0 {
				r.Distinct("concat", fmt.Sprint(c.CountWidth), bytes.Join(hbs(c.Parts), nil), []byte(c.Trail))
			}
			return fs
		}}).Each(r, func(yield func(c01ConcatCase)) {
			for _, a := range parts {
				for _, b := range parts {
					for _, tr := range trails {
						for _, w := range []int{1, 3, 5, 9} {
							yield(c01ConcatCase{Parts: []HB{a, b}, Trail: tr, CountWidth: w})
						}
					}
					if thorough {
						for _, c := range parts {
							yield(c01ConcatCase{Parts: []HB{a, b, c}, Trail: HB{0x00}, CountWidth: 1})
						}
					}
				}
			}
		})
	}
}

// spillScripts appends to every script of tx without keeping the result: when a script has spare
// capacity the bytes land behind it, which is harmless unless something else lives there.
func spillScripts(tx *bt.Tx) {
	sp := func(s *bscript.Script) {
		if s != nil {
			_ = append([]byte(*s), 0xee, 0xee, 0xee, 0xee)
		}
	}
	for _, in := range tx.Inputs {
		sp(in.UnlockingScript)
		sp(in.PreviousTxScript)
	}
	for _, out := range tx.Outputs {
		sp(out.LockingScript)
	}
}

type plainReader struct{ r io.Reader }

func (p plainReader) Read(b []byte) (int, error) { return p.r.Read(b) }

func hbs(h []HB) [][]byte {
	o := make([][]byte, len(h))
	for i := range h {
		o[i] = h[i]
	}
	return o
}
