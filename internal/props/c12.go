package props

import (
	"bytes"
	"context"
	"errors"
	"fmt"
	"math/big"
	"sync"

	"github.com/libsv/go-bt/v2"

	"verif/internal/ref/txref"
	"verif/internal/rep"
)

// supplier answers (the nondeterministic environment of the funding loop)
const (
	aNoUTXO = iota
	aWrappedNoUTXO
	aOtherErr
	aEmpty
	aSmall
	aSmallSmall
	aExact
	aExactMinus1
	aHuge
	aBadTxID
	aSeqSet
	aNonP2PKH
	aHugeSmall
	aDupOfInput
	aDupInBatch
	aInscribed
	nAnswers
)

var answerNames = []string{"ErrNoUTXO", "wrapped ErrNoUTXO", "other error", "empty batch", "[small]", "[small,small]", "[exactly deficit]", "[deficit-1]", "[huge]", "[31-byte txid]", "[utxo with SequenceNumber=7]", "[non-P2PKH utxo]", "[huge,small]", "[utxo repeating the outpoint of the first input]", "[small, the same outpoint again]", "[UTXO locked by a P2PKH inscription script]"}

var errSupplier = errors.New("supplier failed")

type c12Case struct {
	Start   int   `json:"start"`
	Q       quote `json:"quote"`
	History []int `json:"history"`
}

func c12Start(k int) *txref.Tx {
	t := &txref.Tx{Version: 1}
	std := txref.Out{Sats: 1500, Script: refP2PKH(fill(20, 1))}
	switch k {
	case 0:
		t.Outs = []txref.Out{std}
	case 1: // a prior unsigned input that does not cover
		t.Ins = []txref.In{p2pkhIn(0, 700)}
		t.Outs = []txref.Out{std}
	case 2: // prior signed input
		in := p2pkhIn(0, 900)
		in.Script = fill(107, 3)
		t.Ins = []txref.In{in}
		t.Outs = []txref.Out{std, {Sats: 3, Script: refP2PKH(fill(20, 2))}}
	case 3: // data output
		t.Outs = []txref.Out{std, {Sats: 0, Script: append([]byte{0x00, 0x6a, 0x4c, 100}, fill(100, 5)...)}}
	case 4: // already funded
		t.Ins = []txref.In{p2pkhIn(0, 1_000_000)}
		t.Outs = []txref.Out{std}
	case 11: // a prior unsigned input, the transaction read back from its extended serialisation (empty, non-nil scripts)
		t.Ins = []txref.In{p2pkhIn(0, 700), p2pkhIn(1, 1)}
		t.Outs = []txref.Out{std}
	case 5: // nothing at all
	case 10: // a transaction with a lock time
		t.LockTime = 650000
		t.Outs = []txref.Out{std}
	case 9: // two data outputs and a standard one
		t.Outs = []txref.Out{{Sats: 0, Script: append([]byte{0x00, 0x6a, 0x4c, 100}, fill(100, 5)...)}, std, {Sats: 0, Script: append([]byte{0x6a, 0x4c, 150}, fill(150, 6)...)}}
	case 12: // a data output that is the bare OP_RETURN opcode (one byte, no payload) next to a standard one
		t.Outs = []txref.Out{std, {Sats: 0, Script: []byte{0x6a}}}
	case 13: // payload-less OP_FALSE OP_RETURN, and a one-byte script that is NOT data
		t.Outs = []txref.Out{{Sats: 0, Script: []byte{0x00, 0x6a}}, std, {Sats: 1, Script: []byte{0x00}}}
	case 6, 7, 8: // 250 / 251 / 252 prior inputs: the next ones cross the 252|253 input-count boundary
		for i := 0; i < 244+k; i++ {
			t.Ins = append(t.Ins, p2pkhIn(i, 5))
		}
		t.Outs = []txref.Out{std, {Sats: 0, Script: append([]byte{0x00, 0x6a, 0x4c, 100}, fill(100, 5)...)}}
	}
	return t
}

func refDeficit(t *txref.Tx, q quote) *big.Int {
	_, std, data := refSizes(refEstimated(t))
	need := new(big.Int).Add(sumOut(t), refFee(std, data, q))
	in := sumIn(t)
	if in.Cmp(need) > 0 {
		return big.NewInt(0)
	}
	return need.Sub(need, in)
}

type c12Result struct {
	fs          []rep.Finding
	calls       int
	states      []string
	finalStatus string
}

func c12Run(c c12Case) c12Result {
	var res c12Result
	add := func(f rep.Finding) { res.fs = append(res.fs, f) }
	ref := c12Start(c.Start)
	tx := toLib(ref)
	if c.Start == 11 {
		if back, err := bt.NewTxFromBytes(tx.ExtendedBytes()); err == nil {
			tx = back
		}
	}
	outsBefore := append([]byte(nil), tx.Bytes()...)
	fq := c.Q.lib()
	step := 0
	utxoN := 0
	var expectErr error // error the loop must return, when known
	anyErrExpected := false
	mk := func(sats uint64) (*bt.UTXO, txref.In) {
		utxoN++
		id := txid32(byte(0x80 + utxoN))
		sc := refP2PKH(fill(20, byte(utxoN)))
		u := &bt.UTXO{TxID: append([]byte(nil), id...), Vout: uint32(utxoN), Satoshis: sats, LockingScript: libScript(sc)}
		return u, txref.In{TxID: id, Vout: uint32(utxoN), Seq: 0xffffffff, PrevSats: sats, PrevScript: sc}
	}
	done := false
	supplier := func(ctx context.Context, deficit uint64) ([]*bt.UTXO, error) {
		res.calls++
		want := refDeficit(ref, c.Q)
		res.states = append(res.states, fmt.Sprintf("%d|%s|%d|%s", c.Start, fmt.Sprint(c.Q), len(ref.Ins), want))
		if done {
			add(rep.F("supplier-called-after-end", "supplier called although the loop should have ended"))
		}
		if want.Sign() == 0 {
			add(rep.F("supplier-called-without-deficit", "supplier called although no deficit remains"))
		}
		if new(big.Int).SetUint64(deficit).Cmp(want) != 0 {
			add(rep.F("supplier-given-wrong-deficit", fmt.Sprintf("call %d given %d, current deficit is %s", res.calls, deficit, want)))
		}
		a := aNoUTXO
		if step < len(c.History) {
			a = c.History[step]
		}
		step++
		d := want.Uint64()
		switch a {
		case aNoUTXO:
			done = true
			expectErr = bt.ErrInsufficientFunds
			return nil, bt.ErrNoUTXO
		case aWrappedNoUTXO:
			done = true
			expectErr = bt.ErrInsufficientFunds
			return nil, fmt.Errorf("store drained: %w", bt.ErrNoUTXO)
		case aOtherErr:
			done = true
			expectErr = errSupplier
			return nil, errSupplier
		case aEmpty:
			return []*bt.UTXO{}, nil
		case aSmall:
			u, in := mk(100)
			ref.Ins = append(ref.Ins, in)
			return []*bt.UTXO{u}, nil
		case aSmallSmall:
			u1, i1 := mk(100)
			u2, i2 := mk(101)
			ref.Ins = append(ref.Ins, i1, i2)
			return []*bt.UTXO{u1, u2}, nil
		case aExact:
			u, in := mk(d)
			ref.Ins = append(ref.Ins, in)
			return []*bt.UTXO{u}, nil
		case aExactMinus1:
			u, in := mk(d - 1)
			ref.Ins = append(ref.Ins, in)
			return []*bt.UTXO{u}, nil
		case aHuge:
			u, in := mk(1_000_000_000)
			ref.Ins = append(ref.Ins, in)
			return []*bt.UTXO{u}, nil
		case aHugeSmall:
			u1, i1 := mk(1_000_000_000)
			u2, i2 := mk(100)
			ref.Ins = append(ref.Ins, i1, i2)
			return []*bt.UTXO{u1, u2}, nil
		case aDupOfInput:
			// the supplier hands over a UTXO whose outpoint the transaction already spends (its first
			// input, prior or supplied earlier): it is consumed like any other - the statement says
			// "every UTXO the supplier returned"; whether to offer it is the supplier's business
			u, in := mk(100)
			if len(ref.Ins) > 0 {
				u.TxID, u.Vout = append([]byte(nil), ref.Ins[0].TxID...), ref.Ins[0].Vout
				in.TxID, in.Vout = append([]byte(nil), ref.Ins[0].TxID...), ref.Ins[0].Vout
			}
			ref.Ins = append(ref.Ins, in)
			return []*bt.UTXO{u}, nil
		case aDupInBatch:
			u1, i1 := mk(100)
			u2, i2 := mk(101)
			u2.TxID, u2.Vout = append([]byte(nil), u1.TxID...), u1.Vout
			i2.TxID, i2.Vout = append([]byte(nil), i1.TxID...), i1.Vout
			ref.Ins = append(ref.Ins, i1, i2)
			return []*bt.UTXO{u1, u2}, nil
		case aInscribed:
			// a 1-sat-ordinal style UTXO: P2PKH followed by an inscription envelope (supported by the estimator)
			u, in := mk(300)
			sc := c04InscLock(fill(20, byte(utxoN)), 0)
			u.LockingScript = libScript(sc)
			in.PrevScript = sc
			ref.Ins = append(ref.Ins, in)
			return []*bt.UTXO{u}, nil
		case aBadTxID:
			u, _ := mk(5000)
			u.TxID = u.TxID[:31]
			done = true
			anyErrExpected = true
			return []*bt.UTXO{u}, nil
		case aSeqSet:
			u, in := mk(300)
			u.SequenceNumber = 7
			ref.Ins = append(ref.Ins, in)
			return []*bt.UTXO{u}, nil
		case aNonP2PKH:
			u, _ := mk(1_000_000_000)
			u.LockingScript = libScript(c14Templates()["p2pk33"])
			done = true
			anyErrExpected = true
			return []*bt.UTXO{u}, nil
		}
		return nil, bt.ErrNoUTXO
	}
	err := tx.Fund(context.Background(), fq, supplier)
	res.finalStatus = fmt.Sprint(err)
	// outputs untouched in every case
	after, perr := txref.Parse(tx.ExtendedBytes())
	if perr != nil {
		add(rep.F("harness|unparsable", perr.Error()))
		return res
	}
	start := c12Start(c.Start)
	if len(after.Tx.Outs) != len(start.Outs) {
		add(rep.F("outputs-touched", "number of outputs changed"))
	} else {
		for i := range start.Outs {
			if after.Tx.Outs[i].Sats != start.Outs[i].Sats || !bytes.Equal(after.Tx.Outs[i].Script, start.Outs[i].Script) {
				add(rep.F("outputs-touched", fmt.Sprintf("output %d changed", i)))
			}
		}
	}
	_ = outsBefore
	if after.Tx.Version != start.Version || after.Tx.LockTime != start.LockTime {
		add(rep.F("header-touched", "version or locktime changed"))
	}
	if anyErrExpected {
		if err == nil {
			add(rep.F("bad-utxo-accepted", "funding succeeded with a UTXO that cannot be used (short txid / unsupported script)"))
		}
		return res
	}
	finalDeficit := refDeficit(ref, c.Q)
	switch {
	case expectErr != nil:
		if err == nil || !errors.Is(err, expectErr) {
			add(rep.F("wrong-error|want="+expectErr.Error(), fmt.Sprintf("got %v", err)))
		}
		if expectErr == bt.ErrInsufficientFunds && finalDeficit.Sign() == 0 {
			add(rep.F("harness|exhausted-without-deficit", "reference says covered"))
		}
	default:
		// the history ended because the loop stopped asking: it must be covered
		if err != nil {
			add(rep.F("error-although-covered", err.Error()))
		} else if finalDeficit.Sign() != 0 {
			add(rep.F("stops-before-covered", fmt.Sprintf("funding reported success with a remaining deficit of %s", finalDeficit)))
		}
	}
	if err == nil || expectErr == bt.ErrInsufficientFunds {
		// inputs = previous ++ every returned UTXO, in order, field for field
		if d := cmpTx(tx, ref, true); d != "" {
			add(rep.F("inputs-not-faithful", d))
		}
		for i := len(start.Ins); i < len(tx.Inputs); i++ {
			if tx.Inputs[i].SequenceNumber != 0xffffffff {
				add(rep.F("input-not-final", fmt.Sprintf("input %d has sequence %#x", i, tx.Inputs[i].SequenceNumber)))
			}
		}
	}
	if err == nil {
		// funded: asking again changes nothing and the supplier is left alone ("called only while a deficit remains")
		snap := append([]byte(nil), tx.ExtendedBytes()...)
		called := 0
		err2 := tx.Fund(context.Background(), fq, func(ctx context.Context, deficit uint64) ([]*bt.UTXO, error) {
			called++
			return nil, bt.ErrNoUTXO
		})
		if called != 0 || err2 != nil || !bytes.Equal(snap, tx.ExtendedBytes()) {
			add(rep.F("funded-but-asks-again", fmt.Sprintf("Fund on the transaction it had just funded: supplier called %d times, err=%v, transaction changed=%v", called, err2, !bytes.Equal(snap, tx.ExtendedBytes()))))
		}
		_, std, data := refSizes(refEstimated(after.Tx))
		need := new(big.Int).Add(sumOut(after.Tx), refFee(std, data, c.Q))
		if sumIn(after.Tx).Cmp(need) < 0 {
			add(rep.F("success-but-not-covered", fmt.Sprintf("inputs %s < outputs+fee %s", sumIn(after.Tx), need)))
		}
	}
	return res
}

func c12Check(c c12Case) []rep.Finding { return c12Run(c).fs }

func init() {
	p := register(&Prop{ID: "C12", Level: "model_checking",
		Rule: "explicit-state exploration of the funding loop through the real Tx.Fund with the supplier as the nondeterministic environment: every supplier history of length <=4 (quick) / <=5 (thorough; one less from the three start states with 250/251/252 prior inputs, where new inputs cross the 252|253 count boundary) over 16 answers {ErrNoUTXO, wrapped ErrNoUTXO, other error, empty batch, [small], [small,small], [exactly the deficit], [deficit-1], [huge], [huge,small], [31-byte txid], [UTXO with a sequence field], [non-P2PKH UTXO], [UTXO repeating the outpoint of the transaction's first input], [small, the same outpoint again], [UTXO locked by a P2PKH inscription]} (exhaustion after the history ends) x 14 starting transactions (payload-less data outputs `6a` / `00 6a` next to a one-byte script that is not data, unsigned prior inputs read back from the extended serialisation, no inputs, with a lock time, prior unsigned/signed input, data output, already funded, empty, 250/251/252 prior inputs, two data outputs) x 6 fee quotes (incl. data dearer than standard, data cheaper and a rate that is not an exact binary fraction); a reference loop with a big-integer fee model runs in lockstep inside the supplier: a state is (start, quote, inputs so far, current deficit), a transition is one supplier call. Oracle: supplier called only with a deficit and with exactly the current one, success iff covered, inputs = previous ++ batches field for field with final sequence, exhaustion -> ErrInsufficientFunds, supplier error propagated, outputs untouched; a funded transaction handed to Fund again is left alone without a supplier call",
	})
	sp := NewSpace(p, "histories", c12Check)
	p.Run = func(r *rep.Run, thorough bool) {
		maxLen := 4
		if thorough {
			maxLen = 5
		}
		quotes := []quote{{5, 100, 5, 100}, {1, 1, 1, 1}, {500, 1000, 250, 1000}, {0, 1, 0, 1}, {350, 1000, 35, 100}, {1, 2, 3, 1}}
		var mu sync.Mutex
		states := map[string]struct{}{}
		transitions, traces := 0, 0
		outcomes := map[string]int{}
		(&Space[c12Case]{P: p, Name: sp.Name, Check: func(c c12Case) []rep.Finding {
			res := c12Run(c)
			mu.Lock()
			for _, s := range res.states {
				states[s] = struct{}{}
			}
			transitions += res.calls
			traces++
			outcomes[res.finalStatus]++
			mu.Unlock()
			if len(res.fs) == 0 {
				r.Distinct(fmt.Sprint(c))
			}
			return res.fs
		}}).Each(r, func(yield func(c12Case)) {
			for st := 0; st < 14; st++ {
				for _, q := range quotes {
					var rec func(h []int)
					rec = func(h []int) {
						yield(c12Case{Start: st, Q: q, History: append([]int(nil), h...)})
						if len(h) == maxLen || (st >= 6 && st <= 8 && len(h) == maxLen-1) {
							return
						}
						// answers that end the loop have no continuation
						if len(h) > 0 {
							switch h[len(h)-1] {
							case aNoUTXO, aWrappedNoUTXO, aOtherErr, aBadTxID, aNonP2PKH:
								return
							}
						}
						for a := 0; a < nAnswers; a++ {
							rec(append(h, a))
						}
					}
					rec(nil)
				}
			}
		})
		r.Note("states", len(states))
		r.Note("transitions", transitions)
		r.Note("traces_validated_against_impl", traces)
		r.Note("distinct_outcomes", len(outcomes))
		r.Note("answers", answerNames)
		r.Sample("histories", c12Case{Start: 1, Q: quotes[0], History: []int{aEmpty, aSmall, aExact, aHuge}})
		r.Sample("histories", map[string]any{"start": "prior signed input", "history": []string{"[small,small]", "empty batch", "ErrNoUTXO"}, "expected": "ErrInsufficientFunds, inputs = prior + 2 UTXOs, outputs untouched"})
	}
}
