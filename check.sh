#!/bin/bash
# check.sh <ID> <quick|thorough>: rebuild the checker against the library's current
# working tree (go.mod replace => /repo, so every edit is picked up) and run it.
# VERIF_REPO=<dir> (side runs only, e.g. seed evaluation) builds against a scratch copy
# of the library instead; set VERIF_OUT as well so that evidence/ is not overwritten.
set -u
cd "$(dirname "$0")"
export GOFLAGS=-mod=mod GOPROXY=off GOSUMDB=off GOTOOLCHAIN=local
export VERIF_ROOT="$PWD"
ID="$1"; TIER="${2:-quick}"
REPO="${VERIF_REPO:-/repo}"
mkdir -p bin evidence .work
BIN=bin/vcheck; MODFLAG=""
if [ "$REPO" != "/repo" ]; then
  TAG=$(echo "$REPO" | md5sum | cut -c1-8)
  sed "s#=> /repo#=> $REPO#" go.mod > .work/alt_$TAG.mod; cp go.sum .work/alt_$TAG.sum
  MODFLAG="-modfile=$PWD/.work/alt_$TAG.mod"; BIN=bin/vcheck_$TAG
fi
case "$ID" in
  C18) exec ./c18.sh "$TIER" ;;
esac
if ! go build $MODFLAG -o $BIN ./cmd/vcheck 2> $BIN.err; then
  echo "BUILD-FAILED (the tree does not compile with the checker; no verdict)"; cat $BIN.err; exit 2
fi
case "$ID" in
  C01|C02|C03|C04|C08|C10|C11|C12|C16|C13|C14|C15|C17)
    # main stage, then the stages that need the instrumented build: the write monitor (frame
    # conditions checked on the writes themselves) and the concurrent stage (the property's
    # operations called by several callers at once on objects of their own); they merge their
    # coverage into the evidence file the main stage wrote
    ./$BIN "$ID" "$TIER"; rc1=$?
    ./c18.sh stages "$ID" "$TIER"; rc2=$?
    if [ $rc1 -eq 1 ] || [ $rc2 -eq 1 ]; then exit 1; fi
    if [ $rc1 -ne 0 ]; then exit $rc1; fi
    exit $rc2 ;;
esac
exec ./$BIN "$ID" "$TIER"
