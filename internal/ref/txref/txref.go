// Package txref is the boring reference model of the transaction wire format
// (standard and BIP-239 extended), written from the format description and
// sharing no code with the library.
package txref

import (
	"crypto/sha256"
	"encoding/binary"
	"errors"
)

type In struct {
	TxID       []byte // display order (as PreviousTxID() returns it), 32 bytes
	Vout       uint32
	Script     []byte
	Seq        uint32
	PrevSats   uint64
	PrevScript []byte // nil = not recorded
}

type Out struct {
	Sats   uint64
	Script []byte
}

type Tx struct {
	Version  uint32
	Ins      []In
	Outs     []Out
	LockTime uint32
}

// VarInt is the minimal compact-size encoding of n.
func VarInt(n uint64) []byte {
	switch {
	case n <= 252:
		return []byte{byte(n)}
	case n <= 0xffff:
		return []byte{0xfd, byte(n), byte(n >> 8)}
	case n <= 0xffffffff:
		b := []byte{0xfe, 0, 0, 0, 0}
		binary.LittleEndian.PutUint32(b[1:], uint32(n))
		return b
	default:
		b := make([]byte, 9)
		b[0] = 0xff
		binary.LittleEndian.PutUint64(b[1:], n)
		return b
	}
}

// VarIntWide encodes n in the class of the given total width (1,3,5,9); ok=false if it does not fit.
func VarIntWide(n uint64, width int) ([]byte, bool) {
	switch width {
	case 1:
		if n > 252 {
			return nil, false
		}
		return []byte{byte(n)}, true
	case 3:
		if n > 0xffff {
			return nil, false
		}
		return []byte{0xfd, byte(n), byte(n >> 8)}, true
	case 5:
		if n > 0xffffffff {
			return nil, false
		}
		b := []byte{0xfe, 0, 0, 0, 0}
		binary.LittleEndian.PutUint32(b[1:], uint32(n))
		return b, true
	default:
		b := make([]byte, 9)
		b[0] = 0xff
		binary.LittleEndian.PutUint64(b[1:], n)
		return b, true
	}
}

func u32(v uint32) []byte { b := make([]byte, 4); binary.LittleEndian.PutUint32(b, v); return b }
func u64(v uint64) []byte { b := make([]byte, 8); binary.LittleEndian.PutUint64(b, v); return b }

func rev(b []byte) []byte {
	o := make([]byte, len(b))
	for i := range b {
		o[len(b)-1-i] = b[i]
	}
	return o
}

// Marker is the BIP-239 extended-format marker that follows the version.
var Marker = []byte{0, 0, 0, 0, 0, 0xEF}

// Bytes serialises in standard or extended form.
func (t *Tx) Bytes(extended bool) []byte {
	var b []byte
	b = append(b, u32(t.Version)...)
	if extended {
		b = append(b, Marker...)
	}
	b = append(b, VarInt(uint64(len(t.Ins)))...)
	for _, in := range t.Ins {
		b = append(b, rev(in.TxID)...)
		b = append(b, u32(in.Vout)...)
		b = append(b, VarInt(uint64(len(in.Script)))...)
		b = append(b, in.Script...)
		b = append(b, u32(in.Seq)...)
		if extended {
			b = append(b, u64(in.PrevSats)...)
			b = append(b, VarInt(uint64(len(in.PrevScript)))...)
			b = append(b, in.PrevScript...)
		}
	}
	b = append(b, VarInt(uint64(len(t.Outs)))...)
	for _, o := range t.Outs {
		b = append(b, u64(o.Sats)...)
		b = append(b, VarInt(uint64(len(o.Script)))...)
		b = append(b, o.Script...)
	}
	return append(b, u32(t.LockTime)...)
}

// TxID is the display-order id: reversed double SHA-256 of the standard form.
func (t *Tx) TxID() []byte {
	h := sha256.Sum256(t.Bytes(false))
	h = sha256.Sum256(h[:])
	return rev(h[:])
}

// Ambiguous reports the single shape the extended marker makes ambiguous.
func (t *Tx) Ambiguous() bool {
	return len(t.Ins) == 0 && len(t.Outs) == 0 && t.LockTime == 0xEF000000
}

var ErrShort = errors.New("short")

type rd struct {
	b       []byte
	i       int
	minimal bool
}

func (r *rd) take(n uint64) ([]byte, error) {
	if n > uint64(len(r.b)-r.i) {
		return nil, ErrShort
	}
	o := r.b[r.i : r.i+int(n)]
	r.i += int(n)
	return o, nil
}

func (r *rd) varint() (uint64, error) {
	t, err := r.take(1)
	if err != nil {
		return 0, err
	}
	var v uint64
	switch t[0] {
	case 0xfd:
		d, err := r.take(2)
		if err != nil {
			return 0, err
		}
		v = uint64(binary.LittleEndian.Uint16(d))
		if v <= 252 {
			r.minimal = false
		}
	case 0xfe:
		d, err := r.take(4)
		if err != nil {
			return 0, err
		}
		v = uint64(binary.LittleEndian.Uint32(d))
		if v <= 0xffff {
			r.minimal = false
		}
	case 0xff:
		d, err := r.take(8)
		if err != nil {
			return 0, err
		}
		v = binary.LittleEndian.Uint64(d)
		if v <= 0xffffffff {
			r.minimal = false
		}
	default:
		v = uint64(t[0])
	}
	return v, nil
}

// Parsed is the result of the reference stream parser.
type Parsed struct {
	Tx       *Tx
	Used     int
	Extended bool
	Minimal  bool // every length prefix minimally encoded
}

// Parse reads one transaction from the front of b.
func Parse(b []byte) (*Parsed, error) {
	r := &rd{b: b, minimal: true}
	v, err := r.take(4)
	if err != nil {
		return nil, err
	}
	t := &Tx{Version: binary.LittleEndian.Uint32(v)}
	p := &Parsed{Tx: t}
	if len(b)-r.i >= 6 && string(b[r.i:r.i+6]) == string(Marker) {
		p.Extended = true
		r.i += 6
	}
	nin, err := r.varint()
	if err != nil {
		return nil, err
	}
	for i := uint64(0); i < nin; i++ {
		var in In
		d, err := r.take(32)
		if err != nil {
			return nil, err
		}
		in.TxID = rev(d)
		d, err = r.take(4)
		if err != nil {
			return nil, err
		}
		in.Vout = binary.LittleEndian.Uint32(d)
		l, err := r.varint()
		if err != nil {
			return nil, err
		}
		d, err = r.take(l)
		if err != nil {
			return nil, err
		}
		in.Script = append([]byte{}, d...)
		d, err = r.take(4)
		if err != nil {
			return nil, err
		}
		in.Seq = binary.LittleEndian.Uint32(d)
		if p.Extended {
			d, err = r.take(8)
			if err != nil {
				return nil, err
			}
			in.PrevSats = binary.LittleEndian.Uint64(d)
			l, err := r.varint()
			if err != nil {
				return nil, err
			}
			d, err = r.take(l)
			if err != nil {
				return nil, err
			}
			in.PrevScript = append([]byte{}, d...)
		}
		t.Ins = append(t.Ins, in)
	}
	nout, err := r.varint()
	if err != nil {
		return nil, err
	}
	for i := uint64(0); i < nout; i++ {
		var o Out
		d, err := r.take(8)
		if err != nil {
			return nil, err
		}
		o.Sats = binary.LittleEndian.Uint64(d)
		l, err := r.varint()
		if err != nil {
			return nil, err
		}
		d, err = r.take(l)
		if err != nil {
			return nil, err
		}
		o.Script = append([]byte{}, d...)
		t.Outs = append(t.Outs, o)
	}
	d, err := r.take(4)
	if err != nil {
		return nil, err
	}
	t.LockTime = binary.LittleEndian.Uint32(d)
	p.Used = r.i
	p.Minimal = r.minimal
	return p, nil
}

// ParseStd parses b strictly as the standard format (no marker detection); used to
// recognise the ambiguous shape.
func ParseStd(b []byte) (*Parsed, error) {
	if len(b) >= 10 && string(b[4:10]) == string(Marker) {
		// parse ignoring the marker meaning: 0 inputs, 0 outputs, locktime 000000EF
		r := &rd{b: b, minimal: true}
		v, _ := r.take(4)
		t := &Tx{Version: binary.LittleEndian.Uint32(v), LockTime: 0xEF000000}
		return &Parsed{Tx: t, Used: 10, Minimal: true}, nil
	}
	return Parse(b)
}

// BytesW serialises like Bytes but encodes the k-th length prefix (in order of
// appearance) with total width w(k) when w(k) != 0 and the value fits.
// It also returns the number of length prefixes.
func (t *Tx) BytesW(extended bool, w func(k int) int) ([]byte, int) {
	k := 0
	vi := func(n uint64) []byte {
		defer func() { k++ }()
		if w != nil {
			if width := w(k); width != 0 {
				if b, ok := VarIntWide(n, width); ok {
					return b
				}
			}
		}
		return VarInt(n)
	}
	var b []byte
	b = append(b, u32(t.Version)...)
	if extended {
		b = append(b, Marker...)
	}
	b = append(b, vi(uint64(len(t.Ins)))...)
	for _, in := range t.Ins {
		b = append(b, rev(in.TxID)...)
		b = append(b, u32(in.Vout)...)
		b = append(b, vi(uint64(len(in.Script)))...)
		b = append(b, in.Script...)
		b = append(b, u32(in.Seq)...)
		if extended {
			b = append(b, u64(in.PrevSats)...)
			b = append(b, vi(uint64(len(in.PrevScript)))...)
			b = append(b, in.PrevScript...)
		}
	}
	b = append(b, vi(uint64(len(t.Outs)))...)
	for _, o := range t.Outs {
		b = append(b, u64(o.Sats)...)
		b = append(b, vi(uint64(len(o.Script)))...)
		b = append(b, o.Script...)
	}
	return append(b, u32(t.LockTime)...), k
}
