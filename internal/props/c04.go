package props

import (
	"bytes"
	"context"
	"fmt"

	"github.com/libsv/go-bk/bec"
	"github.com/libsv/go-bt/v2"
	"github.com/libsv/go-bt/v2/bscript"
	"github.com/libsv/go-bt/v2/bscript/interpreter"
	"github.com/libsv/go-bt/v2/bscript/interpreter/scriptflag"
	"github.com/libsv/go-bt/v2/sighash"
	"github.com/libsv/go-bt/v2/unlocker"

	"verif/internal/ref/sighashref"
	"verif/internal/ref/txref"
	"verif/internal/rep"
)

type c04Case struct {
	Key  int  `json:"key"`
	NIn  int  `json:"nin"`
	NOut int  `json:"nout"`
	Pos  int  `json:"pos"`
	Insc bool `json:"inscription"`
	// Trailer: bytes after an OP_RETURN appended to the inscription script (0 = no OP_RETURN)
	Trailer int `json:"op_return_trailer_len,omitempty"`
	// Resign: sign, apply the mutation to the SAME transaction object in place, sign again and
	// verify: the second signature must be valid for the edited transaction
	Resign bool  `json:"resign_after_edit,omitempty"`
	HT     uint8 `json:"hash_type"`
	Mut    int   `json:"mutation"`
	Param  int   `json:"param"`
	Stale  bool  `json:"tx_carries_signer_side_prevout"`
	// Hi: numeric mutations change the most significant byte of the field instead of the least
	Hi bool `json:"mutate_top_byte,omitempty"`
	// Form: how the inscription envelope is written. 0 = minimal pushes (the template as Inscribe makes
	// it); 1/2/3 = the content pushed through OP_PUSHDATA1/2/4; 4 = "ord" through OP_PUSHDATA1 and the
	// content type through OP_PUSHDATA2; 5 = the key hash through OP_PUSHDATA1. All of them are
	// inscriptions to the library's recogniser, so the library signs them
	Form int `json:"inscription_push_form,omitempty"`
	// All: every input spends the same script and all are signed at once through FillAllInputs
	All bool `json:"fill_all_inputs,omitempty"`
	// Repoint: every input is locked to ANOTHER key; ONE unlocker object signs them all, its
	// PrivateKey field set to the input's key before each FillInput
	Repoint bool `json:"one_unlocker_object_rekeyed_per_input,omitempty"`
}

// c04Repoint: one unlocker.Simple value, re-keyed between inputs, signs every input of a transaction
// whose inputs are locked to different keys; every input must verify.
func c04Repoint(c c04Case) (fs []rep.Finding) {
	ref := &txref.Tx{Version: 2, LockTime: 17}
	var privs []*bec.PrivateKey
	for i := 0; i < c.NIn; i++ {
		priv, pub := bec.PrivKeyFromBytes(bec.S256(), c04Keys[(c.Key+i)%len(c04Keys)])
		privs = append(privs, priv)
		in := p2pkhIn(i, uint64(9000+i))
		in.PrevScript = refP2PKH(refHash160(pub.SerialiseCompressed()))
		if c.Insc {
			in.PrevScript = append(append([]byte(nil), in.PrevScript...), c14Templates()["inscription"][25:]...)
		}
		ref.Ins = append(ref.Ins, in)
	}
	for i := 0; i < c.NOut; i++ {
		ref.Outs = append(ref.Outs, txref.Out{Sats: uint64(700 + i), Script: refP2PKH(fill(20, byte(0x90+i)))})
	}
	tx := toLib(ref)
	for _, in := range tx.Inputs {
		in.UnlockingScript = nil
	}
	u := &unlocker.Simple{}
	for i := range tx.Inputs {
		u.PrivateKey = privs[i]
		if err := tx.FillInput(context.Background(), u, bt.UnlockerParams{InputIdx: uint32(i), SigHashFlags: sighash.Flag(c.HT)}); err != nil {
			return append(fs, rep.F("sign|error", err.Error()))
		}
	}
	for i := range ref.Ins {
		ref.Ins[i].Script = append([]byte(nil), *tx.Inputs[i].UnlockingScript...)
	}
	for i := range ref.Ins {
		if err := c04Verify(ref, i, c.HT&0x40 != 0, nil); err != nil {
			fs = append(fs, rep.F("rekeyed-unlocker|rejects-own-signature", fmt.Sprintf("input %d, signed by an unlocker object whose key had been set for it after it had signed with another key, is rejected: %v", i, err)))
			break
		}
	}
	return
}

// c04InscLock builds a P2PKH inscription locking script in the given push form.
func c04InscLock(hash []byte, form int) []byte {
	pd := func(d []byte, w int) []byte {
		switch w {
		case 1:
			return append([]byte{0x4c, byte(len(d))}, d...)
		case 2:
			return append([]byte{0x4d, byte(len(d)), byte(len(d) >> 8)}, d...)
		case 4:
			return append([]byte{0x4e, byte(len(d)), byte(len(d) >> 8), 0, 0}, d...)
		}
		return append([]byte{byte(len(d))}, d...)
	}
	wHash, wOrd, wCT, wData := 0, 0, 0, 0
	switch form {
	case 1:
		wData = 1
	case 2:
		wData = 2
	case 3:
		wData = 4
	case 4:
		wOrd, wCT = 1, 2
	case 5:
		wHash = 1
	}
	return bytesJoin([]byte{0x76, 0xa9}, pd(hash, wHash), []byte{0x88, 0xac, 0x00, 0x63}, pd([]byte("ord"), wOrd), []byte{0x51},
		pd([]byte("text/plain"), wCT), []byte{0x00}, pd([]byte("hello, world!"), wData), []byte{0x68})
}

// mutation classes
const (
	mNone = iota
	mVersion
	mLockTime
	mInTxID
	mInVout
	mInSeq
	mInUnlocking // other input's unlocking script
	mInPrevSats  // other input's spent value
	mOutValue
	mOutScript
	mOutInsert
	mOutRemove
	mInInsert
	mInRemove
	mSpentValue
	mSpentScript
	mOutSwap
	mInSwap
	nMut
)

var mutNames = []string{"none", "version", "locktime", "input.txid", "input.vout", "input.sequence", "other-input.unlocking", "other-input.spent-value",
	"output.value", "output.script", "output.insert", "output.remove", "input.insert", "input.remove", "spent.value", "spent.script", "output.swap", "input.swap"}

func c04Ref(c c04Case, lock []byte) *txref.Tx {
	t := &txref.Tx{Version: 2, LockTime: 17}
	for i := 0; i < c.NIn; i++ {
		in := p2pkhIn(i, uint64(9000+i))
		in.Seq = 0xfffffff0 + uint32(i)
		if i == c.Pos || c.All {
			in.PrevScript = lock
		}
		t.Ins = append(t.Ins, in)
	}
	for i := 0; i < c.NOut; i++ {
		t.Outs = append(t.Outs, txref.Out{Sats: uint64(700 + i), Script: refP2PKH(fill(20, byte(0x90+i)))})
	}
	return t
}

func cloneRef(t *txref.Tx) *txref.Tx {
	c := *t
	c.Ins = make([]txref.In, len(t.Ins))
	for i, in := range t.Ins {
		in.TxID = append([]byte(nil), in.TxID...)
		in.Script = append([]byte(nil), in.Script...)
		in.PrevScript = append([]byte(nil), in.PrevScript...)
		c.Ins[i] = in
	}
	c.Outs = make([]txref.Out, len(t.Outs))
	for i, o := range t.Outs {
		o.Script = append([]byte(nil), o.Script...)
		c.Outs[i] = o
	}
	return &c
}

// applyMut mutates t; returns the new position of the signed input, or -1 when
// the mutation does not apply to this shape.
func c04Mutate(t *txref.Tx, pos, mut, param int, hi ...bool) int {
	d32, d64 := uint32(1), uint64(1)
	if len(hi) > 0 && hi[0] {
		d32, d64 = 0x80000000, 1<<62
	}
	switch mut {
	case mNone:
	case mVersion:
		t.Version ^= d32
	case mLockTime:
		t.LockTime ^= d32
	case mInTxID, mInVout, mInSeq:
		if param >= len(t.Ins) {
			return -1
		}
		switch mut {
		case mInTxID:
			t.Ins[param].TxID[5] ^= 0x40
		case mInVout:
			t.Ins[param].Vout ^= d32
		case mInSeq:
			t.Ins[param].Seq ^= d32
		}
	case mInUnlocking, mInPrevSats:
		if param >= len(t.Ins) || param == pos {
			return -1
		}
		if mut == mInUnlocking {
			t.Ins[param].Script = []byte{0x51, 0x52}
		} else {
			t.Ins[param].PrevSats ^= d64 << 2
		}
	case mOutValue, mOutScript, mOutRemove:
		if param >= len(t.Outs) {
			return -1
		}
		switch mut {
		case mOutValue:
			t.Outs[param].Sats ^= d64
		case mOutScript:
			t.Outs[param].Script[4] ^= 1
		case mOutRemove:
			t.Outs = append(t.Outs[:param], t.Outs[param+1:]...)
		}
	case mOutInsert:
		if param > len(t.Outs) {
			return -1
		}
		n := txref.Out{Sats: 1, Script: []byte{0x6a}}
		t.Outs = append(t.Outs[:param], append([]txref.Out{n}, t.Outs[param:]...)...)
	case mInInsert:
		if param > len(t.Ins) {
			return -1
		}
		n := p2pkhIn(9, 123)
		t.Ins = append(t.Ins[:param], append([]txref.In{n}, t.Ins[param:]...)...)
		if param <= pos {
			pos++
		}
	case mInRemove:
		if param >= len(t.Ins) || param == pos {
			return -1
		}
		t.Ins = append(t.Ins[:param], t.Ins[param+1:]...)
		if param < pos {
			pos--
		}
	case mSpentValue:
		if param != 0 {
			return -1
		}
		t.Ins[pos].PrevSats ^= d64
	case mSpentScript:
		if param == 0 {
			t.Ins[pos].PrevScript[10] ^= 1 // inside the key hash
		} else if param == 1 && len(t.Ins[pos].PrevScript) > 30 {
			t.Ins[pos].PrevScript[len(t.Ins[pos].PrevScript)-3] ^= 1 // inside the inscription payload
		} else {
			return -1
		}
	case mOutSwap:
		if param+1 >= len(t.Outs) {
			return -1
		}
		t.Outs[param], t.Outs[param+1] = t.Outs[param+1], t.Outs[param]
	case mInSwap:
		if param+1 >= len(t.Ins) {
			return -1
		}
		t.Ins[param], t.Ins[param+1] = t.Ins[param+1], t.Ins[param]
		if pos == param {
			pos = param + 1
		} else if pos == param+1 {
			pos = param
		}
	}
	return pos
}

func c04Digest(t *txref.Tx, pos int, ht uint8) []byte {
	in := t.Ins[pos]
	if ht&0x40 != 0 {
		return sighashref.ForkIDDigest(t, pos, in.PrevScript, in.PrevSats, uint32(ht))
	}
	return sighashref.LegacyDigest(t, pos, in.PrevScript, uint32(ht))
}

// c04Verify runs the interpreter on input pos of t against the spent output recorded in t.
// stale != nil: the transaction object still carries the signer-side record of the spent
// output (value/script as they were when signing) while the spent output handed to the
// interpreter is the current one.
func c04Verify(t *txref.Tx, pos int, forkid bool, stale *txref.In) error {
	tx := toLib(t)
	in := t.Ins[pos]
	prev := &bt.Output{Satoshis: in.PrevSats, LockingScript: libScript(in.PrevScript)}
	if stale != nil {
		tx.Inputs[pos].PreviousTxScript = libScript(stale.PrevScript)
		tx.Inputs[pos].PreviousTxSatoshis = stale.PrevSats
	} else {
		// hand the interpreter a tx that carries no record of the spent output
		tx.Inputs[pos].PreviousTxScript = nil
		tx.Inputs[pos].PreviousTxSatoshis = 0
	}
	opts := []interpreter.ExecutionOptionFunc{interpreter.WithTx(tx, pos, prev), interpreter.WithAfterGenesis()}
	if forkid {
		opts = append(opts, interpreter.WithForkID())
	}
	err := interpreter.NewEngine().Execute(opts...)
	// the same question put to an Engine value that has already worked under the OTHER digest
	// regime (and with other flag sets): an engine is a stateless validator, its verdict is the same
	tx2 := toLib(t)
	tx2.Inputs[pos].PreviousTxScript, tx2.Inputs[pos].PreviousTxSatoshis = tx.Inputs[pos].PreviousTxScript, tx.Inputs[pos].PreviousTxSatoshis
	opts2 := []interpreter.ExecutionOptionFunc{interpreter.WithTx(tx2, pos, prev), interpreter.WithAfterGenesis()}
	if forkid {
		opts2 = append(opts2, interpreter.WithForkID())
	}
	eng := interpreter.NewEngine()
	one, tru := bscript.NewFromBytes([]byte{0x51}), bscript.NewFromBytes([]byte{0x51})
	_ = eng.Execute(interpreter.WithScripts(one, tru), interpreter.WithAfterGenesis(), interpreter.WithForkID())
	_ = eng.Execute(interpreter.WithScripts(one, tru), interpreter.WithP2SH(), interpreter.WithFlags(scriptflag.VerifyStrictEncoding|scriptflag.VerifyLowS|scriptflag.VerifyNullFail|scriptflag.VerifyCleanStack))
	_ = eng.Execute(interpreter.WithScripts(one, tru))
	if !forkid {
		_ = eng.Execute(interpreter.WithScripts(one, tru), interpreter.WithForkID(), interpreter.WithAfterGenesis())
	}
	if err2 := eng.Execute(opts2...); (err2 == nil) != (err == nil) {
		return &usedEngineDiffers{fresh: err, used: err2}
	}
	return err
}

// usedEngineDiffers: a fresh Engine and one that has validated other things before disagree.
type usedEngineDiffers struct{ fresh, used error }

func (u *usedEngineDiffers) Error() string {
	return fmt.Sprintf("a fresh engine says %v, an engine that has validated under other flags before says %v", u.fresh, u.used)
}

var c04Keys = testPrivKeys(8)

func c04Check(c c04Case) (fs []rep.Finding) {
	priv, pub := bec.PrivKeyFromBytes(bec.S256(), c04Keys[c.Key])
	lock := refP2PKH(refHash160(pub.SerialiseCompressed()))
	if c.Insc && c.Form != 0 {
		lock = c04InscLock(refHash160(pub.SerialiseCompressed()), c.Form)
	} else if c.Insc {
		lock = append(append([]byte(nil), lock...), c14Templates()["inscription"][25:]...)
		if c.Trailer > 0 {
			// OP_RETURN followed by one push of Trailer bytes (as Inscribe's enrichment produces)
			lock = append(append(lock, 0x6a), minimalPush(fill(c.Trailer, 0x42))...)
		}
	}
	if c.Repoint {
		return c04Repoint(c)
	}
	if c.Resign {
		return c04Resign(c, priv, lock)
	}
	ref0 := c04Ref(c, lock)
	tx0 := toLib(ref0)
	for _, in := range tx0.Inputs {
		in.UnlockingScript = nil
	}
	forkid := c.HT&0x40 != 0
	if err := tx0.FillInput(context.Background(), &unlocker.Simple{PrivateKey: priv}, bt.UnlockerParams{InputIdx: uint32(c.Pos), SigHashFlags: sighash.Flag(c.HT)}); err != nil {
		return append(fs, rep.F("sign|error", err.Error()))
	}
	ref0.Ins[c.Pos].Script = append([]byte(nil), *tx0.Inputs[c.Pos].UnlockingScript...)
	alg := "legacy"
	if forkid {
		alg = "forkid"
	}
	ref1 := cloneRef(ref0)
	pos1 := c04Mutate(ref1, c.Pos, c.Mut, c.Param, c.Hi)
	if pos1 < 0 {
		return nil
	}
	var stale *txref.In
	if c.Stale {
		o := ref0.Ins[c.Pos]
		stale = &o
	}
	err := c04Verify(ref1, pos1, forkid, stale)
	if u, ok := err.(*usedEngineDiffers); ok {
		return append(fs, rep.F("used-engine-verdict-differs|"+alg, u.Error()))
	}
	accepted := err == nil
	want := bytes.Equal(c04Digest(ref0, c.Pos, c.HT), c04Digest(ref1, pos1, c.HT))
	if c.Mut == mSpentScript && c.Param == 0 {
		want = false // the key hash no longer matches the key
	}
	base := c.HT & 3
	acp := c.HT&0x80 != 0
	cls := fmt.Sprintf("%s|base=%d,acp=%v|%s", alg, base, acp, mutNames[c.Mut])
	if c.Mut == mNone {
		if !accepted {
			fs = append(fs, rep.F("rejects-own-signature|"+alg+fmt.Sprintf("|base=%d,acp=%v", base, acp), "the interpreter rejects an input signed through the library: "+err.Error()))
		}
		return
	}
	if accepted && !want {
		fs = append(fs, rep.F("still-valid-after-committed-change|"+cls, "signature still verifies after changing something the hash type commits to"))
	}
	if !accepted && want {
		fs = append(fs, rep.F("invalid-after-uncommitted-change|"+cls, "signature fails after changing something the hash type does not commit to: "+err.Error()))
	}
	return
}

// c04Resign: sign input Pos, edit the library transaction object in place, sign again
// through the same path, then verify: every library-made signature must be accepted for
// the transaction as it is now.
func c04Resign(c c04Case, priv *bec.PrivateKey, lock []byte) (fs []rep.Finding) {
	ref := c04Ref(c, lock)
	tx := toLib(ref)
	for _, in := range tx.Inputs {
		in.UnlockingScript = nil
	}
	u := &unlocker.Simple{PrivateKey: priv}
	sign := func() error {
		if c.All {
			return tx.FillAllInputs(context.Background(), &unlocker.Getter{PrivateKey: priv})
		}
		return tx.FillInput(context.Background(), u, bt.UnlockerParams{InputIdx: uint32(c.Pos), SigHashFlags: sighash.Flag(c.HT)})
	}
	if err := sign(); err != nil {
		return append(fs, rep.F("sign|error", err.Error()))
	}
	// in-place edits of the same object
	switch c.Mut {
	case mVersion:
		tx.Version++
		ref.Version++
	case mLockTime:
		tx.LockTime++
		ref.LockTime++
	case mOutValue:
		if c.Param >= len(tx.Outputs) {
			return nil
		}
		tx.Outputs[c.Param].Satoshis += 3
		ref.Outs[c.Param].Sats += 3
	case mOutScript:
		if c.Param >= len(tx.Outputs) {
			return nil
		}
		(*tx.Outputs[c.Param].LockingScript)[5] ^= 1
		ref.Outs[c.Param].Script[5] ^= 1
	case mOutInsert:
		tx.AddOutput(&bt.Output{Satoshis: 9, LockingScript: libScript([]byte{0x6a})})
		ref.Outs = append(ref.Outs, txref.Out{Sats: 9, Script: []byte{0x6a}})
	case mOutRemove:
		if len(tx.Outputs) == 0 {
			return nil
		}
		tx.Outputs = tx.Outputs[:len(tx.Outputs)-1]
		ref.Outs = ref.Outs[:len(ref.Outs)-1]
	case mInSeq:
		if c.Param >= len(tx.Inputs) {
			return nil
		}
		tx.Inputs[c.Param].SequenceNumber ^= 2
		ref.Ins[c.Param].Seq ^= 2
	case mInVout:
		if c.Param >= len(tx.Inputs) {
			return nil
		}
		tx.Inputs[c.Param].PreviousTxOutIndex += 2
		ref.Ins[c.Param].Vout += 2
	case mSpentValue:
		tx.Inputs[c.Pos].PreviousTxSatoshis += 4
		ref.Ins[c.Pos].PrevSats += 4
	case mInInsert:
		newLock := refP2PKH(fill(20, 9))
		if c.All {
			newLock = lock // FillAllInputs signs this one too, with the same key
		}
		_ = tx.FromUTXOs(&bt.UTXO{TxID: txid32(0xe7), Vout: 1, Satoshis: 77, LockingScript: libScript(newLock)})
		ref.Ins = append(ref.Ins, txref.In{TxID: txid32(0xe7), Vout: 1, Seq: 0xffffffff, PrevSats: 77, PrevScript: newLock})
	case mNone:
		if !c.All {
			return nil
		}
	default:
		return nil
	}
	if err := sign(); err != nil {
		return append(fs, rep.F("sign|error", err.Error()))
	}
	forkid := c.HT&0x40 != 0
	if c.All {
		// every input was signed (again): every one of them must verify for the transaction as it is now
		for i := range ref.Ins {
			ref.Ins[i].Script = append([]byte(nil), *tx.Inputs[i].UnlockingScript...)
		}
		for i := range ref.Ins {
			if err := c04Verify(ref, i, true, nil); err != nil {
				fs = append(fs, rep.F(fmt.Sprintf("fill-all-resigned-after-edit-rejected|%s", mutNames[c.Mut]),
					fmt.Sprintf("input %d, signed through FillAllInputs after an in-place edit of the transaction, is rejected: %v", i, err)))
				break
			}
		}
		return
	}
	ref.Ins[c.Pos].Script = append([]byte(nil), *tx.Inputs[c.Pos].UnlockingScript...)
	if err := c04Verify(ref, c.Pos, forkid, nil); err != nil {
		alg := "legacy"
		if forkid {
			alg = "forkid"
		}
		fs = append(fs, rep.F(fmt.Sprintf("resigned-after-edit-rejected|%s|base=%d,acp=%v|%s", alg, c.HT&3, c.HT&0x80 != 0, mutNames[c.Mut]),
			"an input signed again through the library after an in-place edit of the transaction is rejected: "+err.Error()))
	}
	return
}

func init() {
	p := register(&Prop{ID: "C04", Level: "exploration",
		Rule: "every verification is put to a fresh Engine and to an Engine value that has validated under other flag sets (the other digest regime included) before - the verdicts must agree; exhaustive product: 4 (quick) / 8 (thorough) private keys (incl. 1 and n-1) x shapes nIn 1..3 x nOut 0..3 x every signed position x spent script {P2PKH, P2PKH inscription, inscription with an OP_RETURN trailer pushing 1,2,3,4,75,76 bytes, inscriptions whose envelope uses non-minimal pushes (content through OP_PUSHDATA1/2/4, tag and content type through PUSHDATA1/2, key hash through PUSHDATA1)} x the 6 FORKID hash types verified with the FORKID flag and the 6 legacy types verified without it x EVERY single-field mutation class at every position, numeric fields changed in their lowest and in their highest byte (version, locktime, each input's txid/vout/sequence, another input's unlocking script / spent value, each output's value/script, output insertion at every gap / removal, input insertion at every gap / removal, adjacent swaps, spent value, spent script; the spent-output mutations also with the transaction object still carrying the signer-side record of the spent output). The input is signed through Tx.FillInput + unlocker.Simple and verified with interpreter.Execute(WithTx, WithAfterGenesis[, WithForkID]). plus sign -> in-place edit of the same Tx object -> sign again -> verify sequences (10 edit kinds), through FillInput and - every input spending the same script - through FillAllInputs twice (every input must verify afterwards); and transactions whose inputs are locked to different keys, all signed by ONE unlocker object re-keyed before each input. Oracle: unmutated accepted; re-signed accepted; mutated accepted iff the reference digest (certified on the node vectors) of the mutated context equals the original digest. distinct_nontrivial = distinct (shape, position, hash type, mutation) verifications",
	})
	sp := NewSpace(p, "sign-mutate-verify", c04Check)
	p.Run = func(r *rep.Run, thorough bool) {
		if !requireSighashAnchor(r) {
			return
		}
		nk := 4
		if thorough {
			nk = 8
		}
		hts := []uint8{0x41, 0x42, 0x43, 0xc1, 0xc2, 0xc3, 0x01, 0x02, 0x03, 0x81, 0x82, 0x83}
		(&Space[c04Case]{P: p, Name: sp.Name, Check: func(c c04Case) []rep.Finding {
			fs := c04Check(c)
			if len(fs) == 0 {
				r.Distinct(fmt.Sprint(c.NIn, c.NOut, c.Pos, c.Insc, c.HT, c.Mut, c.Param, c.Stale, c.Trailer, c.Resign, c.Form, c.All, c.Repoint))
			}
			return fs
		}}).Each(r, func(yield func(c04Case)) {
			for k := 0; k < nk; k++ {
				for nin := 1; nin <= 3; nin++ {
					for nout := 0; nout <= 3; nout++ {
						if !thorough && k >= 2 && (nin == 3 || nout == 3) {
							continue
						}
						for pos := 0; pos < nin; pos++ {
							for _, insc := range []bool{false, true} {
								for _, ht := range hts {
									for m := 0; m < nMut; m++ {
										for prm := 0; prm <= 4; prm++ {
											if (m == mNone || m == mVersion || m == mLockTime) && prm > 0 {
												continue
											}
											yield(c04Case{Key: k, NIn: nin, NOut: nout, Pos: pos, Insc: insc, HT: ht, Mut: m, Param: prm})
											if m == mNone || m == mSpentValue || m == mSpentScript || m == mOutValue {
												yield(c04Case{Key: k, NIn: nin, NOut: nout, Pos: pos, Insc: insc, HT: ht, Mut: m, Param: prm, Stale: true})
											}
											if m == mVersion || m == mLockTime || m == mInVout || m == mInSeq || m == mInPrevSats || m == mOutValue || m == mSpentValue {
												yield(c04Case{Key: k, NIn: nin, NOut: nout, Pos: pos, Insc: insc, HT: ht, Mut: m, Param: prm, Hi: true})
											}
											if k < 2 && prm <= 2 {
												yield(c04Case{Key: k, NIn: nin, NOut: nout, Pos: pos, Insc: insc, HT: ht, Mut: m, Param: prm, Resign: true})
											}
											if insc && m == mNone {
												for _, tr := range []int{1, 2, 3, 4, 75, 76} {
													yield(c04Case{Key: k, NIn: nin, NOut: nout, Pos: pos, Insc: true, Trailer: tr, HT: ht, Mut: m})
												}
												for form := 1; form <= 5; form++ {
													yield(c04Case{Key: k, NIn: nin, NOut: nout, Pos: pos, Insc: true, Form: form, HT: ht, Mut: m})
													yield(c04Case{Key: k, NIn: nin, NOut: nout, Pos: pos, Insc: true, Form: form, Trailer: 2, HT: ht, Mut: m})
												}
											}
											if m == mNone && pos == 0 && nin >= 2 {
												yield(c04Case{Key: k, NIn: nin, NOut: nout, Insc: insc, HT: ht, Repoint: true})
											}
											if ht == 0x41 && pos == 0 && k < 2 && prm <= 2 {
												yield(c04Case{Key: k, NIn: nin, NOut: nout, Pos: pos, Insc: insc, HT: ht, Mut: m, Param: prm, Resign: true, All: true})
											}
										}
									}
								}
							}
						}
					}
				}
			}
		})
		r.Sample("sign-mutate-verify", c04Case{Key: 1, NIn: 2, NOut: 2, Pos: 1, HT: 0xc3, Mut: mOutValue, Param: 1})
		r.Sample("sign-mutate-verify", c04Case{Key: 0, NIn: 3, NOut: 1, Pos: 0, Insc: true, HT: 0x02, Mut: mInSeq, Param: 2})
	}
}
