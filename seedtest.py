#!/usr/bin/env python3
"""seedtest.py <dir-with-patch.diff,meta.json,demo> [--tier quick|thorough] [--check ID] [--keep NAME]

Evaluates a seeded property-breaking change WITHOUT touching /repo: a scratch git
worktree of /repo's HEAD is created under /tmp, the change is applied there, and
 - the demonstration must pass on the unchanged worktree and fail with the change,
 - the pinned test suite must pass with the change,
 - the property's check is run against the scratch worktree (VERIF_REPO / VERIF_OUT).
The worktree and its output directory are removed afterwards. Prints one JSON summary."""
import json, os, re, subprocess, sys, shutil, tempfile

ENV = dict(os.environ, GOFLAGS="-mod=mod", GOPROXY="off", GOSUMDB="off", GOTOOLCHAIN="local")

def sh(cmd, cwd, timeout=7200, env=None):
    p = subprocess.run(cmd, shell=True, cwd=cwd, env=env or ENV, capture_output=True, text=True, timeout=timeout)
    return p.returncode, p.stdout + p.stderr

def main():
    d = os.path.abspath(sys.argv[1].rstrip("/"))
    tier = "quick"
    if "--tier" in sys.argv:
        tier = sys.argv[sys.argv.index("--tier") + 1]
    meta = json.load(open(d + "/meta.json"))
    prop = meta["property"]
    if "--check" in sys.argv:
        prop = sys.argv[sys.argv.index("--check") + 1]
    demo = meta.get("demo", {})
    copy_to = demo.get("copy_to") or demo.get("path_in_repo")
    run = demo.get("run")
    demo_src = None
    for f in sorted(os.listdir(d)):
        if f.endswith("_test.go"):
            demo_src = d + "/" + f
    wt = tempfile.mkdtemp(prefix="seedwt_")
    out = tempfile.mkdtemp(prefix="seedout_")
    os.rmdir(wt)
    res = {"seed": d, "property": prop}
    rc, o = sh("git worktree add -q --detach %s HEAD" % wt, "/repo")
    if rc != 0:
        print(json.dumps({"error": o})); return
    try:
        dst = None
        if copy_to:
            rel = re.sub(r"^/tmp/wt\d*_C\d+/", "", copy_to).lstrip("/")
            dst = os.path.join(wt, rel)
        run_cmd = None
        if run:
            run_cmd = re.sub(r"^\s*cd\s+\S+\s*&&\s*", "", run)
            run_cmd = re.sub(r"^.*?(go test)", r"\1", run_cmd, count=1)
            run_cmd = re.sub(r"/tmp/wt\d*_C\d+", wt, run_cmd)
        if dst and demo_src and run_cmd:
            os.makedirs(os.path.dirname(dst), exist_ok=True)
            shutil.copy(demo_src, dst)
            rc, o = sh(run_cmd, wt)
            res["demo_passes_clean"] = (rc == 0)
            if rc != 0:
                res["demo_clean_out"] = o[-600:]
        rc, o = sh("git apply --whitespace=nowarn " + d + "/patch.diff", wt)
        if rc != 0:
            res["apply"] = "FAILED: " + o[-300:]
            print(json.dumps(res, indent=1)); return
        if dst and demo_src and run_cmd:
            rc, o = sh(run_cmd, wt)
            res["demo_fails_mutant"] = (rc != 0)
            os.remove(dst)
        rc, o = sh("go build ./... && go test -vet=off -count=1 ./... 2>&1 | grep -v 'no test files' | grep -v '^ok' | head -20", wt)
        res["suite_passes_mutant"] = (o.strip() == "")
        if o.strip():
            res["suite_out"] = o[-500:]
        env = dict(ENV, VERIF_REPO=wt, VERIF_OUT=out)
        rc, o = sh("./check.sh %s %s" % (prop, tier), "/verif", env=env)
        res["check_exit"] = rc
        vio = [l for l in o.splitlines() if l.startswith("VIOLATION")]
        keys = sorted(set(l.strip() for l in o.splitlines() if l.strip().startswith("key=")))
        res["violations"] = len(vio)
        res["keys"] = keys[:8]
        res["detected"] = (rc == 1 and len(vio) > 0)
        if rc not in (0, 1):
            res["check_out"] = o[-600:]
    finally:
        # the per-worktree binaries and module files check.sh / c18.sh built for this scratch tree
        import hashlib, glob
        tag = hashlib.md5((wt + "\n").encode()).hexdigest()[:8]
        for f in glob.glob("/verif/bin/*_%s*" % tag) + glob.glob("/verif/.work/alt_%s.*" % tag):
            try: os.remove(f)
            except OSError: pass
        shutil.rmtree("/verif/.work/c18_" + tag, ignore_errors=True)
        sh("git worktree remove --force " + wt, "/repo")
        shutil.rmtree(wt, ignore_errors=True)
        shutil.rmtree(out, ignore_errors=True)
    print(json.dumps(res, indent=1))
    if "--keep" in sys.argv:
        name = sys.argv[sys.argv.index("--keep") + 1]
        kd = "/verif/seeded/" + name
        os.makedirs(kd, exist_ok=True)
        if os.path.abspath(d) != os.path.abspath(kd):
            shutil.copy(d + "/patch.diff", kd + "/patch.diff")
            if demo_src:
                shutil.copy(demo_src, kd + "/demo_test.go")
        head = subprocess.run("git -C /repo rev-parse --short HEAD", shell=True, capture_output=True, text=True).stdout.strip()
        meta["confirmed_by_framework_author"] = {
            "against_repo_commit": head,
            "demo_passes_on_unchanged_tree": res.get("demo_passes_clean"),
            "demo_fails_with_change": res.get("demo_fails_mutant"),
            "existing_suite_passes_with_change": res.get("suite_passes_mutant"),
            "check_run": "./check.sh %s %s" % (prop, tier),
            "check_detects": res.get("detected"),
            "violation_keys": res.get("keys"),
            "how": "seedtest.py: scratch worktree of /repo HEAD; git apply patch.diff; go test ./...; demonstration with and without the change; the check with VERIF_REPO=<worktree>; worktree removed. To run a check against the change by hand: git -C /repo apply seeded/<id>/patch.diff; ./check.sh <ID> quick; git -C /repo checkout -- .",
        }
        json.dump(meta, open(kd + "/meta.json", "w"), indent=1)

main()
