package props

import (
	"bytes"
	"fmt"
	"math/big"

	"github.com/libsv/go-bt/v2"

	"verif/internal/ref/txref"
	"verif/internal/rep"
)

type c10Case struct {
	NIn    int   `json:"nin"`
	Signed int   `json:"signed"` // 0 unsigned, 1 signed (107 bytes), 2 first only, 3 last only, 4 unsigned and read back from its extended serialisation (empty, non-nil unlocking scripts)
	NOut   int   `json:"nout"`
	Mix    int   `json:"mix"`  // 0 all P2PKH, 1 first is data (200 bytes), 2 alternate data/std, 3 first is the payload-less 00 6a, 4 first is the bare 6a
	Dest   int   `json:"dest"` // see c10Dest
	Q      quote `json:"quote"`
	Rel    int   `json:"rel"`                  // available amount relative to the reference thresholds
	QForm  int   `json:"quote_form,omitempty"` // how the quote object is put together, see quote.libForm
	// SharedPtr: the script object handed to Change is the very object output 0 already holds (tx.PayTo(s, n)
	// followed by tx.Change(s, quote)); output 0 then carries the destination script
	SharedPtr bool `json:"change_script_object_is_output0s,omitempty"`
}

// destinations: 0 address, 1 P2PKH script, 2 23-byte P2SH-form, 3 35-byte P2PK, 4 67-byte P2PK,
// 5 1-byte script, 6 100-byte, 7 300-byte, 8 existing output 0, 9 existing output last, 10 existing out of range
const c10Dests = 11

func c10DestScript(d int) []byte {
	tp := c14Templates()
	switch d {
	case 0, 1:
		return refP2PKH(fill(20, 0x77))
	case 2:
		return tp["p2sh"]
	case 3:
		return tp["p2pk33"]
	case 4:
		return tp["p2pk65"]
	case 5:
		return []byte{0x51}
	case 6:
		return fill(100, 0x51)
	case 7:
		return append([]byte{0x4d, 0x29, 0x01}, fill(297, 0x51)...)
	}
	return nil
}

func c10Build(c c10Case) *txref.Tx {
	t := &txref.Tx{Version: 1}
	for i := 0; i < c.NIn; i++ {
		in := p2pkhIn(i, 0)
		if c.Signed == 1 || (c.Signed == 2 && i == 0) || (c.Signed == 3 && i == c.NIn-1) {
			in.Script = fill(107, 0x30)
		}
		t.Ins = append(t.Ins, in)
	}
	for i := 0; i < c.NOut; i++ {
		sc := refP2PKH(fill(20, byte(i)))
		if (c.Mix == 1 && i == 0) || (c.Mix == 2 && i%2 == 0) {
			sc = append([]byte{0x00, 0x6a, 0x4c, 200}, fill(200, byte(i))...)
		}
		if c.Mix == 3 && i == 0 {
			sc = []byte{0x00, 0x6a}
		}
		if c.Mix == 4 && i == 0 {
			sc = []byte{0x6a}
		}
		if c.Mix >= 5 && i == c.NOut-1 {
			// the LAST output is one of the accounting check's script kinds (near-data scripts)
			sc = c11OutScript([]int{2, 3, 8, 9, 10, 11, 12, 4}[c.Mix-5])
		}
		t.Outs = append(t.Outs, txref.Out{Sats: uint64(600 + i), Script: sc})
	}
	return t
}

// feeWithChange: the reference fee of the estimated final transaction once the
// change output (script s) has been appended.
func c10FeeWith(t *txref.Tx, s []byte, q quote) *big.Int {
	c := *refEstimated(t)
	if s != nil {
		c.Outs = append(append([]txref.Out(nil), c.Outs...), txref.Out{Sats: 1, Script: s})
	}
	_, std, data := refSizes(&c)
	return refFee(std, data, q)
}

func c10Slack(q quote) *big.Int {
	// the fee for nine bytes (rounded up) plus nine satoshis
	x := big.NewInt(int64(9 * q.SS))
	x.Add(x, big.NewInt(int64(q.SB-1)))
	x.Div(x, big.NewInt(int64(q.SB)))
	return x.Add(x, big.NewInt(9))
}

func c10Check(c c10Case) (fs []rep.Finding) {
	ref := c10Build(c)
	existing := c.Dest >= 8
	destScript := c10DestScript(c.Dest)
	if c.SharedPtr && len(ref.Outs) > 0 && destScript != nil {
		ref.Outs[0].Script = append([]byte(nil), destScript...)
	}
	feeWith := c10FeeWith(ref, destScript, c.Q)
	out := sumOut(ref)
	slack := c10Slack(c.Q)
	// choose the available amount
	var avail *big.Int
	switch {
	case c.Rel == 0:
		avail = big.NewInt(-1) // inputs < outputs
	case c.Rel == 1:
		avail = big.NewInt(0)
	case c.Rel >= 2 && c.Rel <= 7: // feeWith-2 .. feeWith+3
		avail = new(big.Int).Add(feeWith, big.NewInt(int64(c.Rel-4)))
	case c.Rel >= 8 && c.Rel <= 11: // around fee+dust
		avail = new(big.Int).Add(feeWith, big.NewInt(int64(bt.DustLimit)+int64(c.Rel-9)))
	case c.Rel == 12:
		avail = new(big.Int).Add(feeWith, new(big.Int).Add(slack, big.NewInt(50)))
	default:
		avail = new(big.Int).Add(feeWith, big.NewInt(10_000_000))
	}
	in := new(big.Int).Add(out, avail)
	if in.Sign() < 0 {
		return nil
	}
	ref.Ins[0].PrevSats = in.Uint64()
	tx := toLib(ref)
	if c.Signed == 4 {
		back, err := bt.NewTxFromBytes(tx.ExtendedBytes())
		if err != nil {
			return nil
		}
		tx = back
	}
	before := tx.Bytes()
	beforeExt := tx.ExtendedBytes()
	fq := c.Q.libForm(c.QForm)
	// one script object for every call (the library keeps it in the output it adds)
	destObj := libScript(destScript)
	if c.SharedPtr && len(tx.Outputs) > 0 && c.Dest >= 1 && c.Dest <= 7 {
		tx.Outputs[0].LockingScript = destObj
	}
	op := func() error {
		switch {
		case c.Dest == 0:
			return tx.ChangeToAddress(refAddrEncode(fill(20, 0x77), true), fq)
		case c.Dest <= 7:
			return tx.Change(destObj, fq)
		case c.Dest == 8:
			return tx.ChangeToExistingOutput(0, fq)
		case c.Dest == 9:
			return tx.ChangeToExistingOutput(uint(c.NOut-1), fq)
		}
		return tx.ChangeToExistingOutput(uint(c.NOut), fq)
	}
	err := op()
	kind := fmt.Sprintf("dest=%d", c.Dest)
	if existing {
		kind = "dest=existing"
	}
	if err != nil {
		// a failed operation must leave the transaction alone
		if !bytes.Equal(before, tx.Bytes()) {
			fs = append(fs, rep.F("error-but-modified|"+kind, "change returned an error and modified the transaction: "+err.Error()))
		}
		if avail.Sign() >= 0 && !(c.Dest == 10) && !(existing && c.NOut == 0) {
			fs = append(fs, rep.F("unexpected-error|"+kind, err.Error()))
		}
		return
	}
	if avail.Sign() < 0 {
		fs = append(fs, rep.F("no-error-when-inputs-below-outputs|"+kind, "change succeeded although outputs exceed inputs"))
	}
	// --- post-conditions
	after, perr := txref.Parse(tx.ExtendedBytes())
	if perr != nil {
		return append(fs, rep.F("harness|unparsable-result", perr.Error()))
	}
	inSum, outSum := sumIn(after.Tx), sumOut(after.Tx)
	if outSum.Cmp(inSum) > 0 {
		fs = append(fs, rep.F("creates-value|"+kind, fmt.Sprintf("outputs %s exceed inputs %s", outSum, inSum)))
	}
	added := !bytes.Equal(before, tx.Bytes())
	if !added {
		if !bytes.Equal(beforeExt, tx.ExtendedBytes()) {
			fs = append(fs, rep.F("unchanged-but-modified|"+kind, "previous-output data changed"))
		}
		// allowed only when what remains after the fee a change output needs is at or below dust
		rem := new(big.Int).Sub(avail, feeWith)
		lim := new(big.Int).Add(big.NewInt(int64(bt.DustLimit)), slack)
		if rem.Cmp(lim) > 0 {
			fs = append(fs, rep.F("burns-change|"+kind, fmt.Sprintf("no change added although %s satoshis remain after the fee %s (dust limit %d)", rem, feeWith, bt.DustLimit)))
		}
		return
	}
	// pre-existing outputs untouched
	if existing {
		idx := 0
		if c.Dest == 9 {
			idx = c.NOut - 1
		}
		if len(after.Tx.Outs) != len(ref.Outs) {
			return append(fs, rep.F("existing|output-count-changed", "number of outputs changed"))
		}
		for i := range ref.Outs {
			if i == idx {
				if !bytes.Equal(after.Tx.Outs[i].Script, ref.Outs[i].Script) || after.Tx.Outs[i].Sats < ref.Outs[i].Sats {
					fs = append(fs, rep.F("existing|designated-output-damaged", "script changed or value decreased"))
				}
				continue
			}
			if after.Tx.Outs[i].Sats != ref.Outs[i].Sats || !bytes.Equal(after.Tx.Outs[i].Script, ref.Outs[i].Script) {
				fs = append(fs, rep.F("existing|other-output-touched", fmt.Sprintf("output %d changed", i)))
			}
		}
	} else {
		if len(after.Tx.Outs) != len(ref.Outs)+1 {
			return append(fs, rep.F("new|output-count", fmt.Sprintf("%d outputs after change, had %d", len(after.Tx.Outs), len(ref.Outs))))
		}
		for i := range ref.Outs {
			if after.Tx.Outs[i].Sats != ref.Outs[i].Sats || !bytes.Equal(after.Tx.Outs[i].Script, ref.Outs[i].Script) {
				fs = append(fs, rep.F("new|earlier-output-touched", fmt.Sprintf("output %d changed", i)))
			}
		}
		if !bytes.Equal(after.Tx.Outs[len(ref.Outs)].Script, destScript) {
			fs = append(fs, rep.F("new|wrong-change-script", "change output does not carry the requested script"))
		}
	}
	for i := range ref.Ins {
		if !bytes.Equal(after.Tx.Ins[i].TxID, ref.Ins[i].TxID) || after.Tx.Ins[i].PrevSats != ref.Ins[i].PrevSats || !bytes.Equal(after.Tx.Ins[i].Script, ref.Ins[i].Script) {
			fs = append(fs, rep.F("inputs-touched|"+kind, fmt.Sprintf("input %d changed", i)))
		}
	}
	// fee left vs quoted fee for the estimated final size
	afterStd := *after.Tx
	_, std, data := refSizes(refEstimated(&afterStd))
	need := refFee(std, data, c.Q)
	left := new(big.Int).Sub(inSum, outSum)
	bound := "nout<252"
	if c.NOut >= 252 {
		bound = fmt.Sprintf("nout=%d", c.NOut)
	}
	if left.Cmp(need) < 0 {
		fs = append(fs, rep.F("underpays|"+kind+"|"+bound, fmt.Sprintf("fee left %s < quoted fee %s for the estimated final size (%d std + %d data bytes)", left, need, std, data)))
	}
	if left.Cmp(new(big.Int).Add(need, slack)) > 0 {
		fs = append(fs, rep.F("overpays|"+kind+"|"+bound, fmt.Sprintf("fee left %s exceeds quoted fee %s by more than the slack %s", left, need, slack)))
	}
	if len(fs) > 0 {
		return
	}
	// the same operation once more on the result (a wallet that recomputes change after every edit):
	// the statement holds for this call as for the first - nothing that existed is touched (bar the
	// designated output), no value appears, and the fee left still covers the quoted fee
	if err2 := op(); err2 == nil {
		after2, perr := txref.Parse(tx.ExtendedBytes())
		if perr != nil {
			return append(fs, rep.F("harness|unparsable-result", perr.Error()))
		}
		in2, out2 := sumIn(after2.Tx), sumOut(after2.Tx)
		if out2.Cmp(in2) > 0 {
			fs = append(fs, rep.F("second-call|creates-value|"+kind, fmt.Sprintf("outputs %s exceed inputs %s", out2, in2)))
		}
		if len(after2.Tx.Outs) < len(after.Tx.Outs) {
			fs = append(fs, rep.F("second-call|output-removed|"+kind, "an output disappeared"))
		} else {
			for i := range after.Tx.Outs {
				designated := existing && ((c.Dest == 8 && i == 0) || (c.Dest == 9 && i == c.NOut-1))
				o1, o2 := after.Tx.Outs[i], after2.Tx.Outs[i]
				if !bytes.Equal(o1.Script, o2.Script) || (!designated && o1.Sats != o2.Sats) || (designated && o2.Sats < o1.Sats) {
					fs = append(fs, rep.F("second-call|earlier-output-touched|"+kind, fmt.Sprintf("output %d changed when change was computed a second time", i)))
					break
				}
			}
		}
		c2 := *after2.Tx
		_, std2, data2 := refSizes(refEstimated(&c2))
		need2 := refFee(std2, data2, c.Q)
		if left2 := new(big.Int).Sub(in2, out2); left2.Cmp(need2) < 0 {
			fs = append(fs, rep.F("second-call|underpays|"+kind, fmt.Sprintf("after a second change computation the fee left %s is below the quoted fee %s", left2, need2)))
		}
	}
	return
}

var c10Quotes = []quote{
	{5, 100, 5, 100}, {1, 1000, 1, 1000}, {50, 1000, 50, 1000}, {500, 1000, 500, 1000}, {1, 1, 1, 1}, {2, 1, 2, 1}, {3, 1, 3, 1},
	{7, 3, 7, 3}, {1000, 1, 1000, 1}, {500, 1000, 1, 4}, {1, 2, 250, 1000}, {3, 1, 1, 1000}, {1, 1000, 3, 1},
	{350, 1000, 350, 1000}, {35, 100, 7, 20}, // rates that are not exact binary fractions
	{0, 1, 1, 1}, {1, 2, 0, 1000}, // a type that is free to mine
}

func init() {
	p := register(&Prop{ID: "C10", Level: "exploration",
		Rule: "exhaustive product: inputs 1..3 P2PKH (unsigned / signed / first signed / last signed / unsigned and read back from its extended serialisation) x output counts {0,1,2,3,251,252,253,254} (and 252/253/254 INPUTS with 1, 2 or 253 outputs) x output mix (all standard / first data / alternating data / first the payload-less `00 6a` / first the bare `6a` / last one of 8 near-data scripts: `6a 00`, `6a 01 42`, `00 6a` + push, `00`, `00 51 6a`, empty, OP_RETURN not first, 75-byte payload) x 11 change destinations (for small shapes also with the script OBJECT handed to Change being the one output 0 already holds; address, P2PKH script, 23-byte P2SH form, 35- and 67-byte P2PK, 1-, 100- and 300-byte scripts, existing output first/last/out of range) x 15 fee quotes (for the small shapes also assembled with mislabelled, unlabelled and relabelled Fee objects, and refreshed from JSON into a quote object that already held default / other rates) (incl. >1 sat/byte, non-integral rates, unequal std/data rates and denominators) x 14 placements of the available amount relative to the big-integer reference thresholds (inputs<outputs, 0, fee-2..fee+3, fee+dust-1..fee+dust+2, just above the slack, ample). Oracle = the post-conditions of the statement computed with the reference fee model: earlier outputs and inputs untouched, outputs <= inputs, if changed: quoted fee(estimated final size) <= fee left <= quoted fee + ceil(9 bytes) + 9; if unchanged: remainder after the fee a change output needs <= dust (+ the same slack); after a change was added the same operation is applied ONCE MORE to the result and the same frame, no-value-created and fee-covered conditions are checked again. distinct_nontrivial = distinct cases on which change returned without error",
	})
	sp := NewSpace(p, "change", c10Check)
	p.Run = func(r *rep.Run, thorough bool) {
		nouts := []int{0, 1, 2, 3, 251, 252, 253, 254}
		(&Space[c10Case]{P: p, Name: sp.Name, Check: func(c c10Case) []rep.Finding {
			fs := c10Check(c)
			if len(fs) == 0 {
				r.Distinct(fmt.Sprint(c))
			}
			return fs
		}}).Each(r, func(yield func(c10Case)) {
			for nin := 1; nin <= 3; nin++ {
				for sg := 0; sg < 5; sg++ {
					if !thorough && nin == 3 && sg == 2 {
						continue
					}
					if sg == 3 && nin == 1 {
						continue // "last only" is "all" for one input
					}
					for _, nout := range nouts {
						for mix := 0; mix < 13; mix++ {
							if nout == 0 && mix > 0 {
								continue
							}
							if nout > 3 && mix >= 5 {
								continue
							}
							if !thorough && mix >= 5 && (nin > 1 || sg > 0) {
								continue
							}
							if !thorough && nout > 3 && (mix >= 2 || nin > 1) {
								continue
							}
							for d := 0; d < c10Dests; d++ {
								if nout == 0 && d == 9 {
									continue // "last output" does not exist
								}
								for _, q := range c10Quotes {
									for rel := 0; rel < 14; rel++ {
										yield(c10Case{NIn: nin, Signed: sg, NOut: nout, Mix: mix, Dest: d, Q: q, Rel: rel})
										if nin == 1 && sg == 0 && nout <= 2 && mix <= 1 && d <= 1 {
											if d >= 1 && d <= 7 && nout >= 1 {
												yield(c10Case{NIn: nin, Signed: sg, NOut: nout, Mix: mix, Dest: d, Q: q, Rel: rel, SharedPtr: true})
											}
											for _, form := range []int{1, 2, 5, 7, 8, 9, 10} {
												yield(c10Case{NIn: nin, Signed: sg, NOut: nout, Mix: mix, Dest: d, Q: q, Rel: rel, QForm: form})
											}
										}
									}
								}
							}
						}
					}
				}
			}
		})
		// consolidation shapes: the INPUT count crosses the one-byte varint class while the output count does not (and both do)
		(&Space[c10Case]{P: p, Name: sp.Name, Check: func(c c10Case) []rep.Finding {
			fs := c10Check(c)
			if len(fs) == 0 {
				r.Distinct(fmt.Sprint(c))
			}
			return fs
		}}).Each(r, func(yield func(c10Case)) {
			for _, nin := range []int{252, 253, 254} {
				for _, sg := range []int{0, 1} {
					for _, nout := range []int{1, 2, 253} {
						for _, d := range []int{0, 1, 8} {
							for _, q := range c10Quotes {
								for rel := 0; rel < 14; rel++ {
									yield(c10Case{NIn: nin, Signed: sg, NOut: nout, Dest: d, Q: q, Rel: rel})
								}
							}
						}
					}
				}
			}
		})
		r.Sample("change", c10Case{NIn: 1, NOut: 252, Dest: 1, Q: c10Quotes[6], Rel: 13})
		r.Sample("change", c10Case{NIn: 2, Signed: 2, NOut: 2, Mix: 1, Dest: 7, Q: c10Quotes[9], Rel: 5})
	}
}
