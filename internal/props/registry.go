// Package props holds one exhaustive checker per property (C01…C20).
package props

import (
	"encoding/hex"
	"encoding/json"
	"fmt"
	"sort"

	"verif/internal/enum"
	"verif/internal/rep"
)

// HB is a byte string that is written as hex in violation files.
type HB []byte

func (h HB) MarshalJSON() ([]byte, error) { return json.Marshal(hex.EncodeToString(h)) }
func (h *HB) UnmarshalJSON(b []byte) error {
	var s string
	if err := json.Unmarshal(b, &s); err != nil {
		return err
	}
	d, err := hex.DecodeString(s)
	*h = d
	return err
}
func (h HB) String() string { return hex.EncodeToString(h) }

// Prop is one registered property checker.
type Prop struct {
	ID     string
	Level  string // evidence level
	Rule   string
	Run    func(r *rep.Run, thorough bool)
	replay map[string]func(raw json.RawMessage) ([]rep.Finding, error)
}

var registry = map[string]*Prop{}

func register(p *Prop) *Prop {
	p.replay = map[string]func(raw json.RawMessage) ([]rep.Finding, error){}
	registry[p.ID] = p
	return p
}

// Get returns the checker for id.
func Get(id string) *Prop { return registry[id] }

// IDs lists registered property ids.
func IDs() []string {
	out := []string{}
	for k := range registry {
		out = append(out, k)
	}
	sort.Strings(out)
	return out
}

// Space is a named enumeration with a typed, replayable check.
type Space[C any] struct {
	P     *Prop
	Name  string
	Check enum.Check[C]
}

// NewSpace registers a space (and its replay function) on p.
func NewSpace[C any](p *Prop, name string, check enum.Check[C]) *Space[C] {
	s := &Space[C]{P: p, Name: name, Check: check}
	p.replay[name] = func(raw json.RawMessage) ([]rep.Finding, error) {
		var c C
		if err := json.Unmarshal(raw, &c); err != nil {
			return nil, err
		}
		var fs []rep.Finding
		if f := rep.Guard(func() { fs = check(c) }); f != nil {
			fs = append(fs, *f)
		}
		return fs, nil
	}
	return s
}

func (s *Space[C]) Indexed(r *rep.Run, n uint64, mk func(i uint64) C) {
	enum.Indexed(r, s.Name, n, mk, s.Check)
}
func (s *Space[C]) Each(r *rep.Run, gen func(yield func(C))) { enum.Each(r, s.Name, gen, s.Check) }
func (s *Space[C]) Slice(r *rep.Run, cs []C)                 { enum.Slice(r, s.Name, cs, s.Check) }

// Replay re-executes a violation file's case without the explorer.
func Replay(doc map[string]json.RawMessage) error {
	var id, space string
	_ = json.Unmarshal(doc["property"], &id)
	_ = json.Unmarshal(doc["space"], &space)
	p := registry[id]
	if p == nil {
		return fmt.Errorf("unknown property %q", id)
	}
	fn := p.replay[space]
	if fn == nil {
		return fmt.Errorf("property %s has no space %q", id, space)
	}
	fs, err := fn(doc["input"])
	if err != nil {
		return err
	}
	fmt.Printf("replay property=%s space=%s input=%s\n", id, space, string(doc["input"]))
	if len(fs) == 0 {
		fmt.Println("replay: oracle holds on this case (no finding)")
		return nil
	}
	for _, f := range fs {
		b, _ := json.Marshal(f.Detail)
		fmt.Printf("replay: FINDING key=%s what=%s detail=%s\n", f.Key, f.What, b)
	}
	return fmt.Errorf("%d finding(s) reproduced", len(fs))
}
