package scriptref

import (
	"bytes"
	"math/big"

	"github.com/libsv/go-bk/bec"

	"verif/internal/ref/sighashref"
)

var halfOrder = new(big.Int).Rsh(bec.S256().N, 1)

// isValidSignatureEncoding is the BIP66 strict DER check (sig includes the hash-type byte).
func isValidSignatureEncoding(sig []byte) bool {
	if len(sig) < 9 || len(sig) > 73 {
		return false
	}
	if sig[0] != 0x30 {
		return false
	}
	if int(sig[1]) != len(sig)-3 {
		return false
	}
	lenR := int(sig[3])
	if 5+lenR >= len(sig) {
		return false
	}
	lenS := int(sig[5+lenR])
	if lenR+lenS+7 != len(sig) {
		return false
	}
	if sig[2] != 0x02 {
		return false
	}
	if lenR == 0 {
		return false
	}
	if sig[4]&0x80 != 0 {
		return false
	}
	if lenR > 1 && sig[4] == 0 && sig[5]&0x80 == 0 {
		return false
	}
	if sig[lenR+4] != 0x02 {
		return false
	}
	if lenS == 0 {
		return false
	}
	if sig[lenR+6]&0x80 != 0 {
		return false
	}
	if lenS > 1 && sig[lenR+6] == 0 && sig[lenR+7]&0x80 == 0 {
		return false
	}
	return true
}

func checkSignatureEncoding(sig []byte, flags uint32) string {
	if len(sig) == 0 {
		return ""
	}
	if flags&(DERSig|LowS|StrictEnc) != 0 && !isValidSignatureEncoding(sig) {
		return "SIG_DER"
	}
	if flags&LowS != 0 {
		// valid DER is guaranteed here
		lenR := int(sig[3])
		lenS := int(sig[5+lenR])
		s := new(big.Int).SetBytes(sig[6+lenR : 6+lenR+lenS])
		if s.Cmp(halfOrder) > 0 {
			return "SIG_HIGH_S"
		}
	}
	if flags&StrictEnc != 0 {
		ht := sig[len(sig)-1]
		base := ht &^ (0x40 | 0x80)
		if base < 1 || base > 3 {
			return "SIG_HASHTYPE"
		}
		uses := ht&0x40 != 0
		enabled := flags&ForkID != 0
		if !enabled && uses {
			return "ILLEGAL_FORKID"
		}
		if enabled && !uses {
			return "MUST_USE_FORKID"
		}
	}
	return ""
}

func checkPubKeyEncoding(key []byte, flags uint32) string {
	if flags&StrictEnc == 0 {
		return ""
	}
	if len(key) == 33 && (key[0] == 2 || key[0] == 3) {
		return ""
	}
	if len(key) == 65 && key[0] == 4 {
		return ""
	}
	return "PUBKEYTYPE"
}

func pushEncode(d []byte) []byte {
	var b []byte
	switch {
	case len(d) < 0x4c:
		b = append(b, byte(len(d)))
	case len(d) <= 0xff:
		b = append(b, 0x4c, byte(len(d)))
	case len(d) <= 0xffff:
		b = append(b, 0x4d, byte(len(d)), byte(len(d)>>8))
	default:
		b = append(b, 0x4e, byte(len(d)), byte(len(d)>>8), byte(len(d)>>16), byte(len(d)>>24))
	}
	return append(b, d...)
}

// findAndDelete removes every occurrence of pat that starts at an instruction boundary.
func findAndDelete(script, pat []byte) []byte {
	if len(pat) == 0 {
		return script
	}
	var out []byte
	pc := 0
	for pc < len(script) {
		for len(script)-pc >= len(pat) && bytes.Equal(script[pc:pc+len(pat)], pat) {
			pc += len(pat)
		}
		if pc >= len(script) {
			break
		}
		o, ok := next(script, pc)
		if !ok {
			out = append(out, script[pc:]...)
			break
		}
		out = append(out, script[pc:o.end]...)
		pc = o.end
	}
	return out
}

// cleanupScriptCode drops the signature from the script code unless it is a FORKID
// signature verified with the FORKID flag.
func cleanupScriptCode(code, sig []byte, flags uint32) []byte {
	forkSig := len(sig) > 0 && sig[len(sig)-1]&0x40 != 0
	if flags&ForkID == 0 || !forkSig {
		return findAndDelete(code, pushEncode(sig))
	}
	return code
}

// ECDSACheck is the reference signature checker: digest by sighashref (FORKID
// algorithm iff the signature carries the FORKID bit and the flag is enabled,
// otherwise the original algorithm with code separators removed), ECDSA by go-bk.
func ECDSACheck(sig, key, code []byte, flags uint32, ctx *TxCtx) bool {
	if ctx == nil || len(sig) == 0 {
		return false
	}
	pub, err := bec.ParsePubKey(key, bec.S256())
	if err != nil {
		return false
	}
	ht := sig[len(sig)-1]
	raw := sig[:len(sig)-1]
	var digest []byte
	if ht&0x40 != 0 && flags&ForkID != 0 {
		digest = sighashref.ForkIDDigest(ctx.Tx, ctx.Idx, code, ctx.Amount, uint32(ht))
	} else {
		if ctx.Idx >= len(ctx.Tx.Ins) {
			digest = sighashref.One
		} else {
			digest = sighashref.LegacyDigest(ctx.Tx, ctx.Idx, sighashref.StripCodeSeparators(code), uint32(ht))
		}
	}
	var parsed *bec.Signature
	if flags&(DERSig|StrictEnc|LowS) != 0 {
		parsed, err = bec.ParseDERSignature(raw, bec.S256())
	} else {
		parsed, err = bec.ParseSignature(raw, bec.S256())
	}
	if err != nil {
		return false
	}
	return parsed.Verify(digest, pub)
}
