#!/bin/bash
# c18.sh <quick|thorough|replay file>: instrument the CURRENT library sources, build the
# schedule explorer with the overlay, and run it. (VERIF_REPO: see check.sh)
set -u
cd "$(dirname "$0")"
export GOFLAGS=-mod=mod GOPROXY=off GOSUMDB=off GOTOOLCHAIN=local
export VERIF_ROOT="$PWD"
TIER="${1:-quick}"
REPO="${VERIF_REPO:-/repo}"
TAG=main; MODFLAG=""
mkdir -p bin evidence
if [ "$REPO" != "/repo" ]; then
  TAG=$(echo "$REPO" | md5sum | cut -c1-8)
  mkdir -p .work
  sed "s#=> /repo#=> $REPO#" go.mod > .work/alt_$TAG.mod; cp go.sum .work/alt_$TAG.sum
  MODFLAG="-modfile=$PWD/.work/alt_$TAG.mod"
fi
# every invocation has its own scratch directory and binaries (several checks use this script
# and may run at the same time); both are removed on exit
RUN="${TAG}_$$"
WORK="$PWD/.work/c18_$RUN"; mkdir -p "$WORK"
trap 'rm -rf "$WORK" bin/vinstr_$RUN bin/vsched_$RUN bin/vsched-race_$RUN bin/build18_$RUN.err bin/build18r_$RUN.err bin/race_${RUN}_2.out bin/race_${RUN}_16.out' EXIT
go build -o bin/vinstr_$RUN ./cmd/vinstr || { echo "BUILD-FAILED vinstr"; exit 2; }
./bin/vinstr_$RUN "$REPO" "$WORK" || { echo "INSTRUMENTATION-FAILED (the tree does not parse; no verdict)"; exit 2; }
if ! go build $MODFLAG -tags verif -overlay "$WORK/overlay.json" -o bin/vsched_$RUN ./cmd/vsched 2> bin/build18_$RUN.err; then
  echo "BUILD-FAILED (instrumented tree does not compile; no verdict)"; cat bin/build18_$RUN.err; exit 2
fi
if [ "$TIER" = "replay" ]; then ./bin/vsched_$RUN replay "$2"; exit $?; fi
if [ "$TIER" = "watch-replay" ]; then ./bin/vsched_$RUN watch-replay "$2"; exit $?; fi
if [ "$TIER" = "conc-replay" ]; then ./bin/vsched_$RUN conc-replay "$2"; exit $?; fi
# write-monitor stage of another property's check: c18.sh watch <ID> <tier>
if [ "$TIER" = "watch" ]; then ./bin/vsched_$RUN watch "$2" "${3:-quick}"; exit $?; fi
# the second stages of another property's check in one instrumented build: c18.sh stages <ID> <tier>
# (write monitor where the property has frame conditions, then the concurrent stage)
if [ "$TIER" = "stages" ]; then
  rcw=0
  case "$2" in
    C01|C02|C03|C04|C08|C10|C11|C12|C16) ./bin/vsched_$RUN watch "$2" "${3:-quick}"; rcw=$? ;;
  esac
  ./bin/vsched_$RUN conc "$2" "${3:-quick}"; rcc=$?
  if [ $rcw -eq 1 ] || [ $rcc -eq 1 ]; then exit 1; fi
  if [ $rcw -ne 0 ]; then exit $rcw; fi
  exit $rcc
fi
./bin/vsched_$RUN explore "$TIER"
rc=$?
ITER=60; [ "$TIER" = "thorough" ] && ITER=400
if [ $rc -eq 0 ]; then
  # supplementary, not the deciding step: the same scenario bodies free-running under the race
  # detector (catches accesses the syntactic instrumentation cannot see, e.g. through aliases
  # handed to other packages); a report here is a VIOLATION and an instrumentation gap
  if go build $MODFLAG -race -tags verif -overlay "$WORK/overlay.json" -o bin/vsched-race_$RUN ./cmd/vsched 2> bin/build18r_$RUN.err; then
    for p in 2 16; do
      GOMAXPROCS=$p ./bin/vsched-race_$RUN free $ITER > bin/race_${RUN}_$p.out 2>&1
      if grep -q "DATA RACE\|fatal error: concurrent map" bin/race_${RUN}_$p.out; then
        OUT="${VERIF_OUT:-$PWD}"; mkdir -p "$OUT/violations/C18"; cp bin/race_${RUN}_$p.out "$OUT/violations/C18/free_running_race_$p.txt"
        echo "VIOLATION property=C18 replay=$OUT/violations/C18/free_running_race_$p.txt"
        echo "  key=free-running|race-detector (an instrumentation gap: the explorer did not see this race)"
        rc=1
      fi
    done
  fi
fi
exit $rc
