package props

import (
	"github.com/libsv/go-bk/bec"

	"verif/internal/ref/scriptref"
	"verif/internal/ref/sighashref"
	"verif/internal/ref/txref"
)

// refSign signs input idx of t over scriptCode with hash type ht using the
// reference digests (FORKID digest when forkidAlgo, else the original algorithm
// on the code with code separators removed) and returns DER||hashtype.
func refSign(priv *bec.PrivateKey, t *txref.Tx, idx int, scriptCode []byte, amount uint64, ht byte, forkidAlgo bool) []byte {
	var digest []byte
	if forkidAlgo {
		digest = sighashref.ForkIDDigest(t, idx, scriptCode, amount, uint32(ht))
	} else {
		digest = sighashref.LegacyDigest(t, idx, sighashref.StripCodeSeparators(scriptCode), uint32(ht))
	}
	sig, err := priv.Sign(digest)
	if err != nil {
		panic(err)
	}
	return append(sig.Serialise(), ht)
}

// highS returns the same signature with s replaced by n-s (valid ECDSA, non-canonical).
func highS(sigWithType []byte) []byte {
	raw := sigWithType[:len(sigWithType)-1]
	sig, err := bec.ParseDERSignature(raw, bec.S256())
	if err != nil {
		panic(err)
	}
	s := *sig
	s.S = s.S.Sub(bec.S256().N, sig.S)
	// serialise without canonicalisation
	rb, sb := s.R.Bytes(), s.S.Bytes()
	if rb[0]&0x80 != 0 {
		rb = append([]byte{0}, rb...)
	}
	if sb[0]&0x80 != 0 {
		sb = append([]byte{0}, sb...)
	}
	der := []byte{0x30, byte(4 + len(rb) + len(sb)), 0x02, byte(len(rb))}
	der = append(der, rb...)
	der = append(der, 0x02, byte(len(sb)))
	der = append(der, sb...)
	return append(der, sigWithType[len(sigWithType)-1])
}

type keyPair struct {
	priv *bec.PrivateKey
	comp []byte // compressed public key
	unc  []byte // uncompressed
	hyb  []byte // hybrid encoding (06/07)
}

func keyOf(i int) keyPair {
	priv, pub := bec.PrivKeyFromBytes(bec.S256(), testPrivKeys(8)[i])
	unc := pub.SerialiseUncompressed()
	hyb := append([]byte(nil), unc...)
	hyb[0] = 0x06 | (unc[64] & 1)
	return keyPair{priv, pub.SerialiseCompressed(), unc, hyb}
}

var _ = scriptref.ECDSACheck
