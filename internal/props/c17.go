package props

import (
	"bytes"
	"encoding/hex"
	"fmt"
	"strings"

	"github.com/libsv/go-bt/v2/bscript"

	"verif/internal/ref/sighashref"
	"verif/internal/rep"
)

// refBIP276Encode lays the text out as the BIP specifies:
// prefix ':' VV NN <hex data> <8 hex checksum>, checksum = sha256d(preceding text)[:4].
func refBIP276Encode(prefix string, version, network int, data []byte) string {
	p := fmt.Sprintf("%s:%02x%02x%s", prefix, version, network, hex.EncodeToString(data))
	return p + hex.EncodeToString(sighashref.Sha256d([]byte(p))[:4])
}

// refBIP276Decode accepts exactly well laid-out text with a correct checksum
// (hex digits compared case-insensitively).
func refBIP276Decode(text string) (prefix string, version, network int, data []byte, ok bool) {
	i := strings.IndexByte(text, ':')
	if i <= 0 {
		return
	}
	prefix = text[:i]
	rest := strings.ToLower(text[i+1:])
	if len(rest) < 4+8 || len(rest)%2 != 0 {
		return
	}
	raw, err := hex.DecodeString(rest)
	if err != nil {
		return
	}
	body := prefix + ":" + rest[:len(rest)-8]
	if !bytes.Equal(sighashref.Sha256d([]byte(body))[:4], raw[len(raw)-4:]) {
		return
	}
	return prefix, int(raw[0]), int(raw[1]), raw[2 : len(raw)-4], true
}

type c17Enc struct {
	Prefix  string `json:"prefix"`
	Version int    `json:"version"`
	Network int    `json:"network"`
	DataLen int    `json:"data_len"`
}

func c17EncCheck(c c17Enc) (fs []rep.Finding) {
	data := fill(c.DataLen, byte(c.Version*3+c.Network))
	got := bscript.EncodeBIP276(bscript.BIP276{Prefix: c.Prefix, Version: c.Version, Network: c.Network, Data: data})
	if c.Version < 1 || c.Version > 255 || c.Network < 1 || c.Network > 255 {
		if got != "ERROR" {
			// out-of-range fields must not yield a BIP276 text
			if _, _, _, _, ok := refBIP276Decode(got); ok {
				fs = append(fs, rep.F("encode|out-of-range-accepted", "out-of-range version/network produced a valid text"))
			}
		}
		return
	}
	cls := "v==n"
	if c.Version != c.Network {
		cls = "v!=n"
	}
	want := refBIP276Encode(c.Prefix, c.Version, c.Network, data)
	if c.DataLen == 0 && c.Version == c.Network {
		// the statement speaks of "any payload"; an empty one has no data digits at all. (With
		// version != network the field-order finding applies to empty payloads as to any other.)
		cls += ",empty"
	}
	if got != want {
		fs = append(fs, rep.F("encode|layout|"+cls, "text is not laid out prefix:VVNN<data><checksum> as the BIP specifies", "got", trunc(got), "want", trunc(want)))
	}
	// round trip through the library's own encoder
	d, err := bscript.DecodeBIP276(got)
	if err != nil {
		fs = append(fs, rep.F("roundtrip|decode-rejects-own-encoding|"+cls, err.Error(), "text", trunc(got)))
	} else if d.Prefix != c.Prefix || d.Version != c.Version || d.Network != c.Network || !bytes.Equal(d.Data, data) {
		fs = append(fs, rep.F("roundtrip|fields-differ|"+cls, fmt.Sprintf("got prefix=%s v=%d n=%d", d.Prefix, d.Version, d.Network)))
	} else {
		// the decoded value is the caller's: decoding other texts must not change it
		other := fill(c.DataLen, ^byte(c.Version*3+c.Network))
		for i := 0; i < 3; i++ {
			_, _ = bscript.DecodeBIP276(bscript.EncodeBIP276(bscript.BIP276{Prefix: c.Prefix, Version: c.Version, Network: c.Network, Data: other}))
			_, _ = bscript.DecodeBIP276(refBIP276Encode(c.Prefix, c.Version, c.Network, other))
		}
		if !bytes.Equal(d.Data, data) {
			fs = append(fs, rep.F("roundtrip|decoded-data-changes-later", "data returned by an earlier decode changed when another text was decoded"))
		}
	}
	// a decoded value is the caller's: its data edited in place and the value encoded again gives the
	// text of the EDITED value (and that text decodes to it)
	if d2, err := bscript.DecodeBIP276(got); err == nil && len(d2.Data) > 0 {
		for i := range d2.Data {
			d2.Data[i] ^= 0x5a
		}
		edited := append([]byte(nil), d2.Data...)
		enc := bscript.EncodeBIP276(*d2)
		if !strings.Contains(enc, ":"+fmt.Sprintf("%02x%02x", d2.Network, d2.Version)+hex.EncodeToString(edited)) && !strings.Contains(enc, ":"+fmt.Sprintf("%02x%02x", d2.Version, d2.Network)+hex.EncodeToString(edited)) {
			fs = append(fs, rep.F("encode|stale-after-in-place-edit", "a decoded value whose data was edited in place encodes to a text that does not carry the edited data", "got", trunc(enc)))
		} else if c.Version == c.Network {
			if d3, err := bscript.DecodeBIP276(enc); err != nil || !bytes.Equal(d3.Data, edited) {
				fs = append(fs, rep.F("encode|stale-after-in-place-edit", "the text of the edited value does not decode to it"))
			}
		}
	}
	// the specified layout must decode too
	d, err = bscript.DecodeBIP276(want)
	if err != nil {
		fs = append(fs, rep.F("decode|rejects-spec-layout|"+cls, err.Error(), "text", trunc(want)))
	} else if d.Prefix != c.Prefix || d.Version != c.Version || d.Network != c.Network || !bytes.Equal(d.Data, data) {
		fs = append(fs, rep.F("decode|spec-layout-fields-differ|"+cls, fmt.Sprintf("got v=%d n=%d", d.Version, d.Network)))
	}
	if c.Prefix == bscript.PrefixScript {
		ok, _ := bscript.ValidateAddress(got)
		_, derr := bscript.DecodeBIP276(got)
		if ok != (derr == nil) {
			fs = append(fs, rep.F("ValidateAddress|disagrees-with-decode", "validation and decoding disagree on "+trunc(got)))
		}
	}
	return
}

type c17Text struct {
	Text string `json:"text"`
	// Seed: the valid text this one was derived from; it is decoded first, so that any
	// state a decoder keeps between calls (a cache keyed by part of the text, say) is in place
	Seed string `json:"seed,omitempty"`
}

func c17TextCheck(c c17Text) (fs []rep.Finding) {
	_, _, _, _, valid := refBIP276Decode(c.Text)
	if c.Seed != "" {
		_, _ = bscript.DecodeBIP276(c.Seed)
		_, _ = bscript.ValidateAddress(c.Seed)
	}
	d, err := bscript.DecodeBIP276(c.Text)
	if err == nil && !valid {
		fs = append(fs, rep.F("decode|accepts-corrupted", "text with a wrong checksum or malformed layout was accepted", "text", trunc(c.Text)))
	}
	if err == nil && d == nil {
		fs = append(fs, rep.F("decode|nil", "nil result without error"))
	}
	if strings.HasPrefix(c.Text, "bitcoin-script:") {
		ok, _ := bscript.ValidateAddress(c.Text)
		if ok != (err == nil) {
			fs = append(fs, rep.F("ValidateAddress|disagrees-with-decode", "validation and decoding disagree", "text", trunc(c.Text)))
		}
	}
	return
}

func init() {
	p := register(&Prop{ID: "C17", Level: "exploration",
		Rule: "every round trip also: the decoded value edited in place and encoded again must give the text of the edited value; exhaustive: all 65,025 (version,network) pairs in 1..255 x prefixes {bitcoin-script, bitcoin-template} x payload lengths {0,1,20} (quick) / {0,1,2,20,33,100} (thorough) plus out-of-range fields {0,256,-1}, and EVERY payload length 0..300 plus 511..513, 1023..1025, 4095..4097, 65535, 65536 for four field pairs: EncodeBIP276 text byte-identical to the reference layout, decode(encode(x))=x, spec-layout text decodes, ValidateAddress <=> decodes; and for 40 valid encodings (library-made and spec-made) EVERY single-character substitution over the alphabet of ALL printable ASCII characters plus tab, newline, NUL and a non-ASCII letter at every position, every deletion and every insertion (the valid text is decoded first, then the corrupted one): rejected whenever the reference decoder (checksum over the text, hex case-insensitive) rejects. distinct_nontrivial = distinct texts judged",
	})
	sE := NewSpace(p, "encode", c17EncCheck)
	sT := NewSpace(p, "text", c17TextCheck)
	p.Run = func(r *rep.Run, thorough bool) {
		lens := []int{0, 1, 20}
		if thorough {
			lens = []int{0, 1, 2, 20, 33, 100}
		}
		var encs []c17Enc
		for _, pre := range []string{bscript.PrefixScript, bscript.PrefixTemplate} {
			for _, l := range lens {
				for v := 1; v <= 255; v++ {
					for n := 1; n <= 255; n++ {
						encs = append(encs, c17Enc{pre, v, n, l})
					}
				}
				for _, bad := range [][2]int{{0, 1}, {1, 0}, {256, 1}, {1, 256}, {-1, 1}, {1, -1}, {0, 0}, {1000, 1000}} {
					encs = append(encs, c17Enc{pre, bad[0], bad[1], l})
				}
			}
		}
		// every payload length 0..300 (and the push-form / buffer boundaries above), a few field values
		for _, pre := range []string{bscript.PrefixScript, bscript.PrefixTemplate} {
			for l := 0; l <= 300; l++ {
				for _, vn := range [][2]int{{1, 1}, {255, 255}, {16, 16}, {1, 2}} {
					encs = append(encs, c17Enc{pre, vn[0], vn[1], l})
				}
			}
			for _, l := range []int{511, 512, 513, 1023, 1024, 1025, 4095, 4096, 4097, 65535, 65536} {
				encs = append(encs, c17Enc{pre, 1, 1, l}, c17Enc{pre, 200, 200, l})
			}
		}
		(&Space[c17Enc]{P: p, Name: sE.Name, Check: func(c c17Enc) []rep.Finding {
			fs := c17EncCheck(c)
			r.Distinct("e", c.Prefix, c.Version, c.Network, c.DataLen)
			return fs
		}}).Slice(r, encs)
		r.Sample("encode", encs[300])
		// corruption space
		var seeds []string
		for i, vn := range [][2]int{{1, 1}, {2, 2}, {9, 9}, {10, 10}, {16, 16}, {99, 99}, {255, 255}, {171, 171}, {1, 2}, {2, 1}} {
			for _, l := range []int{1, 20} {
				d := fill(l, byte(i+0xa0))
				seeds = append(seeds, refBIP276Encode(bscript.PrefixScript, vn[0], vn[1], d))
				seeds = append(seeds, bscript.EncodeBIP276(bscript.BIP276{Prefix: bscript.PrefixScript, Version: vn[0], Network: vn[1], Data: d}))
			}
		}
		// every printable ASCII character (so also the signs, dots, underscores and prefixes that
		// number parsers tolerate), tab, newline, NUL and a non-ASCII letter
		alpha := "\t\n\x00\u00e9"
		for ch := byte(0x20); ch < 0x7f; ch++ {
			alpha += string(rune(ch))
		}
		(&Space[c17Text]{P: p, Name: sT.Name, Check: func(c c17Text) []rep.Finding {
			fs := c17TextCheck(c)
			r.Distinct("t", c.Text)
			return fs
		}}).Each(r, func(yield func(c17Text)) {
			for _, s := range seeds {
				yield(c17Text{Text: s})
				for i := 0; i < len(s); i++ {
					for _, ch := range alpha {
						if byte(ch) != s[i] {
							yield(c17Text{Text: s[:i] + string(ch) + s[i+1:], Seed: s})
						}
					}
					yield(c17Text{Text: s[:i] + s[i+1:], Seed: s})
				}
				for i := 0; i <= len(s); i++ {
					for _, ch := range alpha {
						yield(c17Text{Text: s[:i] + string(ch) + s[i:], Seed: s})
					}
				}
			}
			for _, s := range []string{"", ":", "bitcoin-script:", "bitcoin-script:01", "bitcoin-script:0101", "bitcoin-script:010100000000", ":010112345678", "x:0101" + "00" + "00000000"} {
				yield(c17Text{Text: s})
			}
		})
		r.Note("corruption_seeds", len(seeds))
		r.Sample("text", c17Text{Text: seeds[0]})
	}
}
