package props

import (
	"bytes"
	"encoding/hex"
	"fmt"
	"github.com/libsv/go-bk/bip32"
	"github.com/libsv/go-bk/chaincfg"
	"math/big"
	"strings"
	"sync"

	"github.com/libsv/go-bk/bec"
	"github.com/libsv/go-bt/v2"
	"github.com/libsv/go-bt/v2/bscript"

	"verif/internal/ref/sighashref"
	"verif/internal/rep"
)

const b58Alphabet = "123456789ABCDEFGHJKLMNPQRSTUVWXYZabcdefghijkmnopqrstuvwxyz"

// refB58Decode is plain Base58 with exact leading-zero accounting.
func refB58Decode(s string) ([]byte, bool) {
	n := new(big.Int)
	for i := 0; i < len(s); i++ {
		k := strings.IndexByte(b58Alphabet, s[i])
		if k < 0 {
			return nil, false
		}
		n.Mul(n, big.NewInt(58))
		n.Add(n, big.NewInt(int64(k)))
	}
	zeros := 0
	for zeros < len(s) && s[zeros] == '1' {
		zeros++
	}
	return append(make([]byte, zeros), n.Bytes()...), true
}

func refB58Encode(b []byte) string {
	n := new(big.Int).SetBytes(b)
	var out []byte
	m := new(big.Int)
	for n.Sign() > 0 {
		n.DivMod(n, big.NewInt(58), m)
		out = append(out, b58Alphabet[m.Int64()])
	}
	for _, c := range b {
		if c != 0 {
			break
		}
		out = append(out, '1')
	}
	for i, j := 0, len(out)-1; i < j; i, j = i+1, j-1 {
		out[i], out[j] = out[j], out[i]
	}
	return string(out)
}

// refAddrDecode: accepted iff well-formed Base58Check, 25 bytes, version 0x00/0x6f, checksum ok.
func refAddrDecode(s string) (hash []byte, ok bool) {
	d, ok := refB58Decode(s)
	if !ok || len(d) != 25 {
		return nil, false
	}
	if d[0] != 0x00 && d[0] != 0x6f {
		return nil, false
	}
	if !bytes.Equal(sighashref.Sha256d(d[:21])[:4], d[21:]) {
		return nil, false
	}
	return d[1:21], true
}

func refAddrEncode(hash []byte, mainnet bool) string {
	v := byte(0x00)
	if !mainnet {
		v = 0x6f
	}
	p := append([]byte{v}, hash...)
	return refB58Encode(append(p, sighashref.Sha256d(p)[:4]...))
}

func refP2PKH(hash []byte) []byte {
	return append(append([]byte{0x76, 0xa9, 0x14}, hash...), 0x88, 0xac)
}

type c15Str struct {
	S string `json:"s"`
}

func fundedTx() *bt.Tx {
	tx := bt.NewTx()
	_ = tx.FromUTXOs(&bt.UTXO{TxID: txid32(9), Vout: 0, Satoshis: 100000, LockingScript: bscript.NewFromBytes(refP2PKH(fill(20, 1)))})
	return tx
}

func c15StrCheck(c c15Str) (fs []rep.Finding) {
	hash, want := refAddrDecode(c.S)
	cls := func() string {
		d, ok := refB58Decode(c.S)
		switch {
		case !ok:
			return "non-base58"
		case len(d) != 25:
			return "wrong-length"
		case d[0] != 0 && d[0] != 0x6f:
			return "wrong-version"
		default:
			return "bad-checksum"
		}
	}
	report := func(api string, accepted bool, gotHash []byte) {
		if accepted && !want {
			fs = append(fs, rep.F("accepts-invalid|"+api+"|"+cls(), api+" accepted a string that is not a valid Base58Check P2PKH address"))
		}
		if !accepted && want {
			fs = append(fs, rep.F("rejects-valid|"+api, api+" rejected a valid address"))
		}
		if accepted && want && gotHash != nil && !bytes.Equal(gotHash, hash) {
			fs = append(fs, rep.F("wrong-hash|"+api, api+" decoded a different hash"))
		}
	}
	a, err := bscript.NewAddressFromString(c.S)
	var h []byte
	if err == nil {
		h, _ = hex.DecodeString(a.PublicKeyHash)
	}
	report("NewAddressFromString", err == nil, h)
	s, err := bscript.NewP2PKHFromAddress(c.S)
	h = nil
	if err == nil {
		if len(*s) == 25 {
			h = (*s)[3:23]
		}
		if want && !bytes.Equal(*s, refP2PKH(hash)) {
			fs = append(fs, rep.F("wrong-script|NewP2PKHFromAddress", "script is not the canonical P2PKH of the address hash"))
		}
	}
	report("NewP2PKHFromAddress", err == nil, h)
	tx := bt.NewTx()
	err = tx.PayToAddress(c.S, 1)
	report("PayToAddress", err == nil, nil)
	if err == nil && want && (len(tx.Outputs) != 1 || !bytes.Equal(*tx.Outputs[0].LockingScript, refP2PKH(hash))) {
		fs = append(fs, rep.F("wrong-script|PayToAddress", "output script is not the canonical P2PKH"))
	}
	tx2 := fundedTx()
	err = tx2.ChangeToAddress(c.S, bt.NewFeeQuote())
	report("ChangeToAddress", err == nil, nil)
	okv, _ := bscript.ValidateAddress(c.S)
	if !strings.HasPrefix(c.S, "bitcoin-script:") {
		report("ValidateAddress", okv, nil)
	}
	return
}

type c15Key struct {
	Hash    HB   `json:"hash,omitempty"`
	PrivKey HB   `json:"priv,omitempty"`
	Mainnet bool `json:"mainnet"`
}

func c15KeyCheck(c c15Key) (fs []rep.Finding) {
	hash := []byte(c.Hash)
	var pub []byte
	var pk *bec.PublicKey
	if len(c.PrivKey) > 0 {
		_, pk = bec.PrivKeyFromBytes(bec.S256(), c.PrivKey)
		pub = pk.SerialiseCompressed()
		hash = refHash160(pub)
	}
	wantAddr := refAddrEncode(hash, c.Mainnet)
	wantScript := refP2PKH(hash)
	// what the constructors are handed are windows of larger buffers (a hash cut out of a decoded
	// address, a key inside a message): the bytes behind them are the caller's too
	canary := bytes.Repeat([]byte{0xC5}, 16)
	hbuf := append(append(make([]byte, 0, 64), hash...), canary...)
	hashArg := hbuf[:len(hash)]
	var pbuf, pubArg []byte
	if pub != nil {
		pbuf = append(append(make([]byte, 0, 96), pub...), canary...)
		pubArg = pbuf[:len(pub)]
	}
	defer func() {
		if !bytes.Equal(hbuf[:len(hash)], hash) || !bytes.Equal(hbuf[len(hash):len(hash)+16], canary) ||
			(pub != nil && (!bytes.Equal(pbuf[:len(pub)], pub) || !bytes.Equal(pbuf[len(pub):len(pub)+16], canary))) {
			fs = append(fs, rep.F("argument-buffer-modified", "a constructor wrote into the caller's hash / key buffer or the bytes behind it"))
		}
	}()
	// the caller's buffers held ANOTHER hash / key a moment ago and were handed to the same constructors
	// (a loop that decodes each key into one reused buffer): what is built next is built from what the
	// buffer holds now
	{
		for i := range hashArg {
			hashArg[i] ^= 0x55
		}
		_, _ = bscript.NewP2PKHFromPubKeyHash(hashArg)
		_, _ = bscript.NewAddressFromPublicKeyHash(hashArg, c.Mainnet)
		_, _ = bscript.NewAddressFromPublicKeyHash(hashArg, !c.Mainnet)
		copy(hashArg, hash)
		if pub != nil {
			for i := 1; i < len(pubArg); i++ {
				pubArg[i] ^= 0x55
			}
			_, _ = bscript.NewP2PKHFromPubKeyBytes(pubArg)
			_ = bt.NewTx().AddP2PKHOutputFromPubKeyBytes(pubArg, 1)
			copy(pubArg, pub)
		}
	}
	chkAddr := func(api string, a *bscript.Address, err error) {
		if err != nil {
			fs = append(fs, rep.F("derive-error|"+api, err.Error()))
			return
		}
		if a.AddressString != wantAddr || a.PublicKeyHash != hex.EncodeToString(hash) {
			fs = append(fs, rep.F("derive-mismatch|"+api, fmt.Sprintf("got %s want %s", a.AddressString, wantAddr)))
		}
	}
	a, err := bscript.NewAddressFromPublicKeyHash(hashArg, c.Mainnet)
	chkAddr("NewAddressFromPublicKeyHash", a, err)
	if pub != nil {
		a, err = bscript.NewAddressFromPublicKey(pk, c.Mainnet)
		chkAddr("NewAddressFromPublicKey", a, err)
		a, err = bscript.NewAddressFromPublicKeyString(hex.EncodeToString(pub), c.Mainnet)
		chkAddr("NewAddressFromPublicKeyString", a, err)
	}
	// decode back
	back, err := bscript.NewAddressFromString(wantAddr)
	if err != nil || back.PublicKeyHash != hex.EncodeToString(hash) {
		fs = append(fs, rep.F("decode-back|NewAddressFromString", fmt.Sprintf("derived address does not decode to its hash (%v)", err)))
	}
	if ok, err := bscript.ValidateAddress(wantAddr); !ok {
		fs = append(fs, rep.F("decode-back|ValidateAddress", fmt.Sprintf("derived address does not validate (%v)", err)))
	}
	// every constructor gives the canonical script
	chk := func(api string, s *bscript.Script, err error) {
		if err != nil {
			fs = append(fs, rep.F("script-error|"+api, err.Error()))
			return
		}
		if !bytes.Equal(*s, wantScript) {
			fs = append(fs, rep.F("script-mismatch|"+api, fmt.Sprintf("got %x", []byte(*s))))
			return
		}
		if !s.IsP2PKH() || s.ScriptType() != bscript.ScriptTypePubKeyHash {
			fs = append(fs, rep.F("script-not-p2pkh|"+api, "constructed script not recognised as P2PKH"))
		}
		if h, err := s.PublicKeyHash(); err != nil || !bytes.Equal(h, hash) {
			fs = append(fs, rep.F("hash-not-recovered|"+api, "PublicKeyHash does not return the hash"))
		}
		if ad, err := s.Addresses(); err != nil || len(ad) != 1 || ad[0] != refAddrEncode(hash, true) {
			fs = append(fs, rep.F("address-not-recovered|"+api, fmt.Sprintf("Addresses() = %v", ad)))
		}
	}
	// a constructor must hand out a fresh script every time: extend / scribble over what it
	// returned and ask again
	again := func(api string, mk func() (*bscript.Script, error)) {
		s1, err := mk()
		if err != nil {
			return
		}
		_ = s1.AppendOpcodes(bscript.OpRETURN, bscript.OpDROP)
		for i := range *s1 {
			(*s1)[i] ^= 0xff
		}
		s2, err := mk()
		chk(api+"/second-call", s2, err)
	}
	again("NewP2PKHFromPubKeyHash", func() (*bscript.Script, error) { return bscript.NewP2PKHFromPubKeyHash(hashArg) })
	again("NewP2PKHFromPubKeyHashStr", func() (*bscript.Script, error) { return bscript.NewP2PKHFromPubKeyHashStr(hex.EncodeToString(hash)) })
	again("NewP2PKHFromAddress", func() (*bscript.Script, error) { return bscript.NewP2PKHFromAddress(wantAddr) })
	again("PayToAddress", func() (*bscript.Script, error) {
		tx := bt.NewTx()
		if err := tx.PayToAddress(wantAddr, 1); err != nil {
			return nil, err
		}
		return tx.Outputs[0].LockingScript, nil
	})
	if pub != nil {
		again("NewP2PKHFromPubKeyBytes", func() (*bscript.Script, error) { return bscript.NewP2PKHFromPubKeyBytes(pubArg) })
	}
	s, err := bscript.NewP2PKHFromPubKeyHash(hashArg)
	chk("NewP2PKHFromPubKeyHash", s, err)
	s, err = bscript.NewP2PKHFromPubKeyHashStr(hex.EncodeToString(hash))
	chk("NewP2PKHFromPubKeyHashStr", s, err)
	s, err = bscript.NewP2PKHFromAddress(wantAddr)
	chk("NewP2PKHFromAddress", s, err)
	out := func(api string, f func(tx *bt.Tx) error) {
		tx := bt.NewTx()
		if err := f(tx); err != nil {
			fs = append(fs, rep.F("script-error|"+api, err.Error()))
			return
		}
		chk(api, tx.Outputs[len(tx.Outputs)-1].LockingScript, nil)
	}
	out("PayToAddress", func(tx *bt.Tx) error { return tx.PayToAddress(wantAddr, 5) })
	out("AddP2PKHOutputFromAddress", func(tx *bt.Tx) error { return tx.AddP2PKHOutputFromAddress(wantAddr, 5) })
	out("AddP2PKHOutputFromPubKeyHashStr", func(tx *bt.Tx) error { return tx.AddP2PKHOutputFromPubKeyHashStr(hex.EncodeToString(hash), 5) })
	out("ChangeToAddress", func(tx *bt.Tx) error {
		*tx = *fundedTx()
		return tx.ChangeToAddress(wantAddr, bt.NewFeeQuote())
	})
	out("PayTo", func(tx *bt.Tx) error { return tx.PayTo(bscript.NewFromBytes(refP2PKH(hash)), 5) })
	if pub != nil {
		s, err = bscript.NewP2PKHFromPubKeyBytes(pubArg)
		chk("NewP2PKHFromPubKeyBytes", s, err)
		s, err = bscript.NewP2PKHFromPubKeyStr(hex.EncodeToString(pub))
		chk("NewP2PKHFromPubKeyStr", s, err)
		s, err = bscript.NewP2PKHFromPubKeyEC(pk)
		chk("NewP2PKHFromPubKeyEC", s, err)
		out("AddP2PKHOutputFromPubKeyBytes", func(tx *bt.Tx) error { return tx.AddP2PKHOutputFromPubKeyBytes(pubArg, 5) })
		out("AddP2PKHOutputFromPubKeyStr", func(tx *bt.Tx) error { return tx.AddP2PKHOutputFromPubKeyStr(hex.EncodeToString(pub), 5) })
	}
	if pub != nil && c.Mainnet {
		// from an extended key: the library picks a derivation path (its own randomness) and
		// reports it; whatever the path, the script is the canonical P2PKH of the key at that path
		if master, err := bip32.NewMaster(c.PrivKey, &chaincfg.MainNet); err == nil {
			for i := 0; i < 3; i++ {
				sc, path, err := bscript.NewP2PKHFromBip32ExtKey(master)
				tx := bt.NewTx()
				path2, err2 := tx.AddP2PKHOutputFromBip32ExtKey(master, 9)
				if err != nil || err2 != nil {
					fs = append(fs, rep.F("script-error|Bip32ExtKey", fmt.Sprint(err, err2)))
					break
				}
				for k, ps := range []struct {
					path string
					sc   *bscript.Script
				}{{path, sc}, {path2, tx.Outputs[0].LockingScript}} {
					kb, derr := master.DerivePublicKeyFromPath(ps.path)
					if derr != nil || !bytes.Equal(*ps.sc, refP2PKH(refHash160(kb))) || !ps.sc.IsP2PKH() {
						fs = append(fs, rep.F(fmt.Sprintf("script-mismatch|Bip32ExtKey|api=%d", k), "script is not the canonical P2PKH of the key at the reported derivation path "+ps.path))
					}
				}
			}
		}
	}
	return
}

func c15Hashes(thorough bool) [][]byte {
	hs := [][]byte{make([]byte, 20), bytes.Repeat([]byte{0xff}, 20)}
	h := make([]byte, 20)
	copy(h[2:], bytes.Repeat([]byte{0xab}, 18))
	hs = append(hs, h)
	h = make([]byte, 20)
	h[19] = 1
	hs = append(hs, h)
	n := 8
	if thorough {
		n = 24
	}
	for i := 0; i < n; i++ {
		x := fill(20, byte(i*37+1))
		if i%4 == 0 {
			x[0] = 0
		}
		if i%8 == 0 {
			x[1] = 0
		}
		hs = append(hs, x)
	}
	return hs
}

// c15ScriptLikeHashes: hashes that contain, at every position, the byte patterns a P2PKH script is
// made of or recognised by (a recogniser that searches the raw script bytes for a pattern finds it
// inside the pushed hash), and every value of the first byte. Derivation / recovery only.
func c15ScriptLikeHashes() (ks []c15Key) {
	pats := [][]byte{{0x88, 0xac}, {0x76, 0xa9}, {0xa9, 0x14}, {0x76, 0xa9, 0x14}, {0x14}, {0x6a}, {0x00, 0x6a}, {0x4c}, {0x4d}, {0x4e}, {0x88}, {0xac}, {0x88, 0x88, 0xac}, {0xac, 0x88}, {0x00, 0x63, 0x03, 0x6f, 0x72, 0x64}, {0x68}, {0x01}, {0x19}}
	for _, pt := range pats {
		for pos := 0; pos+len(pt) <= 20; pos++ {
			h := fill(20, 0x21)
			copy(h[pos:], pt)
			ks = append(ks, c15Key{Hash: h, Mainnet: true}, c15Key{Hash: h, Mainnet: false})
		}
	}
	for b := 0; b < 256; b++ {
		h := fill(20, 0x5b)
		h[0] = byte(b)
		ks = append(ks, c15Key{Hash: h, Mainnet: b%2 == 0})
		h2 := make([]byte, 20)
		h2[1], h2[19] = byte(b), byte(b)
		ks = append(ks, c15Key{Hash: h2, Mainnet: b%2 == 1})
	}
	return
}

// keysWithShortX returns private keys whose public X coordinate starts with a zero
// byte (about one key in 256): serialisations assembled from big.Int bytes lose it.
var shortXOnce sync.Once
var shortXKeys [][]byte

func keysWithShortX() [][]byte {
	shortXOnce.Do(func() {
		for i := 1; len(shortXKeys) < 2 && i < 20000; i++ {
			k := make([]byte, 32)
			k[30], k[31] = byte(i>>8), byte(i)
			_, pub := bec.PrivKeyFromBytes(bec.S256(), k)
			if c := pub.SerialiseCompressed(); c[1] == 0 {
				shortXKeys = append(shortXKeys, k)
			}
		}
	})
	return shortXKeys
}

func testPrivKeys(n int) [][]byte {
	out := [][]byte{}
	one := make([]byte, 32)
	one[31] = 1
	out = append(out, one)
	// n-1 of the curve order
	nm1 := new(big.Int).Sub(bec.S256().N, big.NewInt(1)).Bytes()
	out = append(out, nm1)
	for i := 0; len(out) < n; i++ {
		out = append(out, sighashref.Sha256d([]byte{byte(i), 0x5a}))
	}
	return out
}

func init() {
	p := register(&Prop{ID: "C15", Level: "exploration",
		Rule: "exhaustive: for 12 (quick) / 28 (thorough) 20-byte hashes (all-zero, leading zeros, all-ff, structured) and 6/12 keys, both networks: derivation through every address/P2PKH constructor (incl. the two extended-key constructors, whose derivation path is the library's own random choice and is followed by the oracle) compared with a reference Base58Check encoder and the canonical 25-byte script (derivation and recovery additionally for ~1,100 hashes that carry script-structure byte patterns - 88ac, 76a914, 6a, push headers, the ord envelope - at every position, and every first-byte value); and for every derived address EVERY single-character substitution (58 symbols x every position, plus 5 non-ASCII replacements per position: code points U+01xx/U+20xx/U+100xx whose low byte is the replaced character, the character with the high bit set, 0xff), adjacent transposition, insertion (58 symbols + 6 non-Base58 characters at every gap incl. a leading '1') and deletion, plus wrong version bytes (0x05,0xc4,0x01), 24/26-byte payloads with correct checksums and over-long strings whose value is the payload plus k*2^200 (k in 9 values incl. multiples of 58); keys include two whose X coordinate begins with a zero byte, well-formed BIP276 texts (which are not addresses) and texts that merely begin like the BIP276 script prefix; hash / key argument buffers that held another hash / key in an earlier call; each through NewAddressFromString, NewP2PKHFromAddress, PayToAddress, ChangeToAddress and ValidateAddress: accepted iff the reference decoder accepts. distinct_nontrivial = distinct strings judged",
	})
	sStr := NewSpace(p, "strings", c15StrCheck)
	sKey := NewSpace(p, "derive", c15KeyCheck)
	p.Run = func(r *rep.Run, thorough bool) {
		var keys []c15Key
		for _, h := range c15Hashes(thorough) {
			keys = append(keys, c15Key{Hash: h, Mainnet: true}, c15Key{Hash: h, Mainnet: false})
		}
		nk := 6
		if thorough {
			nk = 12
		}
		for _, k := range append(testPrivKeys(nk), keysWithShortX()...) {
			keys = append(keys, c15Key{PrivKey: k, Mainnet: true}, c15Key{PrivKey: k, Mainnet: false})
		}
		(&Space[c15Key]{P: p, Name: sKey.Name, Check: func(c c15Key) []rep.Finding {
			fs := c15KeyCheck(c)
			if len(fs) == 0 {
				r.Distinct("k", []byte(c.Hash), []byte(c.PrivKey), c.Mainnet)
			}
			return fs
		}}).Slice(r, append(append([]c15Key(nil), keys...), c15ScriptLikeHashes()...))
		r.Sample("derive", keys[2])
		// strings
		extra := []string{"0", "O", "I", "l", " ", "é"}
		(&Space[c15Str]{P: p, Name: sStr.Name, Check: func(c c15Str) []rep.Finding {
			fs := c15StrCheck(c)
			if len(fs) == 0 {
				r.Distinct("s", c.S)
			}
			return fs
		}}).Each(r, func(yield func(c15Str)) {
			for _, k := range keys {
				hash := []byte(k.Hash)
				if len(k.PrivKey) > 0 {
					_, pk := bec.PrivKeyFromBytes(bec.S256(), k.PrivKey)
					hash = refHash160(pk.SerialiseCompressed())
				}
				addr := refAddrEncode(hash, k.Mainnet)
				yield(c15Str{addr})
				for i := 0; i < len(addr); i++ {
					for _, ch := range b58Alphabet {
						if byte(ch) != addr[i] {
							yield(c15Str{addr[:i] + string(ch) + addr[i+1:]})
						}
					}
					for _, e := range extra {
						yield(c15Str{addr[:i] + e + addr[i+1:]})
					}
					// non-ASCII look-alikes: code points whose low byte is the replaced character, the
					// character with its high bit set, a byte that is not UTF-8 at all
					for _, e := range []string{string(rune(0x100 | int(addr[i]))), string(rune(0x2000 | int(addr[i]))), string([]byte{addr[i] | 0x80}), "\xff", string(rune(0x10000 | int(addr[i])))} {
						yield(c15Str{addr[:i] + e + addr[i+1:]})
					}
					yield(c15Str{addr[:i] + addr[i+1:]}) // deletion
					if i+1 < len(addr) && addr[i] != addr[i+1] {
						yield(c15Str{addr[:i] + string(addr[i+1]) + string(addr[i]) + addr[i+2:]})
					}
				}
				for i := 0; i <= len(addr); i++ {
					for _, ch := range b58Alphabet {
						yield(c15Str{addr[:i] + string(ch) + addr[i:]})
					}
					for _, e := range extra {
						yield(c15Str{addr[:i] + e + addr[i:]})
					}
				}
				// wrong versions / lengths with a correct checksum
				for _, v := range []byte{0x05, 0xc4, 0x01, 0x6e} {
					pl := append([]byte{v}, hash...)
					yield(c15Str{refB58Encode(append(pl, sighashref.Sha256d(pl)[:4]...))})
				}
				for _, hl := range []int{19, 21} {
					pl := append([]byte{0x00}, fill(hl, 7)...)
					yield(c15Str{refB58Encode(append(pl, sighashref.Sha256d(pl)[:4]...))})
				}
				// strings whose Base58 value is the payload plus a multiple of 2^200 (a fixed-width
				// decoder that loses an overflow would read them as the valid address)
				{
					pl := append([]byte{0x00}, hash...)
					if !k.Mainnet {
						pl[0] = 0x6f
					}
					full := append(pl, sighashref.Sha256d(pl)[:4]...)
					v := new(big.Int).SetBytes(full)
					zeros := 0
					for zeros < len(full) && full[zeros] == 0 {
						zeros++
					}
					for _, mul := range []int64{1, 2, 57, 58, 59, 116, 58 * 58, 58*58*58 + 58, 255} {
						w := new(big.Int).Add(v, new(big.Int).Mul(big.NewInt(mul), new(big.Int).Lsh(big.NewInt(1), 200)))
						enc := refB58Encode(w.Bytes())
						yield(c15Str{strings.Repeat("1", zeros) + enc})
						yield(c15Str{enc})
					}
				}
				// well-formed BIP276 texts (ValidateAddress knows them, but they are not addresses: nothing that
				// builds a P2PKH locking script from an address may accept one)
				for _, pl := range [][]byte{refP2PKH(hash), {0x51}, {0x00, 0x6a}, c14Templates()["ms1of1"]} {
					for _, pf := range []string{bscript.PrefixScript, bscript.PrefixTemplate} {
						for _, vn := range [][2]int{{1, 1}, {2, 2}, {1, 2}} {
							yield(c15Str{bscript.EncodeBIP276(bscript.BIP276{Prefix: pf, Version: vn[0], Network: vn[1], Data: pl})})
						}
					}
				}
				// texts that merely BEGIN like the BIP276 script prefix (checksum valid for the text as it is)
				for _, pf := range []string{"bitcoin-scripthash", "bitcoin-scripts", "bitcoin-script-v2", "bitcoin-script ", "bitcoin-script" + addr} {
					yield(c15Str{bscript.EncodeBIP276(bscript.BIP276{Prefix: pf, Version: 1, Network: 1, Data: refP2PKH(hash)})})
				}
				yield(c15Str{""})
				yield(c15Str{"1"})
				yield(c15Str{strings.Repeat("1", 25)})
				yield(c15Str{strings.Repeat("1", 34)})
				yield(c15Str{addr + addr})
			}
		})
		r.Sample("strings", c15Str{"1BgGZ9tcN4rm9KBzDn7KprQz87SZ26SAMH"})
	}
}
