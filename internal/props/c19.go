package props

import (
	"bytes"
	"fmt"
	"sync"

	"github.com/libsv/go-bt/v2"
	"github.com/libsv/go-bt/v2/bscript/interpreter"
	"github.com/libsv/go-bt/v2/bscript/interpreter/debug"
	"github.com/libsv/go-bt/v2/bscript/interpreter/scriptflag"

	"verif/internal/ref/scriptref"
	"verif/internal/rep"
)

// lifecycle checks a callback trace against the documented order:
//
//	Trace := "" | E Step* [Abort] e Stk* (Y|N)
//	Step  := S O Stk* o Stk* [C c] Stk* s   (an aborted step may stop anywhere; the step of a terminating OP_RETURN goes from O straight to the script change)
//	Stk   := (P p | Q q)
//	Abort := a proper prefix of Step, possibly ending in one unmatched Q
//
// Letters: E/e before/after execute, S/s step, O/o opcode, C/c script change,
// P/p push, Q/q pop, Y success, N error.
func lifecycle(tr []byte, ok bool) string {
	if len(tr) == 0 {
		if ok {
			return "no callbacks on a successful execution"
		}
		return ""
	}
	i := 0
	peek := func() byte {
		if i < len(tr) {
			return tr[i]
		}
		return 0
	}
	stk := func() (dangling bool) {
		for {
			switch peek() {
			case 'P':
				if i+1 >= len(tr) || tr[i+1] != 'p' {
					return true // a push cannot fail
				}
				i += 2
			case 'Q':
				if i+1 < len(tr) && tr[i+1] == 'q' {
					i += 2
				} else {
					i++
					return true
				}
			default:
				return false
			}
		}
	}
	if peek() != 'E' {
		return fmt.Sprintf("first callback is %q, not BeforeExecute", peek())
	}
	i++
	aborted := false
	for peek() != 'e' && !aborted {
		if peek() != 'S' {
			return fmt.Sprintf("position %d: %q where BeforeStep or AfterExecute is expected", i, peek())
		}
		i++
		if peek() == 'e' {
			aborted = true
			break
		}
		if peek() != 'O' {
			return fmt.Sprintf("position %d: %q after BeforeStep, BeforeExecuteOpcode expected", i, peek())
		}
		i++
		if stk() {
			aborted = true
			break
		}
		sawAfterOpcode := false
		if peek() == 'o' {
			sawAfterOpcode = true
			i++
			if stk() {
				aborted = true
				break
			}
		}
		changed := false
		if peek() == 'C' {
			changed = true
			if i+1 >= len(tr) || tr[i+1] != 'c' {
				return fmt.Sprintf("position %d: BeforeScriptChange without AfterScriptChange", i)
			}
			i += 2
			if stk() {
				aborted = true
				break
			}
		}
		if peek() == 's' {
			if !sawAfterOpcode && !changed {
				return fmt.Sprintf("position %d: a step that completed (AfterStep) never fired AfterExecuteOpcode", i)
			}
			i++
			continue
		}
		aborted = true
	}
	if peek() != 'e' {
		return fmt.Sprintf("position %d: %q where AfterExecute is expected", i, peek())
	}
	i++
	if aborted {
		if peek() != 'N' || i+1 != len(tr) {
			return fmt.Sprintf("position %d: an aborted step must be followed by AfterExecute, AfterError and nothing else (trace %s)", i, tr)
		}
		if ok {
			return "AfterError fired on a successful execution"
		}
		return ""
	}
	if stk() && peek() != 'N' {
		return fmt.Sprintf("position %d: failed stack operation in the final check not followed by AfterError", i)
	}
	switch peek() {
	case 'Y':
		if !ok {
			return "AfterSuccess fired although Execute returned an error"
		}
	case 'N':
		if ok {
			return "AfterError fired although Execute returned nil"
		}
	default:
		return fmt.Sprintf("position %d: %q where AfterSuccess/AfterError is expected", i, peek())
	}
	if i+1 != len(tr) {
		return fmt.Sprintf("callbacks after the final %q", peek())
	}
	return ""
}

func fanOut(r *recorder) debug.DefaultDebugger {
	d := debug.NewDebugger()
	d.AttachBeforeExecute(r.BeforeExecute)
	d.AttachAfterExecute(r.AfterExecute)
	d.AttachBeforeStep(r.BeforeStep)
	d.AttachAfterStep(r.AfterStep)
	d.AttachBeforeExecuteOpcode(r.BeforeExecuteOpcode)
	d.AttachAfterExecuteOpcode(r.AfterExecuteOpcode)
	d.AttachBeforeScriptChange(r.BeforeScriptChange)
	d.AttachAfterScriptChange(r.AfterScriptChange)
	d.AttachAfterSuccess(r.AfterSuccess)
	d.AttachAfterError(r.AfterError)
	d.AttachBeforeStackPush(r.BeforeStackPush)
	d.AttachAfterStackPush(r.AfterStackPush)
	d.AttachBeforeStackPop(r.BeforeStackPop)
	d.AttachAfterStackPop(r.AfterStackPop)
	return d
}

func errText(e error) string {
	if e == nil {
		return "<nil>"
	}
	return e.Error()
}

type c19Out struct {
	fs    []rep.Finding
	trace string
	steps int
}

func c19Run(c scriptCase) (out c19Out) {
	add := func(f rep.Finding) { out.fs = append(out.fs, f) }
	e := era(c.Flags)
	plainErr, _, _, _, _ := libRun(c, nil)
	rec := &recorder{}
	recErr, _, _, _, _ := libRun(c, rec)
	scr := &recorder{scribble: true}
	scrErr, _, _, _, _ := libRun(c, scr)
	fan := &recorder{}
	fanErr, _, _, _, _ := libRun(c, fanOut(fan))
	fscr := &recorder{scribble: true}
	fscrErr, _, _, _, _ := libRun(c, fanOut(fscr))
	out.trace = string(rec.trace)
	out.steps = len(rec.steps)
	for _, ne := range []struct {
		name string
		err  error
	}{{"recording", recErr}, {"scribbling", scrErr}, {"fan-out", fanErr}, {"fan-out-scribbling", fscrErr}} {
		name, err := ne.name, ne.err
		if errText(err) != errText(plainErr) {
			add(rep.F("verdict-changes-with-debugger|"+name+"|"+e, fmt.Sprintf("without debugger: %s; with %s debugger: %s", errText(plainErr), name, errText(err))))
		}
	}
	if msg := lifecycle(rec.trace, recErr == nil); msg != "" {
		add(rep.F("lifecycle-order|"+e, msg+" — trace "+string(rec.trace)))
	}
	if !bytes.Equal(rec.trace, fan.trace) {
		add(rep.F("fan-out-trace-differs|"+e, fmt.Sprintf("direct %s vs debug.NewDebugger %s", rec.trace, fan.trace)))
	}
	if msg := rec.retainedChanged(); msg != "" {
		add(rep.F("kept-snapshot-changes-later|"+e, "a snapshot kept by the debugger was changed by the running execution: "+msg))
	}
	if rec.badState != "" {
		add(rep.F("snapshot-indices-inconsistent|"+e, "a State handed to a callback has "+rec.badState))
	}
	for _, no := range []struct {
		name  string
		other *recorder
	}{{"scribbling", scr}, {"fan-out-scribbling", fscr}} {
		name, other := no.name, no.other
		if !bytes.Equal(rec.trace, other.trace) {
			add(rep.F("scribbling-changes-callbacks|"+name+"|"+e, fmt.Sprintf("recording %s vs %s %s", rec.trace, name, other.trace)))
			continue
		}
		if len(rec.steps) != len(other.steps) {
			add(rep.F("scribbling-changes-snapshots|"+name+"|"+e, "number of step snapshots differs"))
			continue
		}
		// every State, at every callback, as it arrives: the same in both runs (a snapshot object
		// handed to two callbacks would show the second one what the first one did to it)
		if len(rec.digests) == len(other.digests) {
			for i := range rec.digests {
				if rec.digests[i] != other.digests[i] {
					add(rep.F("scribbling-changes-later-states|"+name+"|"+e, fmt.Sprintf("the State handed to callback %d (%c) differs from the one a read-only debugger is handed there", i, traceAt(rec.trace, i))))
					break
				}
			}
		}
		for i := range rec.steps {
			if !eqStack(rec.steps[i].Stack, other.steps[i].Stack) || !eqStack(rec.steps[i].Alt, other.steps[i].Alt) {
				add(rep.F("scribbling-changes-snapshots|"+name+"|"+e, fmt.Sprintf("snapshot %d: %s vs %s", i, fmtStack(rec.steps[i].Stack), fmtStack(other.steps[i].Stack))))
				break
			}
		}
	}
	// consecutive snapshots are consistent with the instruction between them (reference lockstep)
	lr := lockstep(c, scriptref.ECDSACheck)
	for _, f := range lr.fs {
		if len(f.Key) > 5 && f.Key[:5] == "step|" {
			f.Key = "snapshot-inconsistent|" + f.Key
			add(f)
		}
	}
	return
}

func c19Check(c scriptCase) []rep.Finding { return c19Run(c).fs }

var _ interpreter.Debugger = (*recorder)(nil)

func init() {
	p := register(&Prop{ID: "C19", Level: "model_checking",
		Rule: "explicit-state exploration of the real interpreter, each program executed five ways (no debugger, recording debugger, debugger that scribbles over every byte of every stack/cond/saved-stack item and every scalar of every *State it is handed, and both again through debug.NewDebugger's fan-out with all 14 attach points): (1) identical verdict and error text in all runs; (2) the callback trace is accepted by the lifecycle automaton Trace := E Step* [Abort] e Stk* (Y|N), Step := S O Stk* o Stk* [C c] Stk* s (an aborted step may stop anywhere; a completed one fires every hook, except that the step of a terminating OP_RETURN goes from O straight to the script change), and success/error callback matches the verdict; (3) the scribbling runs produce the same callback trace, the same AfterStep snapshot sequence and - callback by callback - are handed the same State (stacks, condition stack, counters, indices; compared as it arrives) as the recording run; (4) consecutive snapshots agree with the reference machine's effect of the instruction between them, and the stack items of every snapshot handed to the first 96 callbacks, kept by the debugger without copying, still read the same when the execution has finished; the snapshot handed to AfterScriptChange shows an empty alt stack (it does not survive a script boundary). Spaces: every byte string of length<=2 as locking script x 4 seed unlocking scripts x 2 eras (length 3 over a 48-symbol alphabet when thorough), every opcode x operand tuples of arity<=2 over 10 edge operands x 2 eras, the control-flow program search of C05 (depth 5/6), P2SH (pre-genesis, saved first stack) / limit / OP_RETURN templates, signature spends. states = distinct callback traces, transitions = callbacks checked",
	})
	NewSpace(p, "exec", c19Check)
	spState := NewSpace(p, "resume", c19StateCheck)
	p.Run = func(r *rep.Run, thorough bool) {
		if _, err := scriptref.Anchor(vectorsDir() + "/script_tests.json"); err != nil {
			r.HarnessError("script reference failed its anchor: " + err.Error())
			return
		}
		var mu sync.Mutex
		traces, callbacks := 0, 0
		chk := func(c scriptCase) []rep.Finding {
			o := c19Run(c)
			mu.Lock()
			traces++
			callbacks += len(o.trace)
			mu.Unlock()
			if len(o.fs) == 0 {
				r.Distinct(o.trace)
			}
			return o.fs
		}
		sp := &Space[scriptCase]{P: p, Name: "exec", Check: chk}
		seeds := [][]byte{nil, {0x51}, {0x00, 0x51}, {0x02, 0x01, 0x02, 0x51, 0x52}}
		flagSets := []uint32{0, fGenesis}
		for l := 0; l <= 2; l++ {
			n := uint64(1) << (8 * l)
			ll := l
			combos := uint64(len(seeds) * len(flagSets))
			sp.Indexed(r, n*combos, func(i uint64) scriptCase {
				k := i % combos
				i /= combos
				b := make([]byte, ll)
				for j := ll - 1; j >= 0; j-- {
					b[j] = byte(i)
					i >>= 8
				}
				return scriptCase{Unlock: seeds[k%uint64(len(seeds))], Lock: b, Flags: flagSets[k/uint64(len(seeds))]}
			})
		}
		if thorough {
			var alpha []byte
			for b := 0; b < 256; b++ {
				if b <= 2 || (b >= 0x4c && b <= 0x53) || (b >= 0x61 && b <= 0x6c) || b == 0x76 || b == 0x7f || b == 0x81 || b == 0x87 || b == 0x93 || b == 0x98 || b == 0xa9 || b == 0xac || b == 0xae || b == 0xb1 || b == 0xff || b%32 == 5 {
					alpha = append(alpha, byte(b))
				}
			}
			na := uint64(len(alpha))
			sp.Indexed(r, na*na*na*2, func(i uint64) scriptCase {
				f := flagSets[i%2]
				i /= 2
				return scriptCase{Unlock: []byte{0x51}, Lock: []byte{alpha[i/(na*na)], alpha[i/na%na], alpha[i%na]}, Flags: f}
			})
		}
		E := edgeOperands(false)[:10]
		sp.Each(r, func(yield func(scriptCase)) {
			for op := 0; op < 256; op++ {
				lock := lockFor(byte(op))
				for _, f := range []uint32{0, fGenesis, fMinData | fMinIf} {
					yield(scriptCase{Lock: lock, Flags: f})
					for _, a := range E {
						yield(scriptCase{Unlock: pushAll(a), Lock: lock, Flags: f})
						for _, b := range E {
							yield(scriptCase{Unlock: pushAll(a, b), Lock: lock, Flags: f})
						}
					}
				}
			}
		})
		c19BFS(r, p, chk, thorough)
		c05Templates(r, p, func(c scriptCase) []rep.Finding { return chk(c) }, thorough)
		sp.Slice(r, c08SigCases())
		// resumed executions (WithState) with and without a debugger
		var rs []scriptCase
		for op := 0; op < 256; op++ {
			for _, f := range []uint32{0, fGenesis} {
				rs = append(rs, scriptCase{Unlock: pushAll([]byte{0x02}, []byte{0x01}), Lock: append(lockFor(byte(op)), 0x51), Flags: f})
				rs = append(rs, scriptCase{Unlock: pushAll([]byte{0x05}, []byte{}), Lock: bytesJoin([]byte{0x63}, lockFor(byte(op)), []byte{0x67, 0x51, 0x68, 0x51}), Flags: f})
			}
		}
		spState.Slice(r, rs)
		r.Note("resumed_execution_cases", len(rs))
		r.Note("states", r.DistinctCount())
		r.Note("transitions", callbacks)
		r.Note("traces_validated_against_impl", traces)
		r.Sample("exec", map[string]any{"case": scriptCase{Unlock: HB{0x51}, Lock: HB{0x76, 0x87}, Flags: 0}, "trace": "E SOPpos SOQqPpos SOQqQqPpos... e Qq Y"})
	}
}

func c19BFS(r *rep.Run, p *Prop, chk func(scriptCase) []rep.Finding, thorough bool) {
	syms := ctlAlphabet()
	depth := 5
	if thorough {
		depth = 6
	}
	for _, f := range []uint32{0, fGenesis} {
		for _, seed := range [][]byte{nil, {0x51}, {0x00}} {
			seen := map[string]struct{}{}
			frontier := [][]int{{}}
			for d := 0; d < depth && len(frontier) > 0; d++ {
				var cases []scriptCase
				var paths [][]int
				for _, path := range frontier {
					for si := range syms {
						np := append(append([]int(nil), path...), si)
						var lock []byte
						for _, k := range np {
							lock = append(lock, syms[k]...)
						}
						cases = append(cases, scriptCase{Unlock: seed, Lock: lock, Flags: f})
						paths = append(paths, np)
					}
				}
				(&Space[scriptCase]{P: p, Name: "exec", Check: chk}).Slice(r, cases)
				var next [][]int
				for i, c := range cases {
					rt, amt := c.ctx()
					key, alive := scriptref.Explore(c.Unlock, c.Lock, c.Flags, &scriptref.TxCtx{Tx: rt, Idx: 0, Amount: amt})
					if !alive {
						continue
					}
					var syn [][]byte
					for _, k := range paths[i] {
						syn = append(syn, syms[k])
					}
					key += fmt.Sprintf("|syn%d", syntacticNesting(syn))
					if _, ok := seen[key]; !ok {
						seen[key] = struct{}{}
						next = append(next, paths[i])
					}
				}
				frontier = next
			}
		}
	}
}

// ---- WithState: a resumed execution has the same verdict with and without a debugger ----

type stateGrabber struct {
	recorder
	states []*interpreter.State
}

func (g *stateGrabber) BeforeStep(s *interpreter.State) {
	if len(g.states) < 6 {
		g.states = append(g.states, copyState(s))
	}
	g.recorder.BeforeStep(s)
}

func copyState(s *interpreter.State) *interpreter.State {
	c := *s
	cp := func(st [][]byte) [][]byte {
		out := make([][]byte, len(st))
		for i := range st {
			out[i] = append([]byte{}, st[i]...)
		}
		return out
	}
	c.DataStack, c.AltStack, c.ElseStack, c.SavedFirstStack = cp(s.DataStack), cp(s.AltStack), cp(s.ElseStack), cp(s.SavedFirstStack)
	c.CondStack = append([]int(nil), s.CondStack...)
	c.Scripts = make([]interpreter.ParsedScript, len(s.Scripts))
	for i := range s.Scripts {
		c.Scripts[i] = append(interpreter.ParsedScript(nil), s.Scripts[i]...)
	}
	return &c
}

func c19StateCheck(c scriptCase) (fs []rep.Finding) {
	g := &stateGrabber{}
	_, _, _, _, _ = libRun(c, g)
	var states []*interpreter.State
	for _, st := range g.states {
		// the state as captured, and with the truth value of the top stack item inverted (a
		// resumed run then ends differently from a run from the start)
		states = append(states, st)
		if n := len(st.DataStack); n > 0 {
			m := copyState(st)
			if scriptref.CastToBool(m.DataStack[n-1]) {
				m.DataStack[n-1] = []byte{}
			} else {
				m.DataStack[n-1] = []byte{0x01}
			}
			states = append(states, m)
		}
	}
	for k, st := range states {
		st := st
		run := func(dbg interpreter.Debugger) (res string) {
			if f := rep.Guard(func() {
				rt, amount := c.ctx()
				tx := toLib(rt)
				prev := &bt.Output{Satoshis: amount, LockingScript: libScript(c.Lock)}
				opts := []interpreter.ExecutionOptionFunc{interpreter.WithTx(tx, c.idx(), prev), interpreter.WithFlags(scriptflag.Flag(c.Flags)), interpreter.WithState(copyState(st))}
				if dbg != nil {
					opts = append(opts, interpreter.WithDebugger(dbg))
				}
				res = errText(interpreter.NewEngine().Execute(opts...))
			}); f != nil {
				res = "panic: " + f.Key
			}
			return
		}
		plain, with := run(nil), run(&recorder{})
		// the same State value resumed twice (not a copy): the second run is the first one again
		shared := copyState(st)
		twice := func() string {
			res := ""
			if f := rep.Guard(func() {
				rt, amount := c.ctx()
				tx := toLib(rt)
				prev := &bt.Output{Satoshis: amount, LockingScript: libScript(c.Lock)}
				res = errText(interpreter.NewEngine().Execute(interpreter.WithTx(tx, c.idx(), prev), interpreter.WithFlags(scriptflag.Flag(c.Flags)), interpreter.WithState(shared), interpreter.WithDebugger(&recorder{})))
			}); f != nil {
				res = "panic: " + f.Key
			}
			return res
		}
		if a, b := twice(), twice(); a != b {
			fs = append(fs, rep.F("resumed-state-consumed|"+era(c.Flags), fmt.Sprintf("the same captured state (before step %d) resumed twice: first %s, then %s", k, a, b)))
			break
		}
		if plain != with {
			fs = append(fs, rep.F("verdict-changes-with-debugger|resumed-from-state|"+era(c.Flags), fmt.Sprintf("execution resumed (WithState) from the state before step %d: without debugger %s, with debugger %s", k, plain, with)))
			break
		}
	}
	return
}

func traceAt(t []byte, i int) byte {
	if i >= 0 && i < len(t) {
		return t[i]
	}
	return '?'
}
