// Package sighashref is the reference model of the two signature-hash
// algorithms (original Satoshi and FORKID/BIP143-style), taking a 32-bit hash
// type like the node does. It is certified against the node's own vectors
// (sighash_legacy.json, sighash_bip143.json) by Anchor before it judges the library.
package sighashref

import (
	"crypto/sha256"
	"encoding/binary"
	"encoding/hex"
	"encoding/json"
	"fmt"
	"os"

	"verif/internal/ref/txref"
)

func u32(v uint32) []byte { b := make([]byte, 4); binary.LittleEndian.PutUint32(b, v); return b }
func u64(v uint64) []byte { b := make([]byte, 8); binary.LittleEndian.PutUint64(b, v); return b }

func rev(b []byte) []byte {
	o := make([]byte, len(b))
	for i := range b {
		o[len(b)-1-i] = b[i]
	}
	return o
}

// Sha256d is double SHA-256.
func Sha256d(b []byte) []byte {
	h := sha256.Sum256(b)
	h = sha256.Sum256(h[:])
	return h[:]
}

const (
	All          = 1
	None         = 2
	Single       = 3
	ForkID       = 0x40
	AnyOneCanPay = 0x80
)

// One is the legacy SIGHASH_SINGLE-bug digest.
var One = append([]byte{1}, make([]byte, 31)...)

// StripCodeSeparators removes OP_CODESEPARATOR at opcode boundaries; an
// unparsable tail is copied through unchanged.
func StripCodeSeparators(s []byte) []byte {
	out := make([]byte, 0, len(s))
	i := 0
	for i < len(s) {
		op := s[i]
		n := 0
		switch {
		case op >= 1 && op <= 75:
			n = int(op)
		case op == 0x4c:
			if i+1 >= len(s) {
				return append(out, s[i:]...)
			}
			n = 1 + int(s[i+1])
		case op == 0x4d:
			if i+2 >= len(s) {
				return append(out, s[i:]...)
			}
			n = 2 + int(binary.LittleEndian.Uint16(s[i+1:]))
		case op == 0x4e:
			if i+4 >= len(s) {
				return append(out, s[i:]...)
			}
			n = 4 + int(binary.LittleEndian.Uint32(s[i+1:]))
		}
		if i+1+n > len(s) || n < 0 {
			return append(out, s[i:]...)
		}
		if op != 0xab {
			out = append(out, s[i:i+1+n]...)
		}
		i += 1 + n
	}
	return out
}

// LegacyPreimage is the original algorithm's serialisation. single=true means
// the SIGHASH_SINGLE bug applies (digest is One, no preimage).
func LegacyPreimage(t *txref.Tx, idx int, scriptCode []byte, hashType uint32) (pre []byte, single bool) {
	base := hashType & 0x1f
	if base == Single && idx >= len(t.Outs) {
		return nil, true
	}
	var b []byte
	b = append(b, u32(t.Version)...)
	acp := hashType&AnyOneCanPay != 0
	if acp {
		b = append(b, 1)
	} else {
		b = append(b, txref.VarInt(uint64(len(t.Ins)))...)
	}
	for i, in := range t.Ins {
		if acp && i != idx {
			continue
		}
		b = append(b, rev(in.TxID)...)
		b = append(b, u32(in.Vout)...)
		if i == idx {
			b = append(b, txref.VarInt(uint64(len(scriptCode)))...)
			b = append(b, scriptCode...)
			b = append(b, u32(in.Seq)...)
		} else {
			b = append(b, 0)
			if base == Single || base == None {
				b = append(b, u32(0)...)
			} else {
				b = append(b, u32(in.Seq)...)
			}
		}
	}
	switch base {
	case None:
		b = append(b, 0)
	case Single:
		b = append(b, txref.VarInt(uint64(idx+1))...)
		for i := 0; i < idx; i++ {
			b = append(b, u64(^uint64(0))...)
			b = append(b, 0)
		}
		o := t.Outs[idx]
		b = append(b, u64(o.Sats)...)
		b = append(b, txref.VarInt(uint64(len(o.Script)))...)
		b = append(b, o.Script...)
	default:
		b = append(b, txref.VarInt(uint64(len(t.Outs)))...)
		for _, o := range t.Outs {
			b = append(b, u64(o.Sats)...)
			b = append(b, txref.VarInt(uint64(len(o.Script)))...)
			b = append(b, o.Script...)
		}
	}
	b = append(b, u32(t.LockTime)...)
	b = append(b, u32(hashType)...)
	return b, false
}

// LegacyDigest is the signature hash of the original algorithm.
func LegacyDigest(t *txref.Tx, idx int, scriptCode []byte, hashType uint32) []byte {
	pre, single := LegacyPreimage(t, idx, scriptCode, hashType)
	if single {
		return One
	}
	return Sha256d(pre)
}

// ForkIDPreimage is the replay-protected (BIP143-style) preimage.
func ForkIDPreimage(t *txref.Tx, idx int, scriptCode []byte, amount uint64, hashType uint32) []byte {
	base := hashType & 0x1f
	acp := hashType&AnyOneCanPay != 0
	zero := make([]byte, 32)
	hashPrevouts, hashSequence, hashOutputs := zero, zero, zero
	if !acp {
		var b []byte
		for _, in := range t.Ins {
			b = append(b, rev(in.TxID)...)
			b = append(b, u32(in.Vout)...)
		}
		hashPrevouts = Sha256d(b)
	}
	if !acp && base != Single && base != None {
		var b []byte
		for _, in := range t.Ins {
			b = append(b, u32(in.Seq)...)
		}
		hashSequence = Sha256d(b)
	}
	ser := func(o txref.Out) []byte {
		var b []byte
		b = append(b, u64(o.Sats)...)
		b = append(b, txref.VarInt(uint64(len(o.Script)))...)
		return append(b, o.Script...)
	}
	if base != Single && base != None {
		var b []byte
		for _, o := range t.Outs {
			b = append(b, ser(o)...)
		}
		hashOutputs = Sha256d(b)
	} else if base == Single && idx < len(t.Outs) {
		hashOutputs = Sha256d(ser(t.Outs[idx]))
	}
	in := t.Ins[idx]
	var p []byte
	p = append(p, u32(t.Version)...)
	p = append(p, hashPrevouts...)
	p = append(p, hashSequence...)
	p = append(p, rev(in.TxID)...)
	p = append(p, u32(in.Vout)...)
	p = append(p, txref.VarInt(uint64(len(scriptCode)))...)
	p = append(p, scriptCode...)
	p = append(p, u64(amount)...)
	p = append(p, u32(in.Seq)...)
	p = append(p, hashOutputs...)
	p = append(p, u32(t.LockTime)...)
	p = append(p, u32(hashType)...)
	return p
}

// ForkIDDigest is the double hash of the FORKID preimage.
func ForkIDDigest(t *txref.Tx, idx int, scriptCode []byte, amount uint64, hashType uint32) []byte {
	return Sha256d(ForkIDPreimage(t, idx, scriptCode, amount, hashType))
}

// Anchor validates the reference against the node vectors shipped in the
// repository; returns the number of vectors matched.
func Anchor(dataDir string) (int, error) {
	total := 0
	for _, f := range []struct {
		file   string
		forkid bool
	}{{"sighash_legacy.json", false}, {"sighash_bip143.json", true}} {
		b, err := os.ReadFile(dataDir + "/" + f.file)
		if err != nil {
			return total, err
		}
		var rows [][]any
		if err := json.Unmarshal(b, &rows); err != nil {
			return total, err
		}
		for ri, row := range rows {
			if len(row) != 5 {
				continue
			}
			raw, _ := hex.DecodeString(row[0].(string))
			script, _ := hex.DecodeString(row[1].(string))
			idx := int(row[2].(float64))
			ht := uint32(int32(row[3].(float64)))
			want := row[4].(string)
			p, err := txref.Parse(raw)
			if err != nil || p.Used != len(raw) {
				return total, fmt.Errorf("%s row %d: reference parser rejects the vector transaction: %v", f.file, ri, err)
			}
			var got []byte
			if f.forkid {
				got = ForkIDDigest(p.Tx, idx, script, 0, ht)
			} else {
				got = LegacyDigest(p.Tx, idx, StripCodeSeparators(script), ht)
			}
			if hex.EncodeToString(rev(got)) != want {
				return total, fmt.Errorf("%s row %d: reference digest %x != vector %s", f.file, ri, rev(got), want)
			}
			total++
		}
	}
	return total, nil
}
