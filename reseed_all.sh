#!/bin/bash
# Re-confirms every seeded change against the current /repo HEAD (scratch worktrees, 5 at a time).
# A seed is re-run with the check recorded at its confirmation (normally its own property's).
cd "$(dirname "$0")"
ls -d seeded/*/ | sed 's#/$##' | xargs -P 5 -I{} sh -c 'n=$(basename {}); c=$(jq -r ".confirmed_by_framework_author.check_run // \"\"" {}/meta.json | sed -n "s#^./check.sh \(C[0-9]*\) .*#\1#p"); if [ -n "$c" ]; then python3 seedtest.py {} --check $c --keep $n > /tmp/reseed_$n.json 2>&1; else python3 seedtest.py {} --keep $n > /tmp/reseed_$n.json 2>&1; fi'
python3 - <<'PY'
import json,glob
bad=0
for f in sorted(glob.glob('/verif/seeded/*/meta.json')):
    c=json.load(open(f)).get('confirmed_by_framework_author',{})
    ok=all(c.get(k) for k in ['demo_passes_on_unchanged_tree','demo_fails_with_change','existing_suite_passes_with_change','check_detects'])
    print(f.split('/')[-2], c.get('against_repo_commit'), 'OK' if ok else 'NOT-CONFIRMED %s'%c)
    bad+= (not ok)
print('not confirmed:',bad)
PY
