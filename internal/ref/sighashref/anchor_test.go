package sighashref

import "testing"

func TestAnchor(t *testing.T) {
	n, err := Anchor("/repo/bscript/interpreter/data")
	if err != nil {
		t.Fatal(n, err)
	}
	t.Log("vectors matched:", n)
}
