package props

import (
	"bytes"
	"encoding/hex"
	"fmt"
	"github.com/libsv/go-bk/bec"
	"math/big"
	"os"
	"strings"
	"sync"
	"verif/internal/ref/sighashref"

	"verif/internal/ref/scriptref"
	"verif/internal/ref/txref"
	"verif/internal/rep"
)

const (
	fStrict    = scriptref.StrictEnc
	fDER       = scriptref.DERSig
	fLowS      = scriptref.LowS
	fNullDummy = scriptref.NullDummy
	fNullFail  = scriptref.NullFail
	fForkID    = scriptref.ForkID
)

var sigFlagBits = []uint32{fStrict, fDER, fLowS, fNullDummy, fNullFail, fForkID}

// c06Case is a fully materialised execution plus the labels that make its
// finding key narrow.
type c06Case struct {
	scriptCase
	Op    string `json:"op"`
	Sig   string `json:"sig_kind"`
	Key   string `json:"key_kind"`
	HT    uint8  `json:"hash_type"`
	Extra string `json:"extra,omitempty"`
}

func htClass(ht uint8) string {
	base := ht &^ 0xc0
	d := "undefined"
	if base >= 1 && base <= 3 {
		d = "defined"
	}
	if ht&0x40 != 0 {
		return d + "+forkid"
	}
	return d
}

func flagClass(f uint32) string {
	s := ""
	for i, n := range []string{"STRICTENC", "DERSIG", "LOW_S", "NULLDUMMY", "NULLFAIL", "FORKID"} {
		if f&sigFlagBits[i] != 0 {
			s += n + ","
		}
	}
	if s == "" {
		s = "none"
	}
	return s
}

// c06Class names the root-cause class of a case, so that a known finding
// covers exactly one input class of one opcode family.
func c06Class(c c06Case) string {
	fam := "checksig"
	if len(c.Op) >= 13 && c.Op[:13] == "CHECKMULTISIG" {
		fam = "checkmultisig"
	}
	if c.HT&0x40 != 0 && c.Flags&fForkID == 0 {
		return fam + "|forkid-bit-signature-without-forkid-flag"
	}
	if fam == "checkmultisig" {
		if bytes.Contains([]byte(c.Sig), []byte("empty")) {
			return fam + "|with-empty-signature|keys=" + c.Key
		}
		return fam + "|keys=" + c.Key
	}
	return fam + "|" + c.Op + "|sig=" + c.Sig + "|key=" + c.Key
}

func c06Check(c c06Case) []rep.Finding {
	fs, _ := c06Run(c)
	return fs
}

// c06Run returns the findings and whether the reference accepts the case.
func c06Run(c c06Case) (fs []rep.Finding, refOK bool) {
	lr := lockstep(c.scriptCase, scriptref.ECDSACheck)
	refOK = lr.ref != nil && lr.ref.OK
	for _, f := range lr.fs {
		kind := f.Key
		// keep the kind of divergence, drop the era and position details
		parts := bytes.Split([]byte(f.Key), []byte("|"))
		if len(parts) >= 3 {
			kind = string(bytes.Join(parts[:3], []byte("|")))
		}
		f.What = fmt.Sprintf("%s [%s sig=%s key=%s hash type 0x%02x flags %s%s]", f.What, c.Op, c.Sig, c.Key, c.HT, flagClass(c.Flags), c.Extra)
		f.Key = c06Class(c) + "|" + kind
		fs = append(fs, f)
	}
	return
}

// ---- signature factory (cached) ----

var sigCache sync.Map

func cachedSign(kp keyPair, keyIdx int, tx *txref.Tx, idx int, code []byte, amount uint64, ht byte, forkAlgo bool, tag string) []byte {
	k := fmt.Sprintf("%d|%x|%d|%x|%d|%d|%v|%s", keyIdx, tx.Bytes(true), idx, code, amount, ht, forkAlgo, tag)
	if v, ok := sigCache.Load(k); ok {
		return v.([]byte)
	}
	s := refSign(kp.priv, tx, idx, code, amount, ht, forkAlgo)
	sigCache.Store(k, s)
	return s
}

// captureCode runs the reference on the case with placeholder signatures and
// returns the script code handed to the n-th signature check.
func captureCodes(c scriptCase) [][]byte {
	var codes [][]byte
	rt, amount := c.ctx()
	scriptref.Verify(c.Unlock, c.Lock, c.Flags&^(fStrict|fDER|fLowS|fNullFail|fNullDummy|fForkID), &scriptref.TxCtx{Tx: rt, Idx: c.idx(), Amount: amount},
		func(sig, key, code []byte, flags uint32, ctx *scriptref.TxCtx) bool {
			codes = append(codes, append([]byte(nil), code...))
			return true
		}, false)
	return codes
}

func padDER(sig []byte) []byte {
	// insert a superfluous 00 in front of R (not strict DER; a lax parser reads the same numbers)
	raw, ht := sig[:len(sig)-1], sig[len(sig)-1]
	lenR := int(raw[3])
	out := []byte{0x30, raw[1] + 1, 0x02, byte(lenR + 1), 0x00}
	out = append(out, raw[4:]...)
	return append(out, ht)
}

func badLenDER(sig []byte) []byte {
	out := append([]byte(nil), sig...)
	out[1]++ // total length no longer matches
	return out
}

var c06HashTypes = []uint8{0x41, 0x42, 0x43, 0xc1, 0xc2, 0xc3, 0x01, 0x02, 0x03, 0x81, 0x82, 0x83, 0x00, 0x04, 0x21, 0x61, 0x44}

type keyEnc struct {
	name string
	get  func(k keyPair) []byte
}

var keyEncs = []keyEnc{
	{"compressed", func(k keyPair) []byte { return k.comp }},
	{"uncompressed", func(k keyPair) []byte { return k.unc }},
	{"hybrid", func(k keyPair) []byte { return k.hyb }},
	{"truncated", func(k keyPair) []byte { return k.comp[:32] }},
	{"empty", func(k keyPair) []byte { return []byte{} }},
}

// checksig lock variants: given the pushed key, the locking script and a name
func checksigLocks(key []byte) (names []string, locks [][]byte) {
	pk := minimalPush(key)
	add := func(n string, l []byte) { names = append(names, n); locks = append(locks, l) }
	add("CHECKSIG", bytesJoin(pk, []byte{0xac}))
	add("CHECKSIG NOT", bytesJoin(pk, []byte{0xac, 0x91}))
	add("CHECKSIGVERIFY", bytesJoin(pk, []byte{0xad, 0x51}))
	add("CODESEP key CHECKSIG", bytesJoin([]byte{0xab}, pk, []byte{0xac}))
	add("key CODESEP CHECKSIG", bytesJoin(pk, []byte{0xab, 0xac}))
	add("unexecuted CODESEP", bytesJoin([]byte{0x00, 0x63, 0xab, 0x68}, pk, []byte{0xac}))
	add("CODESEP later in script", bytesJoin(pk, []byte{0xac, 0x00, 0x63, 0xab, 0x68}))
	add("P2PKH", refP2PKH(refHash160(key)))
	return
}

func c06ChecksigCases(yield func(c06Case), thorough bool) {
	k0, k1 := keyOf(0), keyOf(2)
	shapes := []int{0, 1}
	if thorough {
		shapes = []int{0, 1, 2, 3}
	}
	hts := c06HashTypes
	for _, ke := range keyEncs {
		key := ke.get(k0)
		names, locks := checksigLocks(key)
		for li, lock := range locks {
			isP2PKH := names[li] == "P2PKH"
			for _, shape := range shapes {
				for _, ht := range hts {
					for era := 0; era < 2; era++ {
						for mask := 0; mask < 64; mask++ {
							var f uint32
							for i, b := range sigFlagBits {
								if mask&(1<<i) != 0 {
									f |= b
								}
							}
							if era == 1 {
								f |= fGenesis
							}
							if !thorough && (mask&8 != 0) { // NULLDUMMY is irrelevant for CHECKSIG
								continue
							}
							// placeholder run to learn the script code of the check
							ph := append(bytes.Repeat([]byte{0x01}, 8), ht)
							unlockOf := func(sig []byte) []byte {
								if isP2PKH {
									return pushAll(sig, key)
								}
								return pushAll(sig)
							}
							base := scriptCase{Unlock: unlockOf(ph), Lock: lock, Flags: f, Shape: shape}
							codes := captureCodes(base)
							if len(codes) != 1 {
								continue
							}
							code := codes[0]
							rt, amount := base.ctx()
							forkAlgo := ht&0x40 != 0 && f&fForkID != 0
							valid := cachedSign(k0, 0, rt, base.idx(), code, amount, ht, forkAlgo, "")
							otherTx := *rt
							otherTx.LockTime ^= 0x55
							sigs := []struct {
								name string
								b    []byte
							}{
								{"valid", valid},
								{"other-tx", cachedSign(k0, 0, &otherTx, base.idx(), code, amount, ht, forkAlgo, "")},
								{"wrong-key", cachedSign(k1, 2, rt, base.idx(), code, amount, ht, forkAlgo, "")},
								{"other-algorithm", cachedSign(k0, 0, rt, base.idx(), code, amount, ht, !forkAlgo, "")},
								{"empty", []byte{}},
								{"type-only", []byte{ht}},
								{"one-byte-contained-in-key", []byte{k0.comp[9]}},
								{"high-s", highS(valid)},
								{"der-padded", padDER(valid)},
								{"der-bad-length", badLenDER(valid)},
							}
							for _, sg := range sigs {
								yield(c06Case{scriptCase: scriptCase{Unlock: unlockOf(sg.b), Lock: lock, Flags: f, Shape: shape}, Op: names[li], Sig: sg.name, Key: ke.name, HT: ht})
							}
							if (names[li] == "CHECKSIG" || isP2PKH) && shape == 0 {
								// the transaction's input already records another spent output (value and script)
								yield(c06Case{scriptCase: scriptCase{Unlock: unlockOf(valid), Lock: lock, Flags: f, Shape: shape, PrevStale: true}, Op: names[li], Sig: "valid", Key: ke.name, HT: ht, Extra: "|input-records-another-output"})
								forStale := cachedSign(k0, 0, rt, base.idx(), code, amount+staleDelta, ht, forkAlgo, "")
								yield(c06Case{scriptCase: scriptCase{Unlock: unlockOf(forStale), Lock: lock, Flags: f, Shape: shape, PrevStale: true}, Op: names[li], Sig: "signs-value-recorded-on-input", Key: ke.name, HT: ht, Extra: "|input-records-another-output"})
							}
						}
					}
				}
			}
		}
	}
	// the signature sits inside the script it signs (legacy: its push is removed from the script
	// code, so it can sign itself; FORKID: it is not removed, so such a signature cannot verify)
	for era := 0; era < 2; era++ {
		for mask := 0; mask < 64; mask++ {
			var f uint32
			for i, b := range sigFlagBits {
				if mask&(1<<i) != 0 {
					f |= b
				}
			}
			if era == 1 {
				f |= fGenesis
			}
			for _, ht := range []uint8{0x01, 0x41, 0x83, 0xc3} {
				forkAlgo := ht&0x40 != 0 && f&fForkID != 0
				tail := bytesJoin(minimalPush(k0.comp), []byte{0xac}) // <key> CHECKSIG
				// (1) in the locking script: <sig> <key> CHECKSIG, empty unlocking script
				{
					base := scriptCase{Lock: tail, Flags: f, FixedPrev: true}
					rt, amount := base.ctx()
					sig := cachedSign(k0, 0, rt, 0, tail, amount, ht, forkAlgo, "self-lock") // signs the code with its own push deleted
					lock := bytesJoin(minimalPush(sig), tail)
					yield(c06Case{scriptCase: scriptCase{Unlock: nil, Lock: lock, Flags: f, FixedPrev: true}, Op: "sig-inside-locking-script", Sig: "signs-code-without-itself", Key: "compressed", HT: ht})
					// signed over the script as it stands (with the push): valid only if nothing is removed
					sigFull := cachedSign(k0, 0, rt, 0, bytesJoin([]byte{0x47}, make([]byte, 0x47), tail), amount, ht, forkAlgo, "self-lock-full")
					_ = sigFull
					// the signature as a proper substring of a longer push
					lock3 := bytesJoin(minimalPush(append([]byte{0x99}, sig...)), []byte{0x75}, minimalPush(sig), tail)
					yield(c06Case{scriptCase: scriptCase{Unlock: nil, Lock: lock3, Flags: f, FixedPrev: true}, Op: "sig-substring-in-script", Sig: "signs-code-without-itself", Key: "compressed", HT: ht})
				}
				// (1b) legacy, no encoding flags: the signature element padded to 72..80 bytes (lax DER
				// tolerates trailing bytes), so that its push crosses the direct-push / PUSHDATA1 boundary
				if ht&0x40 == 0 && f&(fStrict|fDER|fLowS|fForkID) == 0 {
					base := scriptCase{Unlock: tail, Lock: []byte{0x61}, Flags: f}
					rt, amount := base.ctx()
					raw := cachedSign(k0, 0, rt, 0, tail, amount, ht, false, "self-unlock")
					for L := 72; L <= 80; L++ {
						if L <= len(raw) {
							continue
						}
						padded := append(append(append([]byte(nil), raw[:len(raw)-1]...), make([]byte, L-len(raw))...), ht)
						yield(c06Case{scriptCase: scriptCase{Unlock: bytesJoin(minimalPush(padded), tail), Lock: []byte{0x61}, Flags: f}, Op: "checksig-inside-unlocking-script", Sig: fmt.Sprintf("padded-to-%d", L), Key: "compressed", HT: ht})
					}
				}
				// (2) CHECKSIG executed inside the unlocking script: <sig> <key> CHECKSIG / NOP
				{
					base := scriptCase{Unlock: tail, Lock: []byte{0x61}, Flags: f}
					rt, amount := base.ctx()
					sig := cachedSign(k0, 0, rt, 0, tail, amount, ht, forkAlgo, "self-unlock")
					unlock := bytesJoin(minimalPush(sig), tail)
					yield(c06Case{scriptCase: scriptCase{Unlock: unlock, Lock: []byte{0x61}, Flags: f}, Op: "checksig-inside-unlocking-script", Sig: "signs-code-without-itself", Key: "compressed", HT: ht})
					// signature over the unlocking script as it stands cannot exist (it would contain itself);
					// a signature over the code WITH a different push in its place must fail in every mode
					other := cachedSign(k0, 0, rt, 0, bytesJoin(minimalPush(make([]byte, len(sig))), tail), amount, ht, forkAlgo, "self-unlock-other")
					yield(c06Case{scriptCase: scriptCase{Unlock: bytesJoin(minimalPush(other), tail), Lock: []byte{0x61}, Flags: f}, Op: "checksig-inside-unlocking-script", Sig: "signs-code-with-placeholder", Key: "compressed", HT: ht})
				}
			}
		}
	}
}

// c06ReturnTailCases: a signature check in a script that goes on, after a top-level OP_RETURN,
// with 0..4 raw bytes (after genesis these are data that stay part of the script code; before
// genesis they are parsed as opcodes).
func c06ReturnTailCases(yield func(c06Case), thorough bool) {
	k0 := keyOf(0)
	tails := [][]byte{{}, {0x11}, {0x11, 0x22}, {0x11, 0x22, 0x33}, {0x02, 0x22, 0x33, 0x44}, {0x4c}, {0xac, 0x51}, {0x01}, {0x00}, {0x51}, {0x4f}, {0x01, 0x01}, {0x6a}, {0xab}}
	for ti, tail := range tails {
		for _, form := range []string{"CHECKSIGVERIFY 1 RETURN", "CHECKSIG RETURN", "1of1 CHECKMULTISIGVERIFY 1 RETURN", "unlock ends in RETURN | CHECKSIG", "unlock ends in RETURN | 1of1 CHECKMULTISIG",
			"CHECKSIGVERIFY CODESEPARATOR 1", "1of1 CHECKMULTISIGVERIFY CODESEPARATOR 1"} {
			var lock []byte
			unlockTail := []byte(nil)
			if form[len(form)-15:] == "CODESEPARATOR 1" && ti > 0 {
				continue // these two do not depend on the tail
			}
			switch form {
			case "CHECKSIGVERIFY CODESEPARATOR 1":
				// separators AFTER the check stay in the script code: removed from it by the
				// original algorithm, signed as they stand by the FORKID digest
				lock = bytesJoin(minimalPush(k0.comp), []byte{0xad, 0xab, 0x51, 0xab})
			case "1of1 CHECKMULTISIGVERIFY CODESEPARATOR 1":
				lock = bytesJoin([]byte{0x51}, minimalPush(k0.comp), []byte{0x51, 0xaf, 0xab, 0x51, 0xab})
			case "unlock ends in RETURN | CHECKSIG":
				lock = bytesJoin(minimalPush(k0.comp), []byte{0xac})
				unlockTail = append([]byte{0x6a}, tail...)
			case "unlock ends in RETURN | 1of1 CHECKMULTISIG":
				lock = bytesJoin([]byte{0x51}, minimalPush(k0.comp), []byte{0x51, 0xae})
				unlockTail = append([]byte{0x6a}, tail...)
			case "CHECKSIGVERIFY 1 RETURN":
				lock = bytesJoin(minimalPush(k0.comp), []byte{0xad, 0x51, 0x6a}, tail)
			case "CHECKSIG RETURN":
				lock = bytesJoin(minimalPush(k0.comp), []byte{0xac, 0x6a}, tail)
			default:
				lock = bytesJoin([]byte{0x51}, minimalPush(k0.comp), []byte{0x51, 0xaf, 0x51, 0x6a}, tail)
			}
			for _, ht := range []uint8{0x41, 0x01, 0xc3, 0x83} {
				for era := 0; era < 2; era++ {
					for _, f := range []uint32{0, fForkID, fStrict | fNullFail, fForkID | fStrict | fDER | fLowS | fNullFail | fNullDummy} {
						if era == 1 {
							f |= fGenesis
						}
						unlockOf := func(sig []byte) []byte {
							if form[0] == '1' || form == "unlock ends in RETURN | 1of1 CHECKMULTISIG" {
								return bytesJoin(pushAll([]byte{}, sig), unlockTail)
							}
							return bytesJoin(pushAll(sig), unlockTail)
						}
						ph := append(bytes.Repeat([]byte{0x01}, 8), ht)
						base := scriptCase{Unlock: unlockOf(ph), Lock: lock, Flags: f}
						codes := captureCodes(base)
						if len(codes) != 1 {
							continue
						}
						rt, amount := base.ctx()
						forkAlgo := ht&0x40 != 0 && f&fForkID != 0
						valid := cachedSign(k0, 0, rt, 0, codes[0], amount, ht, forkAlgo, "")
						yield(c06Case{scriptCase: scriptCase{Unlock: unlockOf(valid), Lock: lock, Flags: f}, Op: form, Sig: "valid", Key: "compressed", HT: ht, Extra: fmt.Sprintf("|return-tail=%d", ti)})
						yield(c06Case{scriptCase: scriptCase{Unlock: unlockOf(highS(valid)), Lock: lock, Flags: f}, Op: form, Sig: "high-s", Key: "compressed", HT: ht, Extra: fmt.Sprintf("|return-tail=%d", ti)})
					}
				}
			}
		}
	}
}

// c06ChosenSCases: signatures with a CHOSEN s - the largest low value n/2, n/2+1, 2^255-1 and
// 2^255 - for which a public key is recovered so that they are valid. The locking script is the
// bare OP_CHECKSIG (key and signature both come from the unlocking script), so the signed
// script code does not depend on the key.
func c06ChosenSCases(yield func(c06Case), thorough bool) {
	curve := bec.S256()
	halfN := new(big.Int).Rsh(curve.N, 1)
	two255 := new(big.Int).Lsh(big.NewInt(1), 255)
	ss := []struct {
		name string
		s    *big.Int
	}{{"s=n/2", halfN}, {"s=n/2+1", new(big.Int).Add(halfN, big.NewInt(1))}, {"s=2^255-1", new(big.Int).Sub(two255, big.NewInt(1))}, {"s=2^255", two255}, {"s=n/2-1", new(big.Int).Sub(halfN, big.NewInt(1))}}
	lock := []byte{0xac}
	for _, ht := range []uint8{0x41, 0x01, 0xc3} {
		for era := 0; era < 2; era++ {
			for mask := 0; mask < 64; mask++ {
				if mask&8 != 0 { // NULLDUMMY is irrelevant here
					continue
				}
				var f uint32
				for i, b := range sigFlagBits {
					if mask&(1<<i) != 0 {
						f |= b
					}
				}
				if era == 1 {
					f |= fGenesis
				}
				base := scriptCase{Unlock: pushAll([]byte{0x01}, []byte{0x02}), Lock: lock, Flags: f}
				rt, amount := base.ctx()
				forkAlgo := ht&0x40 != 0 && f&fForkID != 0
				var digest []byte
				if forkAlgo {
					digest = sighashref.ForkIDDigest(rt, 0, lock, amount, uint32(ht))
				} else {
					digest = sighashref.LegacyDigest(rt, 0, lock, uint32(ht))
				}
				for _, sv := range ss {
					comp := make([]byte, 65)
					comp[0] = 27 + 4 // recovery id 0, compressed
					curve.Gx.FillBytes(comp[1:33])
					sv.s.FillBytes(comp[33:65])
					pk, _, err := bec.RecoverCompact(curve, comp, digest)
					if err != nil {
						continue
					}
					rb, sb := curve.Gx.Bytes(), sv.s.Bytes()
					if rb[0]&0x80 != 0 {
						rb = append([]byte{0}, rb...)
					}
					if sb[0]&0x80 != 0 {
						sb = append([]byte{0}, sb...)
					}
					der := bytesJoin([]byte{0x30, byte(4 + len(rb) + len(sb)), 0x02, byte(len(rb))}, rb, []byte{0x02, byte(len(sb))}, sb, []byte{ht})
					yield(c06Case{scriptCase: scriptCase{Unlock: pushAll(der, pk.SerialiseCompressed()), Lock: lock, Flags: f}, Op: "sig key | CHECKSIG", Sig: sv.name, Key: "recovered", HT: ht})
				}
			}
		}
	}
}

func c06MultisigCases(yield func(c06Case), thorough bool) {
	keys := []keyPair{keyOf(0), keyOf(2), keyOf(3)}
	keyIdx := []int{0, 2, 3}
	hts := []uint8{0x41, 0x01}
	if thorough {
		hts = []uint8{0x41, 0x01, 0xc3, 0x83, 0x21}
	}
	variants := []struct {
		name string
		tail []byte
	}{{"CHECKMULTISIG", []byte{0xae}}, {"CHECKMULTISIG NOT", []byte{0xae, 0x91}}, {"CHECKMULTISIGVERIFY", []byte{0xaf, 0x51}}}
	keyMuts := []string{"all-compressed", "last-hybrid", "first-truncated"}
	if thorough {
		keyMuts = append(keyMuts, "middle-uncompressed")
	}
	for n := 0; n <= 3; n++ {
		for m := 0; m <= n; m++ {
			for _, km := range keyMuts {
				var kb [][]byte
				for i := 0; i < n; i++ {
					b := keys[i].comp
					switch {
					case km == "last-hybrid" && i == n-1:
						b = keys[i].hyb
					case km == "first-truncated" && i == 0:
						b = keys[i].comp[:32]
					case km == "middle-uncompressed" && i == n/2:
						b = keys[i].unc
					}
					kb = append(kb, b)
				}
				lockHead := []byte{byte(0x50 + m)}
				if m == 0 {
					lockHead = []byte{0x00}
				}
				for _, b := range kb {
					lockHead = append(lockHead, minimalPush(b)...)
				}
				if n == 0 {
					lockHead = append(lockHead, 0x00)
				} else {
					lockHead = append(lockHead, byte(0x50+n))
				}
				for _, v := range variants {
					lock := bytesJoin(lockHead, v.tail)
					for _, ht := range hts {
						for era := 0; era < 2; era++ {
							for mask := 0; mask < 64; mask++ {
								if !thorough && m == 3 && mask%2 == 1 && mask&32 == 0 {
									continue
								}
								var f uint32
								for i, b := range sigFlagBits {
									if mask&(1<<i) != 0 {
										f |= b
									}
								}
								if era == 1 {
									f |= fGenesis
								}
								base := scriptCase{Lock: lock, Flags: f}
								rt, amount := base.ctx()
								forkAlgo := ht&0x40 != 0 && f&fForkID != 0
								// the script code of a multisig without signatures in the script is the whole script
								code := lock
								// slot alphabet: valid by key j, empty, type-only, other-tx, high-s, one byte that occurs inside a key
								nslot := n + 5
								total := 1
								for i := 0; i < m; i++ {
									total *= nslot
								}
								other := *rt
								other.LockTime ^= 0x33
								for pass := 0; pass < 2; pass++ {
									mixed := pass == 1
									if mixed && (m < 2 || (!thorough && mask%4 != 0)) {
										continue
									}
									for combo := 0; combo < total; combo++ {
										x := combo
										var sigs [][]byte
										desc := ""
										allByKey := true
										for i := 0; i < m; i++ {
											s := x % nslot
											x /= nslot
											if s >= n {
												allByKey = false
											}
											switch {
											case s < n:
												hti := ht
												if mixed {
													// every signature of the tuple carries its own hash type
													alts := []uint8{ht, ht | 0x80, (ht &^ 3) | 3, (ht &^ 3) | 2}
													hti = alts[i%len(alts)]
												}
												sigs = append(sigs, cachedSign(keys[s], keyIdx[s], rt, 0, code, amount, hti, hti&0x40 != 0 && f&fForkID != 0, "ms"))
												desc += fmt.Sprintf("k%d,", s)
											case s == n:
												sigs = append(sigs, []byte{})
												desc += "empty,"
											case s == n+1:
												sigs = append(sigs, []byte{ht})
												desc += "type-only,"
											case s == n+2:
												sigs = append(sigs, cachedSign(keys[0], keyIdx[0], &other, 0, code, amount, ht, forkAlgo, "ms"))
												desc += "other-tx,"
											case s == n+4:
												// a one-byte element whose byte also occurs inside a public key of this script
												sigs = append(sigs, []byte{keys[1].comp[9]})
												desc += "byte-in-key,"
											default:
												sigs = append(sigs, highS(cachedSign(keys[i%3], keyIdx[i%3], rt, 0, code, amount, ht, forkAlgo, "ms")))
												desc += "high-s,"
											}
										}
										for _, dummy := range [][]byte{{}, {0x01}} {
											if !thorough && len(dummy) > 0 && combo%3 != 0 {
												continue
											}
											u := minimalPush(dummy)
											for _, s := range sigs {
												u = append(u, minimalPush(s)...)
											}
											ex := fmt.Sprintf("|dummy=%d", len(dummy))
											if mixed {
												ex += "|mixed-hash-types"
											}
											yield(c06Case{scriptCase: scriptCase{Unlock: u, Lock: lock, Flags: f}, Op: v.name, Sig: fmt.Sprintf("%dof%d:%s", m, n, desc), Key: km, HT: ht,
												Extra: ex})
											if allByKey && len(dummy) == 0 && m > 0 {
												yield(c06Case{scriptCase: scriptCase{Unlock: u, Lock: lock, Flags: f, PrevStale: true}, Op: v.name, Sig: fmt.Sprintf("%dof%d:%s", m, n, desc), Key: km, HT: ht,
													Extra: ex + "|input-records-another-output"})
											}
										}
									}
								}
							}
						}
					}
				}
			}
		}
	}
}

// c06CountCases: the key and signature counts of OP_CHECKMULTISIG written in every number form a
// script can push - wider than 64 bits, wider than 32 bits, negative, negative zero, padded - for
// m-of-n scripts with valid signatures. A count is a script number: what does not fit the range
// is a count error (before genesis a number error), never the same count modulo a power of two.
func c06CountCases(yield func(c06Case), thorough bool) {
	keys := []keyPair{keyOf(0), keyOf(2)}
	keyIdx := []int{0, 2}
	forms := func(v int) (names []string, encs [][]byte) {
		add := func(n string, b []byte) { names = append(names, n); encs = append(encs, b) }
		add("plain", nil)
		add("plus-2^64", []byte{byte(v), 0, 0, 0, 0, 0, 0, 0, 1})
		add("plus-2^63", []byte{byte(v), 0, 0, 0, 0, 0, 0, 0x80, 0})
		add("plus-2^32", []byte{byte(v), 0, 0, 0, 1})
		add("plus-2^31", []byte{byte(v), 0, 0, 0x80, 0})
		add("plus-2^128", append(append([]byte{byte(v)}, make([]byte, 15)...), 1))
		add("padded-4", []byte{byte(v), 0, 0, 0})
		add("padded-2", []byte{byte(v), 0})
		add("negative", []byte{byte(v) | 0x80})
		add("minus-2^64", []byte{byte(v), 0, 0, 0, 0, 0, 0, 0, 0x81})
		return
	}
	flagSets := []uint32{0, fForkID, fForkID | sigFlagBits[0], sigFlagBits[3] | sigFlagBits[4]}
	for n := 0; n <= 2; n++ {
		for m := 0; m <= n; m++ {
			nNames, nEncs := forms(n)
			mNames, mEncs := forms(m)
			for ni := range nEncs {
				for mi := range mEncs {
					if ni == 0 && mi == 0 {
						continue
					}
					numPush := func(v int, enc []byte) []byte {
						if enc == nil {
							if v == 0 {
								return []byte{0x00}
							}
							return []byte{byte(0x50 + v)}
						}
						return append([]byte{byte(len(enc))}, enc...)
					}
					lock := numPush(m, mEncs[mi])
					for i := 0; i < n; i++ {
						lock = append(lock, minimalPush(keys[i].comp)...)
					}
					lock = append(lock, numPush(n, nEncs[ni])...)
					for _, tail := range [][]byte{{0xae}, {0xae, 0x91}, {0xaf, 0x51}} {
						lk := bytesJoin(lock, tail)
						for _, f0 := range flagSets {
							for era := 0; era < 2; era++ {
								f := f0
								if era == 1 {
									f |= fGenesis
								}
								ht := uint8(0x01)
								if f&fForkID != 0 {
									ht = 0x41
								}
								base := scriptCase{Lock: lk, Flags: f}
								rt, amount := base.ctx()
								u := []byte{0x00}
								for i := 0; i < m; i++ {
									u = append(u, minimalPush(cachedSign(keys[i], keyIdx[i], rt, 0, lk, amount, ht, ht&0x40 != 0, "cnt"))...)
								}
								yield(c06Case{scriptCase: scriptCase{Unlock: u, Lock: lk, Flags: f}, Op: "CHECKMULTISIG-counts", Sig: fmt.Sprintf("%dof%d", m, n), Key: "all-compressed", HT: ht,
									Extra: "|n=" + nNames[ni] + "|m=" + mNames[mi]})
							}
						}
					}
				}
			}
		}
	}
}

// c06ShapeAndPushCases: (1) transactions with two inputs - the checked one first, and the checked
// one last - for EVERY hash type (the ANYONECANPAY / NONE / SINGLE rules treat "the other inputs"
// and "my own index" differently); (2) locking scripts whose script code contains a push that is
// not in its shortest form (the digest is over the script bytes as they are, not re-encoded).
func c06ShapeAndPushCases(yield func(c06Case), thorough bool) {
	k0 := keyOf(0)
	pk := minimalPush(k0.comp)
	type lk struct {
		name string
		b    []byte
		ms   bool
	}
	locks := []lk{
		{"CHECKSIG", bytesJoin(pk, []byte{0xac}), false},
		{"P2PKH", refP2PKH(refHash160(k0.comp)), false},
		{"PUSHDATA1(3) DROP key CHECKSIG", bytesJoin([]byte{0x4c, 3, 7, 8, 9, 0x75}, pk, []byte{0xac}), false},
		{"PUSHDATA2(3) DROP key CHECKSIG", bytesJoin([]byte{0x4d, 3, 0, 7, 8, 9, 0x75}, pk, []byte{0xac}), false},
		{"PUSHDATA4(3) DROP key CHECKSIG", bytesJoin([]byte{0x4e, 3, 0, 0, 0, 7, 8, 9, 0x75}, pk, []byte{0xac}), false},
		{"PUSHDATA2(80) DROP key CHECKSIG", bytesJoin([]byte{0x4d, 80, 0}, fill(80, 0x5a), []byte{0x75}, pk, []byte{0xac}), false},
		{"key CHECKSIG PUSHDATA1(1)", bytesJoin(pk, []byte{0xac, 0x4c, 1, 1, 0x75}), false},
		{"key through PUSHDATA1 CHECKSIG", bytesJoin([]byte{0x4c, byte(len(k0.comp))}, k0.comp, []byte{0xac}), false},
		{"PUSHDATA1(3) DROP 1of1 CHECKMULTISIG", bytesJoin([]byte{0x4c, 3, 7, 8, 9, 0x75, 0x51}, pk, []byte{0x51, 0xae}), true},
		{"1of1 CHECKMULTISIG", bytesJoin([]byte{0x51}, pk, []byte{0x51, 0xae}), true},
		// which OP_CODESEPARATOR was executed last decides where the script code begins
		{"CODESEP 1of1 CHECKMULTISIG", bytesJoin([]byte{0xab, 0x51}, pk, []byte{0x51, 0xae}), true},
		{"1 key CODESEP 1 CHECKMULTISIG", bytesJoin([]byte{0x51}, pk, []byte{0xab, 0x51, 0xae}), true},
		{"1of1 CHECKMULTISIG then unexecuted CODESEP", bytesJoin([]byte{0x51}, pk, []byte{0x51, 0xae, 0x00, 0x63, 0xab, 0x68}), true},
		{"taken branch CODESEP, other branch two", bytesJoin([]byte{0x51, 0x63, 0xab, 0x67, 0xab, 0xab, 0x68}, pk, []byte{0xac}), false},
		{"untaken branch CODESEP, taken branch two", bytesJoin([]byte{0x00, 0x63, 0xab, 0x67, 0xab, 0x61, 0xab, 0x68}, pk, []byte{0xac}), false},
		{"CODESEP key CODESEP CHECKSIG CODESEP", bytesJoin([]byte{0xab}, pk, []byte{0xab, 0xac, 0xab}), false},
		{"CODESEP inside a push is data", bytesJoin([]byte{0x02, 0xab, 0xab, 0x75}, pk, []byte{0xac}), false},
	}
	flagSets := []uint32{0, fForkID, fForkID | fStrict, fStrict | fDER | fLowS | fNullFail}
	for _, l := range locks {
		for _, shape := range []int{0, 2, 3} {
			for _, ht := range c06HashTypes {
				for _, f0 := range flagSets {
					for era := 0; era < 2; era++ {
						f := f0
						if era == 1 {
							f |= fGenesis
						}
						unlockOf := func(sig []byte) []byte {
							switch {
							case l.ms:
								return bytesJoin([]byte{0x00}, minimalPush(sig))
							case l.name == "P2PKH":
								return pushAll(sig, k0.comp)
							}
							return pushAll(sig)
						}
						ph := append(bytes.Repeat([]byte{0x01}, 8), ht)
						base := scriptCase{Unlock: unlockOf(ph), Lock: l.b, Flags: f, Shape: shape}
						codes := captureCodes(base)
						if len(codes) != 1 {
							continue
						}
						rt, amount := base.ctx()
						forkAlgo := ht&0x40 != 0 && f&fForkID != 0
						valid := cachedSign(k0, 0, rt, base.idx(), codes[0], amount, ht, forkAlgo, "shape")
						// the same signature for a transaction whose OTHER input differs in its sequence number, and one
						// whose checked input does
						for vi, mut := range []string{"valid", "other-input-sequence-differs", "own-sequence-differs"} {
							o := *rt
							o.Ins = append([]txref.In(nil), rt.Ins...)
							switch vi {
							case 1:
								if len(o.Ins) < 2 {
									continue
								}
								o.Ins[1-base.idx()].Seq ^= 0x100
							case 2:
								o.Ins[base.idx()].Seq ^= 0x100
							}
							sig := valid
							if vi > 0 {
								sig = cachedSign(k0, 0, &o, base.idx(), codes[0], amount, ht, forkAlgo, "shape-"+mut)
							}
							op := "CHECKSIG"
							if l.ms {
								op = "CHECKMULTISIG"
							}
							yield(c06Case{scriptCase: scriptCase{Unlock: unlockOf(sig), Lock: l.b, Flags: f, Shape: shape}, Op: op, Sig: mut, Key: "compressed", HT: ht, Extra: "|" + l.name})
							if vi == 0 && (l.name == "CHECKSIG" || l.name == "P2PKH" || l.name == "1of1 CHECKMULTISIG") {
								yield(c06Case{scriptCase: scriptCase{Unlock: unlockOf(sig), Lock: l.b, Flags: f, Shape: shape, PreHashed: true}, Op: op, Sig: mut, Key: "compressed", HT: ht, Extra: "|" + l.name + "|tx-object-hashed-before-edits"})
							}
						}
					}
				}
			}
		}
	}
}

// c06UnparsableSigCases: elements that pass every signature ENCODING rule (strict DER, low S, a
// defined hash type) and still are no signatures - R = 0, S = 0, R = the group order - against keys
// in every encoding. The node checks the signature encoding, then the key encoding, then verifies
// (a failed verification is a false result, not an error): an ill-encoded key next to such an
// element is an encoding error under STRICTENC exactly as next to any other signature.
func c06UnparsableSigCases(yield func(c06Case), thorough bool) {
	k0, k1 := keyOf(0), keyOf(2)
	order, _ := hex.DecodeString("00fffffffffffffffffffffffffffffffebaaedce6af48a03bbfd25e8cd0364141")
	der := func(r, sv []byte) []byte {
		body := bytesJoin([]byte{0x02, byte(len(r))}, r, []byte{0x02, byte(len(sv))}, sv)
		return bytesJoin([]byte{0x30, byte(len(body))}, body)
	}
	elems := []struct {
		name string
		sig  []byte
	}{{"r=0", der([]byte{0}, []byte{1})}, {"s=0", der([]byte{1}, []byte{0})}, {"r=order", der(order, []byte{1})}, {"r=0,s=0", der([]byte{0}, []byte{0})}}
	encs := append([]keyEnc(nil), keyEncs...)
	encs = append(encs, keyEnc{"prefix-05", func(k keyPair) []byte { return append([]byte{0x05}, k.comp[1:]...) }})
	for _, el := range elems {
		for _, ht := range []uint8{0x41, 0x01} {
			sig := append(append([]byte(nil), el.sig...), ht)
			for _, ke := range encs {
				key := ke.get(k0)
				var locks [][]byte
				var names []string
				for _, tail := range [][]byte{{0xac}, {0xac, 0x91}} {
					locks = append(locks, bytesJoin(minimalPush(key), tail))
					names = append(names, map[int]string{1: "CHECKSIG", 2: "CHECKSIG NOT"}[len(tail)])
				}
				for _, tail := range [][]byte{{0xae}, {0xae, 0x91}} {
					nm := map[int]string{1: "CHECKMULTISIG", 2: "CHECKMULTISIG NOT"}[len(tail)]
					// 1-of-1 with the odd key; 1-of-2 with the odd key first / second
					locks = append(locks, bytesJoin([]byte{0x51}, minimalPush(key), []byte{0x51}, tail),
						bytesJoin([]byte{0x51}, minimalPush(key), minimalPush(k1.comp), []byte{0x52}, tail),
						bytesJoin([]byte{0x51}, minimalPush(k1.comp), minimalPush(key), []byte{0x52}, tail))
					names = append(names, nm+" 1of1", nm+" 1of2 odd-key-first", nm+" 1of2 odd-key-second")
				}
				for li, lock := range locks {
					for era := 0; era < 2; era++ {
						for mask := 0; mask < 64; mask++ {
							var f uint32
							for i, b := range sigFlagBits {
								if mask&(1<<i) != 0 {
									f |= b
								}
							}
							if era == 1 {
								f |= fGenesis
							}
							u := minimalPush(sig)
							if strings.HasPrefix(names[li], "CHECKMULTISIG") {
								u = append([]byte{0x00}, u...)
							}
							yield(c06Case{scriptCase: scriptCase{Unlock: u, Lock: lock, Flags: f}, Op: names[li], Sig: "well-encoded-non-signature:" + el.name, Key: ke.name, HT: ht})
						}
					}
				}
			}
		}
	}
}

// c06TwinKeyAndSizeCases: (twin) one script verifies a signature against key P and then presents
// the same signature with P's parity twin (02|X <-> 03|X: the point -P, a valid and different
// key) - to CHECKSIG and to a 1-of-1 CHECKMULTISIG: the second check is false, whatever the first
// one left behind; (size) the script code a FORKID signature commits to has a length on a boundary
// of its length prefix: 252..254 and 65534..65536 bytes.
func c06TwinKeyAndSizeCases(yield func(c06Case), thorough bool) {
	for _, ki := range []int{0, 2} {
		k := keyOf(ki)
		twin := append([]byte(nil), k.comp...)
		twin[0] ^= 1
		pk, tw := minimalPush(k.comp), minimalPush(twin)
		locks := []struct {
			name string
			lock []byte
			ms   bool
		}{
			{"P CHECKSIGVERIFY twin CHECKSIG NOT", bytesJoin(pk, []byte{0xad}, tw, []byte{0xac, 0x91}), false},
			{"P CHECKSIGVERIFY twin CHECKSIG", bytesJoin(pk, []byte{0xad}, tw, []byte{0xac}), false},
			{"twin CHECKSIG NOT VERIFY P CHECKSIG", bytesJoin(tw, []byte{0xac, 0x91, 0x69}, pk, []byte{0xac}), false},
			{"P CHECKSIGVERIFY 1 twin 1 CHECKMULTISIG NOT", bytesJoin(pk, []byte{0xad, 0x51}, tw, []byte{0x51, 0xae, 0x91}), true},
			{"P CHECKSIGVERIFY 1 twin P 2 CHECKMULTISIG", bytesJoin(pk, []byte{0xad, 0x51}, tw, pk, []byte{0x52, 0xae}), true},
		}
		for _, l := range locks {
			for _, ht := range []uint8{0x41, 0x01} {
				for era := 0; era < 2; era++ {
					for mask := 0; mask < 64; mask++ {
						var f uint32
						for i, b := range sigFlagBits {
							if mask&(1<<i) != 0 {
								f |= b
							}
						}
						if era == 1 {
							f |= fGenesis
						}
						base := scriptCase{Lock: l.lock, Flags: f}
						rt, amount := base.ctx()
						sig := cachedSign(k, ki, rt, 0, l.lock, amount, ht, ht&0x40 != 0 && f&fForkID != 0, "twin")
						u := bytesJoin(minimalPush(sig), minimalPush(sig))
						if l.ms {
							u = append([]byte{0x00}, u...)
						}
						yield(c06Case{scriptCase: scriptCase{Unlock: u, Lock: l.lock, Flags: f}, Op: l.name, Sig: "valid-for-P", Key: "parity-twin", HT: ht})
					}
				}
			}
		}
	}
	k := keyOf(0)
	for _, target := range []int{252, 253, 254, 65534, 65535, 65536} {
		var lock []byte
		for n := target; n > 0; n-- {
			if l := bytesJoin(minimalPush(fill(n, 0x2a)), []byte{0x75}, minimalPush(k.comp), []byte{0xac}); len(l) == target {
				lock = l
				break
			}
		}
		if lock == nil {
			continue
		}
		for _, ht := range []uint8{0x41, 0xc3, 0x01} {
			for _, f := range []uint32{fGenesis | fForkID | fStrict, fGenesis | fForkID, fGenesis, fForkID | fStrict, 0} {
				base := scriptCase{Lock: lock, Flags: f}
				rt, amount := base.ctx()
				sig := cachedSign(k, 0, rt, 0, lock, amount, ht, ht&0x40 != 0 && f&fForkID != 0, fmt.Sprintf("size%d", target))
				yield(c06Case{scriptCase: scriptCase{Unlock: minimalPush(sig), Lock: lock, Flags: f}, Op: "push DROP key CHECKSIG", Sig: "valid", Key: "compressed", HT: ht, Extra: fmt.Sprintf("|script-code-bytes=%d", target)})
			}
		}
	}
}

func init() {
	p := register(&Prop{ID: "C06", Level: "exploration",
		Rule: "incl. scripts that verify one signature against a key and then against its parity twin (CHECKSIG and CHECKMULTISIG, all 64 flag subsets, both eras), FORKID script codes of 252..254 and 65534..65536 bytes, elements that pass every signature-encoding rule and are no signatures (R=0, S=0, R=group order, both zero) x 6 key encodings x CHECKSIG / CHECKMULTISIG 1-of-1 / 1-of-2 (odd key first, second) x NOT x all 64 flag subsets x both eras; exhaustive product with real ECDSA signatures, every case executed in lockstep against the reference model (CHECKSIG/CHECKMULTISIG written after the node's interpreter, certified on the signature vectors of script_tests.json; digests certified on the sighash vectors): CHECKSIG family: 8 locking-script forms (CHECKSIG, NOT, CHECKSIGVERIFY, OP_CODESEPARATOR before the key / before the opcode / unexecuted / later in the script, P2PKH) x 5 key encodings (compressed, uncompressed, hybrid, truncated, empty) x 17 hash types (12 standard, 5 undefined) x 9 signature kinds (valid, over another tx, by another key, over the other digest algorithm, empty, hash-type byte only, high-S, DER-padded, wrong DER length) x ALL 64 subsets of {STRICTENC, DERSIG, LOW_S, NULLDUMMY, NULLFAIL, SIGHASH_FORKID} x both eras x tx shapes (1 in/1 out, no outputs; thorough: 2 inputs); signature-in-script (exact push and substring); valid signatures with a CHOSEN s (n/2-1, n/2, n/2+1, 2^255-1, 2^255; the public key is recovered from the signature) against the LOW_S rule; signature checks in scripts that continue after a top-level OP_RETURN with 0..4 raw bytes (script code with a data tail), and signature checks reached after an UNLOCKING script that ends through a top-level OP_RETURN; for CHECKSIG and P2PKH also with the transaction's checked input already recording ANOTHER spent output (other value and script, as left by FromUTXOs or an earlier Execute): a valid signature, and one made for the recorded value instead of the spent one. CHECKMULTISIG family: every m-of-n with 0<=m<=n<=3, every m-tuple over the slot alphabet {valid by key j for every j, empty, type-only, other tx, high-S, a single byte that occurs inside a public key} (hence every order), dummy {empty, 01}, key mutations, 3 opcode forms, uniform and mixed per-signature hash types, 2/5 hash types, 64 flag subsets x both eras; key and signature counts of every m-of-n with n<=2 in ten number forms (plus 2^31, 2^32, 2^63, 2^64, 2^128, minus 2^64, negative, padded) x 3 opcode forms x 4 flag sets x both eras; two-input transactions (checked input first / last) and locking scripts with non-minimal pushes in the script code (PUSHDATA1/2/4 of 3 and 80 bytes, before and after the check, the key itself through PUSHDATA1; CHECKSIG, P2PKH and 1-of-1 CHECKMULTISIG; OP_CODESEPARATOR before / inside / after a CHECKMULTISIG, in taken and untaken branches, and as push data) x all 17 hash types x 4 flag sets x both eras, with a valid signature (also on a transaction OBJECT that went through signature hashing before being edited in place into the transaction of the case) and signatures made for a transaction differing in the other input's / the checked input's sequence number. Oracle: verdict and every stack snapshot equal the reference. distinct_nontrivial = distinct (script pair, flags) executions",
	})
	sp := NewSpace(p, "sigops", c06Check)
	p.Run = func(r *rep.Run, thorough bool) {
		if _, err := scriptref.Anchor(vectorsDir() + "/script_tests.json"); err != nil {
			r.HarnessError("script reference failed its anchor: " + err.Error())
			return
		}
		if !requireSighashAnchor(r) {
			return
		}
		var mu sync.Mutex
		accepted := 0
		chk := func(c c06Case) []rep.Finding {
			fs, lrOK := c06Run(c)
			if len(fs) == 0 {
				r.Distinct([]byte(c.Unlock), []byte(c.Lock), c.Flags, c.Shape, c.PrevStale, c.PreHashed)
			}
			if lrOK && len(fs) == 0 {
				mu.Lock()
				accepted++
				mu.Unlock()
			}
			return fs
		}
		s := &Space[c06Case]{P: p, Name: sp.Name, Check: chk}
		if os.Getenv("VERIF_C06_ONLY") == "nonsig" { // development aid: one family alone (never set by check.sh)
			s.Each(r, func(yield func(c06Case)) { c06UnparsableSigCases(yield, thorough) })
			s.Each(r, func(yield func(c06Case)) { c06TwinKeyAndSizeCases(yield, thorough) })
			return
		}
		s.Each(r, func(yield func(c06Case)) { c06ChecksigCases(yield, thorough) })
		s.Each(r, func(yield func(c06Case)) { c06ReturnTailCases(yield, thorough) })
		s.Each(r, func(yield func(c06Case)) { c06ChosenSCases(yield, thorough) })
		s.Each(r, func(yield func(c06Case)) { c06UnparsableSigCases(yield, thorough) })
		s.Each(r, func(yield func(c06Case)) { c06TwinKeyAndSizeCases(yield, thorough) })
		n1 := r.Evals()
		s.Each(r, func(yield func(c06Case)) { c06MultisigCases(yield, thorough) })
		s.Each(r, func(yield func(c06Case)) { c06CountCases(yield, thorough) })
		s.Each(r, func(yield func(c06Case)) { c06ShapeAndPushCases(yield, thorough) })
		r.Note("checksig_cases", n1)
		r.Note("checkmultisig_cases", r.Evals()-n1)
		r.Note("accepted_executions", accepted)
		r.Sample("sigops", map[string]any{"op": "CHECKSIG NOT", "sig": "high-s", "key": "hybrid", "hash_type": "0xc3", "flags": "STRICTENC,LOW_S,FORKID post-genesis"})
	}
}
