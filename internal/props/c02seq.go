package props

import (
	"bytes"
	"fmt"

	"github.com/libsv/go-bt/v2"
	"github.com/libsv/go-bt/v2/bscript"
	"github.com/libsv/go-bt/v2/sighash"

	"verif/internal/ref/sighashref"
	"verif/internal/ref/txref"
	"verif/internal/rep"
)

// txEdit is one in-place edit applied to the library tx and to the reference in parallel.
type txEdit struct {
	name string
	ok   func(r *txref.Tx) bool
	do   func(l *bt.Tx, r *txref.Tx)
}

func txEdits() []txEdit {
	last := func(n int) int { return n - 1 }
	return []txEdit{
		{"version", nil, func(l *bt.Tx, r *txref.Tx) { l.Version ^= 0x10; r.Version ^= 0x10 }},
		{"locktime", nil, func(l *bt.Tx, r *txref.Tx) { l.LockTime += 7; r.LockTime += 7 }},
		{"in0.vout", nil, func(l *bt.Tx, r *txref.Tx) { l.Inputs[0].PreviousTxOutIndex += 3; r.Ins[0].Vout += 3 }},
		{"inL.txid", nil, func(l *bt.Tx, r *txref.Tx) {
			k := last(len(r.Ins))
			id := txid32(0xd0)
			_ = l.Inputs[k].PreviousTxIDAdd(append([]byte(nil), id...))
			r.Ins[k].TxID = id
		}},
		{"in0.seq", nil, func(l *bt.Tx, r *txref.Tx) { l.Inputs[0].SequenceNumber ^= 1; r.Ins[0].Seq ^= 1 }},
		{"inL.seq", nil, func(l *bt.Tx, r *txref.Tx) {
			k := last(len(r.Ins))
			l.Inputs[k].SequenceNumber += 5
			r.Ins[k].Seq += 5
		}},
		{"inL.prevsats", nil, func(l *bt.Tx, r *txref.Tx) {
			k := last(len(r.Ins))
			l.Inputs[k].PreviousTxSatoshis += 11
			r.Ins[k].PrevSats += 11
		}},
		{"in0.prevscript", nil, func(l *bt.Tx, r *txref.Tx) {
			s := []byte{0x52, 0x53}
			l.Inputs[0].PreviousTxScript = bscript.NewFromBytes(append([]byte(nil), s...))
			r.Ins[0].PrevScript = s
		}},
		{"in0.prevscript-bytes-in-place", func(r *txref.Tx) bool { return len(r.Ins[0].PrevScript) > 0 }, func(l *bt.Tx, r *txref.Tx) {
			// the same Script object, its bytes rewritten in place
			(*l.Inputs[0].PreviousTxScript)[0] ^= 0x01
			r.Ins[0].PrevScript = append([]byte(nil), r.Ins[0].PrevScript...)
			r.Ins[0].PrevScript[0] ^= 0x01
		}},
		{"inL.prevscript-grown-in-place", nil, func(l *bt.Tx, r *txref.Tx) {
			k := last(len(r.Ins))
			// (the harness packs all scripts of a transaction into one buffer, so the owner grows its
			// script into memory of its own - appending in place would write into the neighbour)
			ps := l.Inputs[k].PreviousTxScript
			*ps = append(append(make([]byte, 0, len(*ps)+1), *ps...), 0x61)
			r.Ins[k].PrevScript = append(append([]byte(nil), r.Ins[k].PrevScript...), 0x61)
		}},
		{"out0.script-bytes-in-place", func(r *txref.Tx) bool { return len(r.Outs) > 0 && len(r.Outs[0].Script) > 0 }, func(l *bt.Tx, r *txref.Tx) {
			(*l.Outputs[0].LockingScript)[0] ^= 0x01
			r.Outs[0].Script = append([]byte(nil), r.Outs[0].Script...)
			r.Outs[0].Script[0] ^= 0x01
		}},
		{"in0.replace-pointer", nil, func(l *bt.Tx, r *txref.Tx) {
			o := l.Inputs[0]
			n := &bt.Input{PreviousTxOutIndex: o.PreviousTxOutIndex + 1, SequenceNumber: o.SequenceNumber, PreviousTxSatoshis: o.PreviousTxSatoshis, PreviousTxScript: o.PreviousTxScript, UnlockingScript: o.UnlockingScript}
			_ = n.PreviousTxIDAdd(o.PreviousTxID())
			l.Inputs[0] = n
			r.Ins[0].Vout++
		}},
		{"out0.value", func(r *txref.Tx) bool { return len(r.Outs) > 0 }, func(l *bt.Tx, r *txref.Tx) { l.Outputs[0].Satoshis += 9; r.Outs[0].Sats += 9 }},
		{"outL.value", func(r *txref.Tx) bool { return len(r.Outs) > 0 }, func(l *bt.Tx, r *txref.Tx) {
			k := last(len(r.Outs))
			l.Outputs[k].Satoshis ^= 0x100
			r.Outs[k].Sats ^= 0x100
		}},
		{"outL.script-inplace", func(r *txref.Tx) bool { return len(r.Outs) > 0 && len(r.Outs[len(r.Outs)-1].Script) > 0 }, func(l *bt.Tx, r *txref.Tx) {
			k := last(len(r.Outs))
			(*l.Outputs[k].LockingScript)[0] ^= 0x01
			r.Outs[k].Script = append([]byte(nil), r.Outs[k].Script...)
			r.Outs[k].Script[0] ^= 0x01
		}},
		{"out0.replace-pointer", func(r *txref.Tx) bool { return len(r.Outs) > 0 }, func(l *bt.Tx, r *txref.Tx) {
			l.Outputs[0] = &bt.Output{Satoshis: 77, LockingScript: bscript.NewFromBytes([]byte{0x51})}
			r.Outs[0] = txref.Out{Sats: 77, Script: []byte{0x51}}
		}},
		{"out.swap01", func(r *txref.Tx) bool { return len(r.Outs) > 1 }, func(l *bt.Tx, r *txref.Tx) {
			l.Outputs[0], l.Outputs[1] = l.Outputs[1], l.Outputs[0]
			r.Outs[0], r.Outs[1] = r.Outs[1], r.Outs[0]
		}},
		{"in.swap01", func(r *txref.Tx) bool { return len(r.Ins) > 1 }, func(l *bt.Tx, r *txref.Tx) {
			l.Inputs[0], l.Inputs[1] = l.Inputs[1], l.Inputs[0]
			r.Ins[0], r.Ins[1] = r.Ins[1], r.Ins[0]
		}},
		{"out.append", nil, func(l *bt.Tx, r *txref.Tx) {
			l.AddOutput(&bt.Output{Satoshis: 5, LockingScript: bscript.NewFromBytes([]byte{0x6a})})
			r.Outs = append(r.Outs, txref.Out{Sats: 5, Script: []byte{0x6a}})
		}},
		{"out.removeLast", func(r *txref.Tx) bool { return len(r.Outs) > 0 }, func(l *bt.Tx, r *txref.Tx) {
			l.Outputs = l.Outputs[:len(l.Outputs)-1]
			r.Outs = r.Outs[:len(r.Outs)-1]
		}},
		{"out.append+remove-first", func(r *txref.Tx) bool { return len(r.Outs) > 0 }, func(l *bt.Tx, r *txref.Tx) {
			l.AddOutput(&bt.Output{Satoshis: 6, LockingScript: bscript.NewFromBytes([]byte{0x00})})
			l.Outputs = l.Outputs[1:]
			r.Outs = append(r.Outs, txref.Out{Sats: 6, Script: []byte{0x00}})[1:]
		}},
		{"in.append", nil, func(l *bt.Tx, r *txref.Tx) {
			_ = l.FromUTXOs(&bt.UTXO{TxID: txid32(0xe1), Vout: 4, Satoshis: 44, LockingScript: bscript.NewFromBytes([]byte{0x51})})
			r.Ins = append(r.Ins, txref.In{TxID: txid32(0xe1), Vout: 4, Seq: 0xffffffff, PrevSats: 44, PrevScript: []byte{0x51}})
		}},
		{"in.removeLast", func(r *txref.Tx) bool { return len(r.Ins) > 1 }, func(l *bt.Tx, r *txref.Tx) {
			l.Inputs = l.Inputs[:len(l.Inputs)-1]
			r.Ins = r.Ins[:len(r.Ins)-1]
		}},
	}
}

type shSeqCase struct {
	R    txRecipe `json:"tx"`
	HT1  uint8    `json:"first_hash_type"`
	Idx1 int      `json:"first_idx"`
	Edit int      `json:"edit"`
	HT2  uint8    `json:"second_hash_type"`
	Idx2 int      `json:"second_idx"`
}

// shSeqCheck: hash, edit the transaction in place, hash again — the second
// result must be that of the edited transaction (works for both algorithms).
func shSeqCheck(c shSeqCase) (fs []rep.Finding) {
	ref := c.R.build()
	tx := toLib(ref)
	for i := range tx.Inputs { // every input needs a previous script
		if tx.Inputs[i].PreviousTxScript == nil {
			tx.Inputs[i].PreviousTxScript = bscript.NewFromBytes([]byte{0x51})
			ref.Ins[i].PrevScript = []byte{0x51}
		}
	}
	ed := txEdits()[c.Edit]
	if ed.ok != nil && !ed.ok(ref) {
		return nil
	}
	if _, err := tx.CalcInputSignatureHash(uint32(c.Idx1), sighash.Flag(c.HT1)); err != nil {
		return append(fs, rep.F("seq|unexpected-error", err.Error()))
	}
	ed.do(tx, ref)
	if c.Idx2 >= len(ref.Ins) {
		return nil
	}
	alg := "forkid"
	if c.HT2&0x40 == 0 {
		alg = "legacy"
	}
	got, err := tx.CalcInputSignatureHash(uint32(c.Idx2), sighash.Flag(c.HT2))
	if err != nil {
		return append(fs, rep.F("seq|unexpected-error", err.Error()))
	}
	var want []byte
	in := ref.Ins[c.Idx2]
	if alg == "forkid" {
		want = sighashref.ForkIDDigest(ref, c.Idx2, in.PrevScript, in.PrevSats, uint32(c.HT2))
	} else {
		want = sighashref.LegacyDigest(ref, c.Idx2, in.PrevScript, uint32(c.HT2))
	}
	if !bytes.Equal(got, want) {
		fs = append(fs, rep.F(alg+"|stale-after-edit|"+ed.name, fmt.Sprintf("hash after the in-place edit %q is not the hash of the edited transaction", ed.name)))
	}
	// and the transaction still serialises as the reference does
	if !bytes.Equal(tx.ExtendedBytes(), ref.Bytes(true)) {
		fs = append(fs, rep.F(alg+"|tx-modified-after-edit|"+ed.name, "transaction bytes differ from the edited reference"))
	}
	return
}

func shSeqCases(forkid bool, thorough bool) []shSeqCase {
	var out []shSeqCase
	hts := []uint8{0x01, 0x02, 0x03, 0x81, 0x82, 0x83}
	shapes := []txRecipe{
		{V: 1, LT: 5, NIn: 1, NOut: 1, Vout: 1, Seq: 0xfffffffe, SLen: 2, PrevSats: 900, PrevLen: 3, Sats: 500, OLen: 3},
		{V: 2, LT: 0, NIn: 2, NOut: 2, Vout: 0, Seq: 0xffffffff, SLen: 0, PrevSats: 900, PrevLen: 25, Sats: 500, OLen: 25},
		{V: 1, LT: 0, NIn: 3, NOut: 0, Vout: 7, Seq: 3, SLen: 1, PrevSats: 1, PrevLen: 1, Sats: 0, OLen: 0},
	}
	if thorough {
		shapes = append(shapes, txRecipe{V: 1, LT: 9, NIn: 2, NOut: 3, Vout: 2, Seq: 9, SLen: 3, PrevSats: 10, PrevLen: 2, Sats: 30, OLen: 1})
	}
	ne := len(txEdits())
	for _, sh := range shapes {
		for _, h1 := range hts {
			for _, h2 := range hts {
				if !thorough && h1 != h2 && h1 != 0x01 && h2 != 0x01 {
					continue
				}
				for i1 := 0; i1 < sh.NIn; i1++ {
					for i2 := 0; i2 < sh.NIn; i2++ {
						for e := 0; e < ne; e++ {
							c := shSeqCase{R: sh, HT1: h1, Idx1: i1, Edit: e, HT2: h2, Idx2: i2}
							if forkid {
								c.HT1 |= 0x40
								c.HT2 |= 0x40
							}
							out = append(out, c)
						}
					}
				}
			}
		}
	}
	return out
}
