package props

import (
	"encoding/json"
	"math/big"

	"github.com/libsv/go-bt/v2"
	"github.com/libsv/go-bt/v2/bscript"

	"verif/internal/ref/txref"
)

// quote is a fee quote (standard and data mining fee as satoshis per bytes).
type quote struct {
	SS, SB, DS, DB int
}

func (q quote) lib() *bt.FeeQuote {
	fq := bt.NewFeeQuote()
	fq.AddQuote(bt.FeeTypeStandard, &bt.Fee{FeeType: bt.FeeTypeStandard, MiningFee: bt.FeeUnit{Satoshis: q.SS, Bytes: q.SB}, RelayFee: bt.FeeUnit{Satoshis: q.SS, Bytes: q.SB}})
	fq.AddQuote(bt.FeeTypeData, &bt.Fee{FeeType: bt.FeeTypeData, MiningFee: bt.FeeUnit{Satoshis: q.DS, Bytes: q.DB}, RelayFee: bt.FeeUnit{Satoshis: q.DS, Bytes: q.DB}})
	return fq
}

// libForm builds the same quote through other call sequences: 1 each Fee carries the label of the
// other type (the slot it is added under is what counts), 2 unlabelled Fee values, 3 through
// FeeQuotes.UpdateMinerFees, 4 first filled with other rates and then updated, 5 one Fee object
// re-labelled between the two AddQuote calls
func (q quote) libForm(form int) *bt.FeeQuote {
	std := &bt.Fee{FeeType: bt.FeeTypeStandard, MiningFee: bt.FeeUnit{Satoshis: q.SS, Bytes: q.SB}, RelayFee: bt.FeeUnit{Satoshis: q.SS, Bytes: q.SB}}
	data := &bt.Fee{FeeType: bt.FeeTypeData, MiningFee: bt.FeeUnit{Satoshis: q.DS, Bytes: q.DB}, RelayFee: bt.FeeUnit{Satoshis: q.DS, Bytes: q.DB}}
	switch form {
	case 1:
		std.FeeType, data.FeeType = bt.FeeTypeData, bt.FeeTypeStandard
	case 2:
		std.FeeType, data.FeeType = "", ""
	case 3:
		fqs := bt.NewFeeQuotes("m")
		_, _ = fqs.UpdateMinerFees("m", bt.FeeTypeStandard, std)
		_, _ = fqs.UpdateMinerFees("m", bt.FeeTypeData, data)
		fq, _ := fqs.Quote("m")
		return fq
	case 4:
		fq := bt.NewFeeQuote()
		fq.AddQuote(bt.FeeTypeStandard, &bt.Fee{FeeType: bt.FeeTypeStandard, MiningFee: bt.FeeUnit{Satoshis: 977, Bytes: 3}, RelayFee: bt.FeeUnit{Satoshis: 977, Bytes: 3}})
		fq.AddQuote(bt.FeeTypeData, &bt.Fee{FeeType: bt.FeeTypeData, MiningFee: bt.FeeUnit{Satoshis: 13, Bytes: 7}, RelayFee: bt.FeeUnit{Satoshis: 13, Bytes: 7}})
		fq.AddQuote(bt.FeeTypeData, data)
		fq.AddQuote(bt.FeeTypeStandard, std)
		return fq
	case 5:
		fq := bt.NewFeeQuote()
		got, _ := q.lib().Fee(bt.FeeTypeStandard) // a Fee obtained from another quote, still labelled standard
		cp := *got
		cp.MiningFee, cp.RelayFee = data.MiningFee, data.RelayFee
		fq.AddQuote(bt.FeeTypeStandard, got)
		fq.AddQuote(bt.FeeTypeData, &cp)
		return fq
	case 10:
		// the relay fee says something else than the mining fee (the mining fee is the quoted fee; a
		// free-to-mine type with a relay fee stays free)
		std.RelayFee = bt.FeeUnit{Satoshis: 977, Bytes: 3}
		data.RelayFee = bt.FeeUnit{Satoshis: 13, Bytes: 7}
	case 9:
		// two miners' quotes were filled with the SAME Fee objects; the other miner's fees are then
		// refreshed through UpdateMinerFees with other rates: this miner's quote still says q
		fqs := bt.NewFeeQuotes("a")
		fqs.AddMiner("b", bt.NewFeeQuote())
		qa, _ := fqs.Quote("a")
		qb, _ := fqs.Quote("b")
		for _, fq := range []*bt.FeeQuote{qa, qb} {
			fq.AddQuote(bt.FeeTypeStandard, std)
			fq.AddQuote(bt.FeeTypeData, data)
		}
		_, _ = fqs.UpdateMinerFees("a", bt.FeeTypeStandard, &bt.Fee{FeeType: bt.FeeTypeStandard, MiningFee: bt.FeeUnit{Satoshis: 977, Bytes: 3}, RelayFee: bt.FeeUnit{Satoshis: 977, Bytes: 3}})
		_, _ = fqs.UpdateMinerFees("a", bt.FeeTypeData, &bt.Fee{FeeType: bt.FeeTypeData, MiningFee: bt.FeeUnit{Satoshis: 13, Bytes: 7}, RelayFee: bt.FeeUnit{Satoshis: 13, Bytes: 7}})
		return qb
	case 7, 8:
		// an existing quote object (fresh defaults / filled with other rates through AddQuote) is
		// refreshed from a JSON document carrying the wanted rates: afterwards it IS that quote
		doc, err := json.Marshal(q.lib())
		if err != nil {
			return q.lib()
		}
		fq := bt.NewFeeQuote()
		if form == 8 {
			fq.AddQuote(bt.FeeTypeStandard, &bt.Fee{FeeType: bt.FeeTypeStandard, MiningFee: bt.FeeUnit{Satoshis: 977, Bytes: 3}, RelayFee: bt.FeeUnit{Satoshis: 977, Bytes: 3}})
			fq.AddQuote(bt.FeeTypeData, &bt.Fee{FeeType: bt.FeeTypeData, MiningFee: bt.FeeUnit{Satoshis: 13, Bytes: 7}, RelayFee: bt.FeeUnit{Satoshis: 13, Bytes: 7}})
			_, _ = fq.Fee(bt.FeeTypeStandard)
		}
		if err := json.Unmarshal(doc, fq); err != nil {
			return q.lib()
		}
		return fq
	case 6:
		// another default quote's Fee objects are modified in place by their owner; for the
		// default rates (5/100) the quote handed back is a FRESH default quote, which must not care
		victim := bt.NewFeeQuote()
		for _, ft := range []bt.FeeType{bt.FeeTypeStandard, bt.FeeTypeData} {
			if f, err := victim.Fee(ft); err == nil {
				f.MiningFee, f.RelayFee = bt.FeeUnit{Satoshis: 977, Bytes: 3}, bt.FeeUnit{Satoshis: 977, Bytes: 3}
			}
		}
		if q == (quote{5, 100, 5, 100}) {
			return bt.NewFeeQuote()
		}
	}
	fq := bt.NewFeeQuote()
	fq.AddQuote(bt.FeeTypeStandard, std)
	fq.AddQuote(bt.FeeTypeData, data)
	return fq
}

func floorMulDiv(n uint64, s, b int) *big.Int {
	x := new(big.Int).Mul(new(big.Int).SetUint64(n), big.NewInt(int64(s)))
	return x.Div(x, big.NewInt(int64(b)))
}

// refSizes: total serialised length and the data-byte part (script bytes of
// data-carrier outputs) of a reference transaction.
func refSizes(t *txref.Tx) (total, std, data uint64) {
	total = uint64(len(t.Bytes(false)))
	for _, o := range t.Outs {
		if refIsData(o.Script) {
			data += uint64(len(o.Script))
		}
	}
	return total, total - data, data
}

// refFee = floor(std*ss/sb) + floor(data*ds/db)
func refFee(std, data uint64, q quote) *big.Int {
	return new(big.Int).Add(floorMulDiv(std, q.SS, q.SB), floorMulDiv(data, q.DS, q.DB))
}

// refEstimated returns a copy in which every input without an unlocking script
// carries a 107-byte placeholder (signature push 73 + key push 34).
func refEstimated(t *txref.Tx) *txref.Tx {
	c := *t
	c.Ins = append([]txref.In(nil), t.Ins...)
	for i := range c.Ins {
		if len(c.Ins[i].Script) == 0 {
			c.Ins[i].Script = make([]byte, 107)
		}
	}
	return &c
}

func p2pkhIn(i int, sats uint64) txref.In {
	return txref.In{TxID: txid32(byte(0x40 + i)), Vout: uint32(i), Seq: 0xffffffff, PrevSats: sats, PrevScript: refP2PKH(fill(20, byte(i+1)))}
}

func libScript(b []byte) *bscript.Script { return bscript.NewFromBytes(append([]byte(nil), b...)) }

func sumIn(t *txref.Tx) *big.Int {
	s := new(big.Int)
	for _, in := range t.Ins {
		s.Add(s, new(big.Int).SetUint64(in.PrevSats))
	}
	return s
}

func sumOut(t *txref.Tx) *big.Int {
	s := new(big.Int)
	for _, o := range t.Outs {
		s.Add(s, new(big.Int).SetUint64(o.Sats))
	}
	return s
}
