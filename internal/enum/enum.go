// Package enum drives exhaustive enumeration: every element of a finite,
// indexed or generated space is handed to a check function on one of the
// worker goroutines; panics are contained per case; every reported finding
// is re-executed to confirm it is deterministic before it is believed.
package enum

import (
	"fmt"
	"runtime"
	"runtime/debug"
	"sync"
	"sync/atomic"

	"verif/internal/rep"
)

// Workers is the degree of parallelism.
var Workers = runtime.NumCPU()

// Check evaluates one case and returns the oracle failures (nil = holds).
type Check[C any] func(c C) []rep.Finding

func safe[C any](check Check[C], c C) (fs []rep.Finding) {
	defer func() {
		if v := recover(); v != nil {
			st := debug.Stack()
			key, msg := rep.PanicKey(v, st)
			fs = append(fs, rep.Finding{Key: key, What: "panic: " + msg,
				Detail: map[string]any{"stack": string(trim(st))}})
		}
	}()
	return check(c)
}

func trim(b []byte) []byte {
	if len(b) > 3000 {
		return b[:3000]
	}
	return b
}

func handle[C any](r *rep.Run, space string, check Check[C], c C, fs []rep.Finding) {
	if len(fs) == 0 {
		return
	}
	// determinism guard: the same case must fail again, twice. A re-run that passes means
	// the failure cannot be trusted (harness error, nothing reported); a re-run that fails with
	// other keys (a library whose behaviour depends on what other workers do at the same time,
	// e.g. a shared buffer pool) still confirms that the case fails: the first run's findings
	// are reported.
	for i := 0; i < 2; i++ {
		again := safe(check, c)
		if len(again) == 0 {
			r.HarnessError(fmt.Sprintf("nondeterministic oracle in %s: %v, then no finding on re-execution (case %+v)", space, keys(fs), c))
			return
		}
	}
	for _, f := range fs {
		r.Report(space, c, f)
	}
}

func keys(fs []rep.Finding) []string {
	k := make([]string, len(fs))
	for i, f := range fs {
		k[i] = f.Key
	}
	return k
}

// Indexed explores the space {mk(0),…,mk(n-1)} completely.
func Indexed[C any](r *rep.Run, space string, n uint64, mk func(i uint64) C, check Check[C]) {
	var next atomic.Uint64
	const batch = 256
	var wg sync.WaitGroup
	for w := 0; w < Workers; w++ {
		wg.Add(1)
		go func() {
			defer wg.Done()
			for {
				lo := next.Add(batch) - batch
				if lo >= n {
					return
				}
				hi := lo + batch
				if hi > n {
					hi = n
				}
				for i := lo; i < hi; i++ {
					c := mk(i)
					fs := safe(check, c)
					if len(fs) > 0 {
						handle(r, space, check, c, fs)
					}
				}
				r.Eval(hi - lo)
			}
		}()
	}
	wg.Wait()
}

// Each explores every case the generator yields (generator runs on one goroutine).
func Each[C any](r *rep.Run, space string, gen func(yield func(C)), check Check[C]) {
	ch := make(chan []C, Workers*2)
	var wg sync.WaitGroup
	for w := 0; w < Workers; w++ {
		wg.Add(1)
		go func() {
			defer wg.Done()
			for b := range ch {
				for _, c := range b {
					fs := safe(check, c)
					if len(fs) > 0 {
						handle(r, space, check, c, fs)
					}
				}
				r.Eval(uint64(len(b)))
			}
		}()
	}
	buf := make([]C, 0, 128)
	gen(func(c C) {
		buf = append(buf, c)
		if len(buf) == cap(buf) {
			ch <- buf
			buf = make([]C, 0, 128)
		}
	})
	if len(buf) > 0 {
		ch <- buf
	}
	close(ch)
	wg.Wait()
}

// Slice explores every element of cs.
func Slice[C any](r *rep.Run, space string, cs []C, check Check[C]) {
	Indexed(r, space, uint64(len(cs)), func(i uint64) C { return cs[i] }, check)
}

// Product calls f with every index vector of the given radices (odometer).
func Product(radices []int, f func(idx []int)) {
	for _, r := range radices {
		if r == 0 {
			return
		}
	}
	idx := make([]int, len(radices))
	for {
		f(idx)
		i := len(idx) - 1
		for ; i >= 0; i-- {
			idx[i]++
			if idx[i] < radices[i] {
				break
			}
			idx[i] = 0
		}
		if i < 0 {
			return
		}
	}
}
