package props

import (
	"bytes"
	"encoding/json"
	"fmt"
	"runtime"
	"runtime/debug"
	"sync"

	"github.com/libsv/go-bt/v2"
	"github.com/libsv/go-bt/v2/bscript"
	"github.com/libsv/go-bt/v2/bscript/interpreter"
	"github.com/libsv/go-bt/v2/bscript/interpreter/scriptflag"

	"verif/internal/ref/scriptref"
	"verif/internal/rep"
	"verif/internal/worker"
)

type c07Case struct {
	Unlock HB     `json:"unlock"`
	Lock   HB     `json:"lock"`
	Flags  uint32 `json:"flags"`
	Ctx    int    `json:"ctx"` // see c07CtxNames
	Idx    int    `json:"idx"`
	Dbg    int    `json:"debugger"` // 0 none, 1 recording, 2 debug.NewDebugger fan-out, 3 scribbling
	// Reuse: the same Engine value then executes the same script pair again in context Ctx2
	Reuse bool `json:"engine_reused,omitempty"`
	Ctx2  int  `json:"second_ctx,omitempty"`
	// Warm > 0: the Engine value first executed warm-up program Warm (see c07Warmups), whatever came of it
	Warm int `json:"engine_warmed_up_with,omitempty"`
}

// c07Warmups: programs that leave as much state behind in an interpreter as one execution can (P2SH
// hand-over, early return, errors inside conditionals with items on both stacks, deep stacks).
var c07Warmups = []struct {
	name         string
	unlock, lock []byte
	flags        uint32
}{
	{"P2SH spend", []byte{0x01, 0x51}, append(append([]byte{0xa9, 0x14}, refHash160([]byte{0x51})...), 0x87), uint32(scriptflag.Bip16)},
	{"P2SH spend with clean stack", []byte{0x01, 0x51}, append(append([]byte{0xa9, 0x14}, refHash160([]byte{0x51})...), 0x87), uint32(scriptflag.Bip16 | scriptflag.VerifyCleanStack)},
	{"after genesis: OP_RETURN inside an unterminated conditional", []byte{0x51}, []byte{0x63, 0x6a}, uint32(scriptflag.UTXOAfterGenesis)},
	{"after genesis: early return", []byte{0x51}, []byte{0x51, 0x6a, 0xff}, uint32(scriptflag.UTXOAfterGenesis)},
	{"failure inside nested conditionals with alt-stack items", []byte{0x51, 0x6b}, []byte{0x51, 0x6b, 0x51, 0x63, 0x00, 0x64, 0x52, 0x6b, 0x00, 0x69}, 0},
	{"forty items and an unknown opcode", nil, append(bytes.Repeat([]byte{0x51, 0x76, 0x6b}, 20), 0xff), uint32(scriptflag.UTXOAfterGenesis)},
	{"code separator then failure", []byte{0x51}, []byte{0xab, 0x51, 0xab, 0x00, 0x69}, uint32(scriptflag.EnableSighashForkID)},
}

var c07CtxNames = []string{"scripts only (no tx)", "1-in/1-out tx", "2-in/0-out tx", "3-in tx, other inputs unsigned", "tx whose previous txid has 31 bytes (built through the JSON API)",
	"tx given, previous output nil, scripts given", "tx given, previous output without script, scripts given", "nil tx with a previous output, scripts given", "tx with no inputs",
	"tx whose checked input never had a previous txid set", "tx whose checked input has an empty previous txid (decoded from JSON without one)",
	"tx with an output that was added without a locking script"}

const c07NCtx = 12

func c07Exec(c c07Case) error {
	eng := interpreter.NewEngine()
	if c.Warm > 0 {
		w := c07Warmups[c.Warm-1]
		_ = eng.Execute(c07Opts(c07Case{Unlock: w.unlock, Lock: w.lock, Flags: w.flags}, 1)...)
	}
	err := eng.Execute(c07Opts(c, c.Ctx)...)
	if c.Reuse {
		err = eng.Execute(c07Opts(c, c.Ctx2)...)
	}
	return err
}

func c07Opts(c c07Case, ctx int) []interpreter.ExecutionOptionFunc {
	lock, unlock := libScript(c.Lock), libScript(c.Unlock)
	var opts []interpreter.ExecutionOptionFunc
	mkTx := func(nin, nout int) *bt.Tx {
		tx := &bt.Tx{Version: 2, LockTime: 100}
		for i := 0; i < nin; i++ {
			in := &bt.Input{PreviousTxOutIndex: uint32(i), SequenceNumber: 0xfffffffe}
			_ = in.PreviousTxIDAdd(txid32(byte(i + 1)))
			in.UnlockingScript = libScript(c.Unlock)
			tx.Inputs = append(tx.Inputs, in)
		}
		for i := 0; i < nout; i++ {
			tx.Outputs = append(tx.Outputs, &bt.Output{Satoshis: 10, LockingScript: libScript([]byte{0x51})})
		}
		return tx
	}
	prev := &bt.Output{Satoshis: 1000, LockingScript: lock}
	switch ctx {
	case 0:
		opts = append(opts, interpreter.WithScripts(lock, unlock))
	case 1:
		opts = append(opts, interpreter.WithTx(mkTx(1, 1), c.Idx, prev))
	case 2:
		opts = append(opts, interpreter.WithTx(mkTx(2, 0), c.Idx, prev))
	case 3:
		tx := mkTx(3, 1)
		for i := range tx.Inputs {
			if i != c.Idx {
				tx.Inputs[i].UnlockingScript = nil
			}
		}
		opts = append(opts, interpreter.WithTx(tx, c.Idx, prev))
	case 4:
		tx := mkTx(1, 1)
		var in bt.Input
		doc := fmt.Sprintf(`{"unlockingScript":"%s","txid":"%x","vout":0,"sequence":5}`, unlock.String(), txid32(7)[:31])
		if err := json.Unmarshal([]byte(doc), &in); err == nil {
			tx.Inputs[0] = &in
		}
		opts = append(opts, interpreter.WithTx(tx, c.Idx, prev))
	case 9, 10:
		tx := mkTx(2, 1)
		for i := range tx.Inputs {
			ni := &bt.Input{PreviousTxOutIndex: uint32(i), SequenceNumber: 0xfffffffe, UnlockingScript: libScript(c.Unlock)}
			if ctx == 10 {
				_ = json.Unmarshal([]byte(fmt.Sprintf(`{"unlockingScript":"%s","vout":%d,"sequence":7}`, unlock.String(), i)), ni)
			}
			tx.Inputs[i] = ni
		}
		opts = append(opts, interpreter.WithTx(tx, c.Idx, prev))
	case 11:
		tx := mkTx(2, 1)
		tx.AddOutput(&bt.Output{Satoshis: 1})
		opts = append(opts, interpreter.WithTx(tx, c.Idx, prev))
	case 5:
		opts = append(opts, interpreter.WithTx(mkTx(1, 1), c.Idx, nil), interpreter.WithScripts(lock, unlock))
	case 6:
		opts = append(opts, interpreter.WithTx(mkTx(1, 1), c.Idx, &bt.Output{Satoshis: 5}), interpreter.WithScripts(lock, unlock))
	case 7:
		opts = append(opts, interpreter.WithTx(nil, c.Idx, prev), interpreter.WithScripts(lock, unlock))
	case 8:
		opts = append(opts, interpreter.WithTx(&bt.Tx{Version: 1}, c.Idx, prev), interpreter.WithScripts(lock, unlock))
	}
	opts = append(opts, interpreter.WithFlags(scriptflag.Flag(c.Flags)))
	switch c.Dbg {
	case 1:
		opts = append(opts, interpreter.WithDebugger(&recorder{}))
	case 2:
		opts = append(opts, interpreter.WithDebugger(fanOut(&recorder{})))
	case 3:
		opts = append(opts, interpreter.WithDebugger(&recorder{scribble: true}))
	}
	return opts
}

func c07Check(c c07Case) (fs []rep.Finding) {
	a0 := allocated()
	defer func() {
		// resource bound: executing a script of a few bytes must not allocate by the hundreds of megabytes
		if d := allocated() - a0; d > 32<<20 {
			fs = append(fs, rep.F(fmt.Sprintf("allocation|ctx=%d", c.Ctx), fmt.Sprintf("Execute allocated %d bytes for a %d-byte script pair", d, len(c.Lock)+len(c.Unlock))))
			runtime.GC()
			debug.FreeOSMemory()
		}
	}()
	if f := rep.Guard(func() { _ = c07Exec(c) }); f != nil {
		f.Key = fmt.Sprintf("%s|ctx=%d", f.Key, c.Ctx)
		f.What += " — context: " + c07CtxNames[c.Ctx]
		if c.Warm > 0 {
			f.Key += "|engine-warmed-up"
			f.What += " — the Engine had executed before: " + c07Warmups[c.Warm-1].name
		}
		if c.Reuse {
			f.Key = fmt.Sprintf("%s>%d|engine-reused", f.Key, c.Ctx2)
			f.What += ", then on the same Engine: " + c07CtxNames[c.Ctx2]
		}
		fs = append(fs, *f)
	}
	return
}

// representative scripts: one per opcode with operands, plus templates
var (
	c07Once    sync.Once
	c07Scripts [][2][]byte // unlock, lock
)

func c07ScriptSet() [][2][]byte {
	c07Once.Do(func() {
		add := func(u, l []byte) { c07Scripts = append(c07Scripts, [2][]byte{u, l}) }
		ops := [][]byte{{}, {0x01}, {0x09}, {0x01, 0x80}}
		for op := 0; op < 256; op++ {
			lock := lockFor(byte(op))
			add(nil, lock)
			add(pushAll(ops[1]), lock)
			add(pushAll(ops[1], ops[2]), lock)
			add(pushAll(ops[3], ops[3], ops[1]), lock)
			add(pushAll(ops[0], ops[0], ops[0]), append([]byte{0x63}, append(lock, 0x68, 0x51)...))
		}
		tp := c14Templates()
		k := keyOf(0)
		sigLike := append([]byte{0x30, 0x06, 0x02, 0x01, 0x01, 0x02, 0x01, 0x01}, 0x41)
		for _, l := range [][]byte{tp["p2pkh"], tp["p2pk33"], tp["p2sh"], tp["ms2of3"], tp["ms1of1"], tp["inscription"], tp["opreturn"], tp["falsereturn"]} {
			add(nil, l)
			add(pushAll(sigLike, k.comp), l)
			add(pushAll([]byte{}, sigLike, sigLike), l)
			add(pushAll([]byte{}, []byte{0x01}, []byte{0x02}), l)
		}
		// multisig with junk signatures / keys / counts
		for _, nk := range [][]byte{{}, {0x01}, {0x02}, {0x14}, {0x15}, {0x81}, {0xff, 0xff, 0xff, 0x7f}, {0, 0, 0, 0, 0x01}, {0xfe, 0xff, 0xff, 0x7f}, {0x00, 0x00, 0x00, 0x01}, {0x00, 0x00, 0x00, 0x40}} {
			for _, ns := range [][]byte{{}, {0x01}, {0x02}, {0x81}} {
				add(pushAll([]byte{}, sigLike, sigLike, ns, k.comp, k.unc, nk), []byte{0xae})
				add(pushAll([]byte{}, []byte{0x01, 0x02, 0x03}, []byte{0x01, 0x02, 0x03}, ns, k.comp, []byte{0x02, 0x03}, nk), []byte{0xae})
				add(pushAll(ns, nk), []byte{0xae})
			}
		}
		// signatures of every malformed class against CHECKSIG
		for _, sg := range [][]byte{{}, {0x41}, {0x30, 0x41}, sigLike, sigLike[:5], append(fill(80, 0x30), 0x41), {0x30, 0x06, 0x02, 0x01, 0x81, 0x02, 0x01, 0x01, 0x01}} {
			for _, key := range [][]byte{{}, {0x02}, k.comp, k.unc, k.hyb, k.comp[:32], fill(33, 0x05), fill(65, 0x04)} {
				add(pushAll(sg, key), []byte{0xac})
				add(pushAll(sg, key), []byte{0xab, 0xad, 0x51})
			}
		}
		// every hash-type class on a well-formed signature, for CHECKSIG and CHECKMULTISIG (digest paths)
		for _, ht := range []byte{0x00, 0x01, 0x02, 0x03, 0x04, 0x41, 0x42, 0x43, 0x81, 0x82, 0x83, 0xc1, 0xc2, 0xc3, 0x61, 0xff} {
			sg := append(append([]byte(nil), sigLike[:8]...), ht)
			add(pushAll(sg, k.comp), []byte{0xac})
			add(pushAll(sg, k.comp), tp["p2pkh"])
			add(pushAll([]byte{}, sg, []byte{0x01}, k.comp, []byte{0x01}), []byte{0xae})
		}
		// every prefix of a well-formed DER signature and every header byte set to boundary values,
		// with a hash-type byte appended: the encoding checks must not index past the end
		der := []byte{0x30, 0x0a, 0x02, 0x03, 0x01, 0x02, 0x03, 0x02, 0x03, 0x04, 0x05, 0x06}
		var ders [][]byte
		for n := 0; n <= len(der); n++ {
			ders = append(ders, append(append([]byte(nil), der[:n]...), 0x41))
			ders = append(ders, append(append(append([]byte(nil), der[:n]...), 0x00), 0x41))
		}
		for pos := 0; pos < len(der); pos++ {
			for _, v := range []byte{0x00, 0x01, 0x02, 0x03, 0x08, 0x09, 0x0a, 0x0b, 0x20, 0x7f, 0x80, 0xff} {
				m := append([]byte(nil), der...)
				m[pos] = v
				ders = append(ders, append(m, 0x41))
			}
		}
		// header-consistent signatures whose R/S length fields point at, just before or beyond the end
		for L := 8; L <= 12; L++ {
			for rl := 0; rl <= L; rl++ {
				for sl := 0; sl <= 6; sl++ {
					b := make([]byte, L)
					for i := range b {
						b[i] = 0x01
					}
					b[0], b[1], b[2], b[3] = 0x30, byte(L-2), 0x02, byte(rl)
					if 4+rl < L {
						b[4+rl] = 0x02
					}
					if 5+rl < L {
						b[5+rl] = byte(sl)
					}
					ders = append(ders, append(b, 0x41))
					if 6+rl < L {
						z := append([]byte(nil), b...)
						z[6+rl] = 0x00 // leading zero of S
						ders = append(ders, append(z, 0x41))
					}
				}
			}
		}
		for _, sg := range ders {
			add(pushAll(sg, k.comp), []byte{0xac})
			add(pushAll([]byte{}, sg, []byte{0x01}, k.comp, []byte{0x01}), []byte{0xae})
		}
		// scripts that end early or are empty on either side
		for _, u := range [][]byte{nil, {0x51}, {0x51, 0x6a}, {0x6a}, {0x51, 0x6a, 0x4c}, {0x00, 0x63, 0x6a, 0x68, 0x51}} {
			for _, l := range [][]byte{nil, {0x51}, {0x6a}, {0x51, 0x6a}, {0x61}} {
				add(u, l)
			}
		}
		// unlocking scripts that execute OP_CODESEPARATOR / fill the alt stack and then end early,
		// against short locking scripts that reach a signature check or go on with the alt stack
		for _, u := range [][]byte{{0x51, 0x51, 0x61, 0xab, 0x6a}, {0x51, 0xab, 0x6a}, {0xab, 0x51, 0x6a}, {0x51, 0x51, 0xab, 0x61, 0xab}, {0x51, 0x6b, 0x51, 0x6b, 0x51, 0x6a},
			{0x51, 0x6b, 0x51}, {0x51, 0x6b, 0x52, 0x6b, 0x53, 0x6b, 0x51}, {0x51, 0x63, 0xab, 0x6a, 0x68}} {
			for _, l := range [][]byte{{0xac}, {0xae}, {0xad, 0x51}, bytesJoin(minimalPush(k.comp), []byte{0xac}), tp["p2pkh"], {0x6c}, {0x6c, 0x6c, 0x6c}, {0x51, 0x51, 0xae}, {0xab, 0xac}, {0x00, 0x00, 0xae}} {
				add(u, l)
			}
		}
		// signature checks in scripts that go on after a top-level OP_RETURN: every one-byte tail
		for b := 0; b < 256; b++ {
			add(pushAll(sigLike), bytesJoin(minimalPush(k.comp), []byte{0xac, 0x6a, byte(b)}))
			add(pushAll([]byte{}, sigLike), bytesJoin([]byte{0x51}, minimalPush(k.comp), []byte{0x51, 0xae, 0x6a, byte(b)}))
		}
		for _, tl := range [][]byte{{}, {0x01, 0x01}, {0x4c, 0x00}, {0x4d, 0x00}, {0x01, 0x02, 0x03}, {0x4e, 0xff, 0xff, 0xff, 0xff}} {
			add(pushAll(sigLike), bytesJoin(minimalPush(k.comp), []byte{0xac, 0x6a}, tl))
			add(bytesJoin(pushAll(sigLike), []byte{0x6a}, tl), bytesJoin(minimalPush(k.comp), []byte{0xac}))
		}
		add([]byte{0x4c}, []byte{0x51})
		add([]byte{0x51}, []byte{0x4e, 0xff, 0xff, 0xff, 0x7f})
		add([]byte{0x51}, []byte{0x4e, 0xff, 0xff, 0xff, 0xff})
		add(nil, nil)
		add([]byte{}, []byte{})
		add([]byte{0x51}, []byte{0x6a, 0x4c})
		add([]byte{0x51, 0x6a, 0xff}, []byte{0x6c})
		// signature checks over script code made of (almost) nothing but wide push headers
		for _, pd := range [][]byte{{0x4c, 0x00}, {0x4d, 0x00, 0x00}, {0x4e, 0x00, 0x00, 0x00, 0x00}, {0x4e, 0x00, 0x00, 0x00, 0x00, 0x75, 0x4e, 0x00, 0x00, 0x00, 0x00, 0x75, 0x4e, 0x00, 0x00, 0x00, 0x00},
			{0x4d, 0x01, 0x00, 0x07}, {0x4e, 0x01, 0x00, 0x00, 0x00, 0x07}} {
			add(pushAll(sigLike, k.comp), bytesJoin(pd, []byte{0x75, 0xac}))
			add(pushAll(sigLike, k.comp), bytesJoin(pd, []byte{0x75, 0xad, 0x51}))
			add(pushAll([]byte{}, sigLike), bytesJoin(pd, []byte{0x75, 0x51}, minimalPush(k.comp), []byte{0x51, 0xae}))
			add(pushAll(sigLike, k.comp), bytesJoin([]byte{0x00, 0x63}, pd, pd, pd, []byte{0x68, 0xac}))
			add(bytesJoin(pd, []byte{0x75}, pushAll(sigLike, k.comp), []byte{0xac}), []byte{0x61})
		}
	})
	return c07Scripts
}

var c07FlagSubset = []uint32{0, 0xffff, uint32(scriptflag.UTXOAfterGenesis), uint32(scriptflag.Bip16), uint32(scriptflag.Bip16 | scriptflag.VerifyCleanStack), uint32(scriptflag.VerifyCleanStack),
	uint32(scriptflag.EnableSighashForkID), uint32(scriptflag.EnableSighashForkID | scriptflag.UTXOAfterGenesis), uint32(scriptflag.VerifyCheckLockTimeVerify | scriptflag.VerifyCheckSequenceVerify),
	uint32(scriptflag.VerifyStrictEncoding | scriptflag.VerifyDERSignatures | scriptflag.VerifyLowS | scriptflag.VerifyNullFail | scriptflag.StrictMultiSig),
	uint32(scriptflag.VerifyBip143SigHash | scriptflag.EnableSighashForkID), uint32(scriptflag.VerifyMinimalData | scriptflag.VerifyMinimalIf | scriptflag.VerifySigPushOnly),
	0xffff &^ uint32(scriptflag.UTXOAfterGenesis), 0xffff &^ uint32(scriptflag.VerifyCleanStack), uint32(scriptflag.UTXOAfterGenesis | scriptflag.VerifyCheckLockTimeVerify), 0x5555}

// index spaces
//
//	A: flagsweep   — every flag word 0..65535 x a 64-script subset, ctx 1, no debugger
//	B: contexts    — script set x 16 flag words x 11 contexts x 5 indices x debuggers
//	C: bytes       — every byte string of length<=2 as locking script x 3 unlocking seeds x 4 flag words x ctx {0,1}
func c07Sizes(thorough bool) (a, b, c uint64) {
	a, b, c, _ = c07Sizes4(thorough)
	return
}

var c07ReuseFlags = []uint32{0, uint32(scriptflag.EnableSighashForkID | scriptflag.UTXOAfterGenesis), 0xffff &^ uint32(scriptflag.VerifyCleanStack)}

// D: reuse — one Engine value executing the same script pair twice, in every ordered pair of the 12 contexts
func c07Sizes4(thorough bool) (a, b, c, d uint64) {
	ns := uint64(len(c07ScriptSet()))
	sub := uint64(64)
	if thorough {
		sub = 256
	}
	a = 65536 * sub
	dbg := uint64(2)
	if thorough {
		dbg = 4
	}
	b = ns * uint64(len(c07FlagSubset)) * c07NCtx * 5 * dbg
	c = (1 + 256 + 65536) * 3 * 4 * 2
	d = ns * uint64(len(c07ReuseFlags)) * c07NCtx * c07NCtx
	return
}

// E: warm-ups - one Engine value that executed a warm-up program, then each script pair under 4 flag words
var c07WarmFlags = []uint32{0, uint32(scriptflag.Bip16), uint32(scriptflag.UTXOAfterGenesis), uint32(scriptflag.EnableSighashForkID | scriptflag.VerifyCleanStack | scriptflag.Bip16)}

func c07SizeE() uint64 {
	return uint64(len(c07ScriptSet())) * uint64(len(c07Warmups)) * uint64(len(c07WarmFlags)) * 2
}

var c07Idx = []int{-1, 0, 1, 2, 1<<31 - 1}

func c07At(thorough bool, i uint64) c07Case {
	a, b, cN, dN := c07Sizes4(thorough)
	set := c07ScriptSet()
	switch {
	case i >= a+b+cN+dN:
		i -= a + b + cN + dN
		dbg := int(i % 2)
		i /= 2
		f := c07WarmFlags[i%uint64(len(c07WarmFlags))]
		i /= uint64(len(c07WarmFlags))
		w := int(i%uint64(len(c07Warmups))) + 1
		s := set[i/uint64(len(c07Warmups))]
		return c07Case{Unlock: s[0], Lock: s[1], Flags: f, Ctx: 1, Idx: 0, Dbg: dbg * 2, Warm: w}
	case i < a:
		sub := a / 65536
		s := set[(i%sub)*uint64(len(set))/sub]
		return c07Case{Unlock: s[0], Lock: s[1], Flags: uint32(i / sub), Ctx: 1, Idx: 0}
	case i < a+b:
		i -= a
		dbgN := uint64(2)
		if thorough {
			dbgN = 4
		}
		dbg := []int{0, 1, 2, 3}[i%dbgN]
		if !thorough && dbg == 1 {
			dbg = 2 + int(i/7%2) // alternate fan-out and scribbling
		}
		i /= dbgN
		idx := c07Idx[i%5]
		i /= 5
		ctx := int(i % c07NCtx)
		i /= c07NCtx
		f := c07FlagSubset[i%uint64(len(c07FlagSubset))]
		i /= uint64(len(c07FlagSubset))
		s := set[i]
		return c07Case{Unlock: s[0], Lock: s[1], Flags: f, Ctx: ctx, Idx: idx, Dbg: dbg}
	case i >= a+b+cN:
		i -= a + b + cN
		c1, c2 := int(i%c07NCtx), int(i/c07NCtx%c07NCtx)
		i /= c07NCtx * c07NCtx
		f := c07ReuseFlags[i%uint64(len(c07ReuseFlags))]
		s := set[i/uint64(len(c07ReuseFlags))]
		return c07Case{Unlock: s[0], Lock: s[1], Flags: f, Ctx: c1, Idx: 0, Reuse: true, Ctx2: c2}
	default:
		i -= a + b
		ctx := int(i % 2)
		i /= 2
		f := []uint32{0, uint32(scriptflag.UTXOAfterGenesis), 0xffff &^ uint32(scriptflag.VerifyCleanStack), uint32(scriptflag.VerifyMinimalData | scriptflag.UTXOAfterGenesis | scriptflag.VerifyCheckLockTimeVerify | scriptflag.VerifyCheckSequenceVerify)}[i%4]
		i /= 4
		seed := [][]byte{nil, {0x51, 0x52}, {0x02, 0x01, 0x80, 0x00}}[i%3]
		i /= 3
		var lock []byte
		switch {
		case i == 0:
		case i < 257:
			lock = []byte{byte(i - 1)}
		default:
			lock = []byte{byte((i - 257) >> 8), byte(i - 257)}
		}
		return c07Case{Unlock: seed, Lock: lock, Flags: f, Ctx: ctx}
	}
}

func init() {
	p := register(&Prop{ID: "C07", Level: "model_checking",
		Rule: "exhaustive exploration of Engine.Execute in isolated child processes (panic recovered per case; log.Fatal / out-of-memory / hang attributed through a progress marker and reproduced twice): (A) ALL 65,536 flag words x 64 (quick) / 256 (thorough) representative script pairs with a transaction; (B) ~2,300 script pairs (every opcode with 0/1/2/3 operands and inside an unexecuted branch, signature checks followed by a top-level OP_RETURN and every one-byte tail, unlocking scripts that execute OP_CODESEPARATOR or fill the alt stack and end early against short signature-checking locking scripts, standard templates, multisig with junk signatures/keys/counts incl. 2^31-1 and 2^32, every malformed-signature class x key encodings, truncated pushes, signature checks over script code made of wide empty push headers) x 16 flag words x 12 transaction contexts (none; 1-in/1-out; 2-in/0-out; other inputs unsigned; 31-byte previous txid built through JSON; nil previous output; previous output without script; nil tx; tx without inputs; inputs that never had a previous txid; inputs with an empty one; a transaction one of whose outputs was added without a locking script) x input index {-1,0,1,2,2^31-1} x debugger {none, recording, fan-out, scribbling}; (C) every byte string of length<=2 as locking script x 3 unlocking seeds x 4 flag words x with/without transaction; (D) one Engine value executing each of the script pairs twice, in every ordered pair of the 12 contexts x 3 flag words; (E) one Engine value that first executed one of 7 warm-up programs (P2SH spends, early return, OP_RETURN inside an unterminated conditional, failures inside nested conditionals with alt-stack items, deep stacks, code separators) and then each script pair x 4 flag words x with/without debugger. Oracle: Execute returns nil or an error, and allocates less than 32 MiB. The lockstep checks C05/C08/C19 additionally run ~10^7 executions under the same panic containment. states = distinct (context, debugger, outcome class) combinations; transitions = executions",
	})
	NewSpace(p, "c07", c07Check)
	worker.Register(&worker.Space{
		Name: "c07",
		N: func(th bool) uint64 {
			a, b, c, d := c07Sizes4(th)
			return a + b + c + d + c07SizeE()
		},
		Case:  func(th bool, i uint64) any { return c07At(th, i) },
		Check: func(th bool, i uint64) []rep.Finding { return c07Check(c07At(th, i)) },
		Class: func(th bool, i uint64) string {
			c := c07At(th, i)
			err := c07Exec(c)
			if c.Reuse {
				return fmt.Sprintf("reuse|ctx%d>ctx%d|%s", c.Ctx, c.Ctx2, errCode(err))
			}
			if c.Warm > 0 {
				return fmt.Sprintf("warm%d|%s", c.Warm, errCode(err))
			}
			return fmt.Sprintf("ctx%d|dbg%d|idx%d|%s", c.Ctx, c.Dbg, c.Idx, errCode(err))
		},
	})
	p.Run = func(r *rep.Run, thorough bool) {
		a, b, c, d := c07Sizes4(thorough)
		r.Note("space_sizes", map[string]uint64{"flagsweep": a, "contexts": b, "bytes": c, "engine_reuse": d, "engine_warm_ups": c07SizeE()})
		worker.Run(r, "c07", thorough, 16)
		r.Note("states", r.DistinctCount())
		r.Note("transitions", r.Evals())
		r.Note("traces_validated_against_impl", r.Evals())
		r.Sample("c07", c07At(thorough, a+12345))
		r.Sample("c07", c07At(thorough, 777))
	}
	_ = bscript.OpCHECKSIG
	_ = scriptref.Genesis
}
