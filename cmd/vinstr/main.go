// vinstr generates, from the CURRENT working tree of the library, the
// instrumented sources and the build overlay the C18 schedule explorer is
// built with. It type-checks each instrumented package (go/types, source
// importer, offline) and inserts, in front of every statement, a
// vsync.AccessF probe for every memory location the statement touches that
// another goroutine could reach:
//
//   - every struct field selected through a pointer (p.f, p.a.b, p.items[i].f -
//     the object is the innermost pointer on the path, the field is the rest of
//     the path); write = assignment / inc-dec target, element assignment or
//     delete on a map/slice field, read otherwise; an assignment through a pointer (*p = v)
//     writes the object p points to. Fields of type sync.Mutex /
//     sync.RWMutex are the synchronisation itself and are not probed;
//   - every package-level variable of the package (read; write when assigned,
//     element-assigned, or when a method is called on it or on a parameter of a
//     function of the same package it was passed for - a shared hasher, cache or pool
//     mutates itself);
//   - every method call through a pointer to an object of another package (a *big.Int or
//     hash.Hash held in a field): the call is the access to that object, a write unless the
//     method is a known reader;
//   - local variables bound to a map- or slice-typed field or package variable
//     (fees := f.fees): using the local later is an access to that location.
//
// A probe never changes behaviour: the object expression is evaluated inside a
// closure whose panic (nil path) is swallowed by the shim.
//
// Packages: the module root (package bt), bscript and bscript/interpreter. A file
// that imports package sync (fees.go) additionally gets it replaced by the vsync
// shim, and time.Now by vsync.Now.
//
// usage: vinstr <repo> <workdir>   (writes <workdir>/overlay.json)
package main

import (
	"bytes"
	"encoding/json"
	"fmt"
	"go/ast"
	"go/format"
	"go/importer"
	"go/parser"
	"go/token"
	"go/types"
	"os"
	"path/filepath"
	"strconv"
	"strings"
)

const shimPath = "github.com/libsv/go-bt/v2/zzverif/vsync"

func main() {
	if len(os.Args) != 3 {
		fmt.Println("usage: vinstr <repo> <workdir>")
		os.Exit(2)
	}
	repo, work := os.Args[1], os.Args[2]
	repo, _ = filepath.Abs(repo)
	work, _ = filepath.Abs(work)
	_ = os.MkdirAll(work, 0o755)
	overlay := map[string]string{}
	shim, _ := filepath.Abs(filepath.Join(filepath.Dir(os.Args[0]), "..", "internal", "sched", "shim", "vsync.go"))
	if v := os.Getenv("VERIF_ROOT"); v != "" {
		shim = filepath.Join(v, "internal", "sched", "shim", "vsync.go")
	}
	overlay[filepath.Join(repo, "zzverif", "vsync", "vsync.go")] = shim
	for _, p := range []struct{ dir, tag string }{{".", "bt"}, {"bscript", "bscript"}, {filepath.Join("bscript", "interpreter"), "interp"}} {
		n, files, err := instrumentPackage(filepath.Join(repo, p.dir), work, p.tag, overlay)
		if err != nil {
			fmt.Printf("vinstr: %s: %v\n", p.dir, err)
			os.Exit(1)
		}
		fmt.Printf("vinstr: package %s: %d access probes in %d files\n", p.tag, n, files)
	}
	b, _ := json.MarshalIndent(map[string]any{"Replace": overlay}, "", " ")
	must(os.WriteFile(filepath.Join(work, "overlay.json"), b, 0o644))
}

func must(err error) {
	if err != nil {
		fmt.Println("vinstr:", err)
		os.Exit(1)
	}
}

type instr struct {
	fset *token.FileSet
	info *types.Info
	pkg  *types.Package
	n    int
	// paramAlias: parameter object -> package-level variables (pointers / interfaces / channels)
	// that some call site of the same package passes for it, directly or through another parameter
	paramAlias map[types.Object]map[string]bool
	// writesParam: function -> indexes of slice / map parameters whose elements it assigns
	// (directly, through copy, or by handing them to a function that does)
	writesParam map[*types.Func]map[int]bool
}

func instrumentPackage(dir, work, tag string, overlay map[string]string) (int, int, error) {
	fset := token.NewFileSet()
	names, _ := filepath.Glob(filepath.Join(dir, "*.go"))
	var files []*ast.File
	var paths []string
	for _, f := range names {
		if strings.HasSuffix(f, "_test.go") {
			continue
		}
		// comments are dropped (inserted statements would otherwise displace them); a file with
		// compiler directives must not lose them, so it is refused
		src, err := os.ReadFile(f)
		if err != nil {
			return 0, 0, err
		}
		if bytes.Contains(src, []byte("\n//go:")) || bytes.HasPrefix(src, []byte("//go:")) || bytes.Contains(src, []byte("// +build")) {
			return 0, 0, fmt.Errorf("%s carries compiler directives; not instrumentable", f)
		}
		af, err := parser.ParseFile(fset, f, src, 0)
		if err != nil {
			return 0, 0, err
		}
		files = append(files, af)
		paths = append(paths, f)
	}
	// the source importer resolves the module's dependencies through the go command: run it from inside the module
	old, _ := os.Getwd()
	must(os.Chdir(dir))
	defer func() { _ = os.Chdir(old) }()
	var firstErr error
	conf := types.Config{Importer: importer.ForCompiler(fset, "source", nil), Error: func(err error) {
		if firstErr == nil {
			firstErr = err
		}
	}}
	info := &types.Info{Types: map[ast.Expr]types.TypeAndValue{}, Uses: map[*ast.Ident]types.Object{}, Defs: map[*ast.Ident]types.Object{}, Selections: map[*ast.SelectorExpr]*types.Selection{}}
	pkg, _ := conf.Check(files[0].Name.Name, fset, files, info)
	if firstErr != nil {
		return 0, 0, fmt.Errorf("type check: %v", firstErr)
	}
	in := &instr{fset: fset, info: info, pkg: pkg, paramAlias: map[types.Object]map[string]bool{}, writesParam: map[*types.Func]map[int]bool{}}
	in.computeParamAliases(files)
	in.computeWritesParam(files)
	done := 0
	for i, af := range files {
		before := in.n
		in.file(af)
		// a file that uses package sync gets the shim instead (scheduling points and
		// happens-before edges at its lock operations): fees.go today, any file tomorrow
		swap := false
		for _, im := range af.Imports {
			if p, _ := strconv.Unquote(im.Path.Value); p == "sync" {
				swap = true
			}
		}
		if in.n == before && !swap {
			continue
		}
		if swap {
			swapSync(af)
			renameShim(af, "sync")
		} else {
			addImport(af, shimPath)
		}
		var buf bytes.Buffer
		if err := format.Node(&buf, fset, af); err != nil {
			return 0, 0, err
		}
		dst := filepath.Join(work, tag+"_"+filepath.Base(paths[i]))
		must(os.WriteFile(dst, buf.Bytes(), 0o644))
		overlay[paths[i]] = dst
		done++
	}
	return in.n, done, nil
}

// swapSync makes fees.go import the shim under the name sync and use its clock.
func swapSync(af *ast.File) {
	for _, im := range af.Imports {
		p, _ := strconv.Unquote(im.Path.Value)
		if p == "sync" {
			im.Path.Value = strconv.Quote(shimPath)
			im.Name = ast.NewIdent("sync")
		}
	}
	ast.Inspect(af, func(nd ast.Node) bool {
		if se, ok := nd.(*ast.SelectorExpr); ok {
			if x, ok := se.X.(*ast.Ident); ok && x.Name == "time" && se.Sel.Name == "Now" {
				x.Name = "sync"
			}
		}
		return true
	})
}

// renameShim points the probes (emitted as vsync.AccessF) at the shim's name in this file.
func renameShim(af *ast.File, name string) {
	ast.Inspect(af, func(nd ast.Node) bool {
		if se, ok := nd.(*ast.SelectorExpr); ok {
			if x, ok := se.X.(*ast.Ident); ok && x.Name == "vsync" && se.Sel.Name == "AccessF" {
				x.Name = name
			}
		}
		return true
	})
}

func addImport(af *ast.File, path string) {
	for _, im := range af.Imports {
		if p, _ := strconv.Unquote(im.Path.Value); p == path {
			return
		}
	}
	spec := &ast.ImportSpec{Path: &ast.BasicLit{Kind: token.STRING, Value: strconv.Quote(path)}, Name: ast.NewIdent("vsync")}
	for _, d := range af.Decls {
		if gd, ok := d.(*ast.GenDecl); ok && gd.Tok == token.IMPORT {
			gd.Specs = append(gd.Specs, spec)
			af.Imports = append(af.Imports, spec)
			return
		}
	}
	gd := &ast.GenDecl{Tok: token.IMPORT, Specs: []ast.Spec{spec}}
	af.Decls = append([]ast.Decl{gd}, af.Decls...)
	af.Imports = append(af.Imports, spec)
}

type probe struct {
	obj   string // source text of the pointer expression, or "" for a package variable
	field string
	write bool
}

type alias struct {
	obj, field string
}

func (in *instr) text(e ast.Expr) string {
	var buf bytes.Buffer
	_ = format.Node(&buf, in.fset, e)
	return buf.String()
}

func isSyncType(t types.Type) bool {
	if p, ok := t.(*types.Pointer); ok {
		t = p.Elem()
	}
	if n, ok := t.(*types.Named); ok && n.Obj().Pkg() != nil {
		switch n.Obj().Pkg().Path() {
		case "sync", "sync/atomic":
			return true
		case "regexp":
			// a compiled *regexp.Regexp is documented as safe for concurrent use by multiple goroutines
			return n.Obj().Name() == "Regexp"
		}
	}
	return false
}

// methodOfSyncType: the selected method belongs to a sync type (also when promoted from an embedded
// mutex: `cache.Lock()` on `var cache struct{ sync.Mutex; ... }`) - the synchronisation itself, not
// an access to the variable.
func methodOfSyncType(sel *types.Selection) bool {
	f, ok := sel.Obj().(*types.Func)
	if !ok {
		return false
	}
	sig, ok := f.Type().(*types.Signature)
	if !ok || sig.Recv() == nil {
		return false
	}
	return isSyncType(sig.Recv().Type())
}

// pkgRoot: e is a path (field selections, indexing, slicing, dereference, address-of) that starts
// at a package-level variable and is not that variable alone; returns the variable's name.
func (in *instr) pkgRoot(e ast.Expr) (string, bool) {
	depth := 0
	for {
		switch x := e.(type) {
		case *ast.ParenExpr:
			e = x.X
		case *ast.SelectorExpr:
			if sel := in.info.Selections[x]; sel == nil || sel.Kind() != types.FieldVal {
				return "", false
			}
			e = x.X
			depth++
		case *ast.IndexExpr:
			e = x.X
			depth++
		case *ast.SliceExpr:
			e = x.X
			depth++
		case *ast.StarExpr:
			e = x.X
			depth++
		case *ast.UnaryExpr:
			if x.Op != token.AND {
				return "", false
			}
			e = x.X
			depth++
		case *ast.Ident:
			if depth > 0 && in.pkgVar(x) {
				return x.Name, true
			}
			return "", false
		default:
			return "", false
		}
	}
}

func isRefType(t types.Type) bool {
	switch t.Underlying().(type) {
	case *types.Map, *types.Slice:
		return true
	}
	return false
}

// pure reports whether evaluating e again has no effects (identifiers, selectors, derefs, indexing).
func pure(e ast.Expr) bool {
	ok := true
	ast.Inspect(e, func(n ast.Node) bool {
		switch n.(type) {
		case *ast.CallExpr, *ast.FuncLit, *ast.UnaryExpr, *ast.TypeAssertExpr, *ast.CompositeLit:
			ok = false
		}
		return ok
	})
	return ok
}

// readerMethods: methods of foreign types (math/big above all) that only read their receiver.
var readerMethods = map[string]bool{"Cmp": true, "CmpAbs": true, "Sign": true, "Bytes": true, "BitLen": true, "Bit": true, "Int64": true, "Uint64": true,
	"IsInt64": true, "IsUint64": true, "String": true, "Text": true, "Append": true, "Format": true, "FillBytes": true, "TrailingZeroBits": true, "ProbablyPrime": true,
	"Len": true, "Cap": true, "Size": true, "BlockSize": true, "Error": true, "Unwrap": true}

var errorType = types.Universe.Lookup("error").Type().Underlying().(*types.Interface)

// mutableRef: the variable refers to state a callee could change (not an error value).
func (in *instr) mutableRef(id *ast.Ident) bool {
	o := in.info.Uses[id]
	if o == nil {
		return false
	}
	t := o.Type()
	if types.Implements(t, errorType) || isSyncType(t) {
		return false
	}
	// slices and maps handed to a callee are, in this code base, read-only tables (defaultHex
	// to bytes.Equal): counting them would report races that do not exist
	switch t.Underlying().(type) {
	case *types.Pointer, *types.Interface, *types.Chan:
		return true
	}
	return false
}

// computeParamAliases follows package-level pointers / interfaces / channels through calls to
// functions and methods of the same package: argument j of a call is bound to parameter j of the
// callee (fixpoint over parameters passed on to further calls).
func (in *instr) computeParamAliases(files []*ast.File) {
	params := map[*types.Func][]types.Object{}
	for _, af := range files {
		for _, d := range af.Decls {
			fd, ok := d.(*ast.FuncDecl)
			if !ok {
				continue
			}
			fo, ok := in.info.Defs[fd.Name].(*types.Func)
			if !ok {
				continue
			}
			var ps []types.Object
			for _, f := range fd.Type.Params.List {
				if len(f.Names) == 0 {
					ps = append(ps, nil)
				}
				for _, id := range f.Names {
					ps = append(ps, in.info.Defs[id])
				}
			}
			params[fo] = ps
		}
	}
	callee := func(c *ast.CallExpr) *types.Func {
		switch f := c.Fun.(type) {
		case *ast.Ident:
			fo, _ := in.info.Uses[f].(*types.Func)
			return fo
		case *ast.SelectorExpr:
			fo, _ := in.info.Uses[f.Sel].(*types.Func)
			return fo
		}
		return nil
	}
	for changed := true; changed; {
		changed = false
		for _, af := range files {
			ast.Inspect(af, func(n ast.Node) bool {
				c, ok := n.(*ast.CallExpr)
				if !ok {
					return true
				}
				fo := callee(c)
				ps, known := params[fo]
				if fo == nil || !known {
					return true
				}
				for j, arg := range c.Args {
					id, ok := arg.(*ast.Ident)
					if !ok || j >= len(ps) || ps[j] == nil {
						continue
					}
					var vars []string
					if in.pkgVar(id) && in.mutableRef(id) {
						vars = append(vars, id.Name)
					} else if o := in.info.Uses[id]; o != nil {
						for v := range in.paramAlias[o] {
							vars = append(vars, v)
						}
					}
					for _, v := range vars {
						if in.paramAlias[ps[j]] == nil {
							in.paramAlias[ps[j]] = map[string]bool{}
						}
						if !in.paramAlias[ps[j]][v] {
							in.paramAlias[ps[j]][v] = true
							changed = true
						}
					}
				}
				return true
			})
		}
	}
}

func (in *instr) calleeOf(c *ast.CallExpr) *types.Func {
	switch f := c.Fun.(type) {
	case *ast.Ident:
		fo, _ := in.info.Uses[f].(*types.Func)
		return fo
	case *ast.SelectorExpr:
		fo, _ := in.info.Uses[f.Sel].(*types.Func)
		return fo
	}
	return nil
}

// computeWritesParam finds, for the functions of this package, the slice / map parameters whose
// elements they assign: p[i] = v, p[i]++, copy(p, …), or p handed to a function that does.
func (in *instr) computeWritesParam(files []*ast.File) {
	type fn struct {
		obj    *types.Func
		decl   *ast.FuncDecl
		params map[types.Object]int
	}
	var fns []fn
	for _, af := range files {
		for _, d := range af.Decls {
			fd, ok := d.(*ast.FuncDecl)
			if !ok || fd.Body == nil {
				continue
			}
			fo, ok := in.info.Defs[fd.Name].(*types.Func)
			if !ok {
				continue
			}
			ps := map[types.Object]int{}
			j := 0
			for _, f := range fd.Type.Params.List {
				if len(f.Names) == 0 {
					j++
				}
				for _, id := range f.Names {
					if o := in.info.Defs[id]; o != nil && isRefType(o.Type()) {
						ps[o] = j
					}
					j++
				}
			}
			fns = append(fns, fn{fo, fd, ps})
		}
	}
	mark := func(f fn, e ast.Expr) bool {
		for {
			switch x := e.(type) {
			case *ast.IndexExpr:
				e = x.X
				continue
			case *ast.SliceExpr:
				e = x.X
				continue
			case *ast.ParenExpr:
				e = x.X
				continue
			}
			break
		}
		id, ok := e.(*ast.Ident)
		if !ok {
			return false
		}
		j, isParam := f.params[in.info.Uses[id]]
		if !isParam {
			return false
		}
		if in.writesParam[f.obj] == nil {
			in.writesParam[f.obj] = map[int]bool{}
		}
		if in.writesParam[f.obj][j] {
			return false
		}
		in.writesParam[f.obj][j] = true
		return true
	}
	for changed := true; changed; {
		changed = false
		for _, f := range fns {
			ast.Inspect(f.decl.Body, func(n ast.Node) bool {
				switch x := n.(type) {
				case *ast.AssignStmt:
					for _, l := range x.Lhs {
						if _, isIdx := l.(*ast.IndexExpr); isIdx && mark(f, l) {
							changed = true
						}
					}
				case *ast.IncDecStmt:
					if _, isIdx := x.X.(*ast.IndexExpr); isIdx && mark(f, x.X) {
						changed = true
					}
				case *ast.CallExpr:
					if id, ok := x.Fun.(*ast.Ident); ok && id.Name == "copy" && len(x.Args) == 2 {
						if _, isBuiltin := in.info.Uses[id].(*types.Builtin); isBuiltin && mark(f, x.Args[0]) {
							changed = true
						}
					}
					if fo := in.calleeOf(x); fo != nil {
						for j := range in.writesParam[fo] {
							if j < len(x.Args) && mark(f, x.Args[j]) {
								changed = true
							}
						}
					}
				}
				return true
			})
		}
	}
}

func (in *instr) pkgVar(id *ast.Ident) bool {
	v, ok := in.info.Uses[id].(*types.Var)
	return ok && !v.IsField() && v.Pkg() == in.pkg && v.Parent() == in.pkg.Scope()
}

// location resolves a field selector to (pointer object expression, field path).
func (in *instr) location(x *ast.SelectorExpr) (obj string, root ast.Expr, field string, ok bool) {
	sel := in.info.Selections[x]
	if sel == nil || sel.Kind() != types.FieldVal {
		return "", nil, "", false
	}
	if isSyncType(sel.Type()) {
		return "", nil, "", false
	}
	path := []string{x.Sel.Name}
	var e ast.Expr = x.X
	for {
		if p, ok := e.(*ast.ParenExpr); ok {
			e = p.X
			continue
		}
		tv, known := in.info.Types[e]
		if !known {
			return "", nil, "", false
		}
		if _, isPtr := tv.Type.Underlying().(*types.Pointer); isPtr {
			break
		}
		// a struct value: part of the enclosing object if it is itself a field, a package
		// variable if it is one; anything else (local value, element of a local slice) is not shared
		switch v := e.(type) {
		case *ast.SelectorExpr:
			s2 := in.info.Selections[v]
			if s2 == nil || s2.Kind() != types.FieldVal {
				return "", nil, "", false
			}
			path = append([]string{v.Sel.Name}, path...)
			e = v.X
			continue
		case *ast.Ident:
			if in.pkgVar(v) {
				return "", nil, v.Name + "." + strings.Join(path, "."), true
			}
			return "", nil, "", false
		case *ast.StarExpr:
			e = v.X
			continue
		case *ast.IndexExpr:
			// element of a slice/array/map of struct values: the container is what is shared
			switch c := v.X.(type) {
			case *ast.SelectorExpr:
				o, r, f, ok := in.location(c)
				if !ok {
					return "", nil, "", false
				}
				return o, r, f + "[]." + strings.Join(path, "."), true
			case *ast.Ident:
				if in.pkgVar(c) {
					return "", nil, c.Name + "[]." + strings.Join(path, "."), true
				}
			}
			return "", nil, "", false
		default:
			return "", nil, "", false
		}
	}
	if !pure(e) {
		return "", nil, "", false
	}
	return in.text(e), e, strings.Join(path, "."), true
}

func (in *instr) file(af *ast.File) {
	for _, d := range af.Decls {
		fd, ok := d.(*ast.FuncDecl)
		if !ok || fd.Body == nil {
			continue
		}
		in.function(fd)
	}
}

func (in *instr) function(fd *ast.FuncDecl) {
	fn := fd.Name.Name
	aliases := map[types.Object]alias{}
	var instrBlock func(b *ast.BlockStmt)
	exprOf := map[string]ast.Expr{}

	collect := func(s ast.Stmt) []probe {
		var ps []probe
		seen := map[probe]bool{}
		// every identifier of the object expression must be declared outside the statement
		inScope := func(e ast.Expr) bool {
			ok := true
			ast.Inspect(e, func(n ast.Node) bool {
				if id, isID := n.(*ast.Ident); isID {
					if o := in.info.Uses[id]; o != nil && o.Pos() >= s.Pos() && o.Pos() < s.End() {
						ok = false
					}
				}
				return ok
			})
			return ok
		}
		add := func(p probe) {
			if !seen[p] {
				seen[p] = true
				ps = append(ps, p)
			}
		}
		writes := map[ast.Expr]bool{}
		var derefTargets []ast.Expr // p in "*p = v": the object p points to is written, not p
		markWrite := func(e ast.Expr) {
			for {
				switch x := e.(type) {
				case *ast.IndexExpr:
					e = x.X
					continue
				case *ast.ParenExpr:
					e = x.X
					continue
				case *ast.StarExpr:
					derefTargets = append(derefTargets, x.X)
					return
				case *ast.SliceExpr:
					e = x.X
					continue
				}
				break
			}
			writes[e] = true
		}
		defining := map[*ast.Ident]bool{}
		var newAliases []func()
		switch st := s.(type) {
		case *ast.AssignStmt:
			for _, l := range st.Lhs {
				markWrite(l)
			}
			if len(st.Lhs) == len(st.Rhs) {
				for i, l := range st.Lhs {
					id, ok := l.(*ast.Ident)
					if !ok {
						continue
					}
					defining[id] = true
					o := in.info.Defs[id]
					if o == nil {
						o = in.info.Uses[id]
					}
					if o == nil {
						continue
					}
					delete(aliases, o) // rebound
					tv, known := in.info.Types[st.Rhs[i]]
					if !known {
						continue
					}
					if r, ok := st.Rhs[i].(*ast.Ident); ok && in.pkgVar(r) && in.mutableRef(r) {
						// a local bound to a package-level pointer / interface: calling its methods is a write
						o, a := o, alias{"", r.Name}
						newAliases = append(newAliases, func() { aliases[o] = a })
						continue
					}
					if call, ok := st.Rhs[i].(*ast.CallExpr); ok {
						// a local bound to what a method of (a part of) a package-level variable returned - a
						// slice, map or pointer into that variable's state (buf.Bytes()): using the local is
						// an access to the variable
						if se, ok := call.Fun.(*ast.SelectorExpr); ok {
							if sel := in.info.Selections[se]; sel != nil && sel.Kind() == types.MethodVal && !methodOfSyncType(sel) {
								root, rooted := in.pkgRoot(se.X)
								if id, isID := se.X.(*ast.Ident); isID && in.pkgVar(id) {
									root, rooted = id.Name, true
								}
								if rooted {
									switch tv.Type.Underlying().(type) {
									case *types.Slice, *types.Map, *types.Pointer:
										o, a := o, alias{"", root}
										newAliases = append(newAliases, func() { aliases[o] = a })
									}
								}
							}
						}
						continue
					}
					if !isRefType(tv.Type) {
						continue
					}
					switch r := st.Rhs[i].(type) {
					case *ast.SelectorExpr:
						if ob, _, f, ok := in.location(r); ok && (ob == "" || isSimpleIdent(ob)) {
							o, a := o, alias{ob, f}
							newAliases = append(newAliases, func() { aliases[o] = a })
						}
					case *ast.Ident:
						if in.pkgVar(r) {
							o, a := o, alias{"", r.Name}
							newAliases = append(newAliases, func() { aliases[o] = a })
						}
					}
				}
			}
		case *ast.IncDecStmt:
			markWrite(st.X)
		case *ast.ExprStmt:
			if c, ok := st.X.(*ast.CallExpr); ok {
				if id, ok := c.Fun.(*ast.Ident); ok && id.Name == "delete" && len(c.Args) > 0 {
					markWrite(c.Args[0])
				}
			}
		}
		walk := func(n ast.Node) {
			ast.Inspect(n, func(nd ast.Node) bool {
				switch x := nd.(type) {
				case *ast.BlockStmt:
					return false // nested blocks are instrumented on their own
				case *ast.FuncLit:
					return false
				case *ast.SelectorExpr:
					if ob, root, f, ok := in.location(x); ok {
						if ob == "" || inScope(root) {
							if ob != "" {
								exprOf[ob] = root
							}
							add(probe{obj: ob, field: f, write: writes[x]})
						}
					}
				case *ast.CallExpr:
					// a method called on a PART of a package-level variable (scratch.buf.Reset()) is an access
					// to that variable - a write unless the method is a known reader; the address of such a
					// part handed to a callee (fmt.Fprintf(&scratch.buf, ...)) is a write
					if se, ok := x.Fun.(*ast.SelectorExpr); ok {
						if sel := in.info.Selections[se]; sel != nil && sel.Kind() == types.MethodVal && !methodOfSyncType(sel) {
							if root, ok := in.pkgRoot(se.X); ok {
								add(probe{field: root, write: !readerMethods[se.Sel.Name]})
							}
						}
					}
					for _, a := range x.Args {
						if u, ok := a.(*ast.UnaryExpr); ok && u.Op == token.AND {
							if root, ok := in.pkgRoot(u); ok {
								if tv, known := in.info.Types[u.X]; !known || !isSyncType(tv.Type) {
									add(probe{field: root, write: true})
								}
							}
						}
					}
					// a method call on a package-level variable may mutate it (shared hasher, cache, pool)
					if se, ok := x.Fun.(*ast.SelectorExpr); ok {
						if id, ok := se.X.(*ast.Ident); ok {
							if sel := in.info.Selections[se]; sel != nil && sel.Kind() == types.MethodVal && !methodOfSyncType(sel) {
								if in.pkgVar(id) {
									if !isSyncType(in.info.Uses[id].Type()) {
										add(probe{field: id.Name, write: true})
									}
								} else if o := in.info.Uses[id]; o != nil {
									if a, ok := aliases[o]; ok {
										add(probe{obj: a.obj, field: a.field, write: true})
									}
									for v := range in.paramAlias[o] {
										add(probe{field: v, write: true})
									}
								}
							}
						}
					}
					// a method called through a pointer to an object of ANOTHER package (a *big.Int, a
					// hash.Hash held in a field): its code carries no probes, so the call itself is the
					// access to that object - a write unless the method is a known reader
					if se, ok := x.Fun.(*ast.SelectorExpr); ok {
						if sel := in.info.Selections[se]; sel != nil && sel.Kind() == types.MethodVal {
							if tv, known := in.info.Types[se.X]; known {
								if pt, isPtr := tv.Type.Underlying().(*types.Pointer); isPtr {
									if nt, isNamed := pt.Elem().(*types.Named); isNamed && nt.Obj().Pkg() != nil && !strings.HasPrefix(nt.Obj().Pkg().Path(), "github.com/libsv/go-bt/v2") && nt.Obj().Pkg() != in.pkg && !isSyncType(nt) {
										if _, isIdent := se.X.(*ast.Ident); !(isIdent && in.pkgVar(se.X.(*ast.Ident))) && pure(se.X) && inScope(se.X) {
											txt := in.text(se.X)
											exprOf[txt] = se.X
											add(probe{obj: txt, field: "(object of " + nt.Obj().Pkg().Name() + "." + nt.Obj().Name() + ")", write: !readerMethods[se.Sel.Name]})
										}
									}
								}
							}
						}
					}
					// a map / slice field handed to a function of this package that assigns elements of
					// that parameter (reverseInPlace(p.buf)), or to the builtin copy as destination, is written
					{
						var written []ast.Expr
						if id, ok := x.Fun.(*ast.Ident); ok && id.Name == "copy" && len(x.Args) == 2 {
							if _, isBuiltin := in.info.Uses[id].(*types.Builtin); isBuiltin {
								written = append(written, x.Args[0])
							}
						}
						if fo := in.calleeOf(x); fo != nil {
							for j := range in.writesParam[fo] {
								if j < len(x.Args) {
									written = append(written, x.Args[j])
								}
							}
						}
						for _, w := range written {
							for {
								if sl, ok := w.(*ast.SliceExpr); ok {
									w = sl.X
									continue
								}
								break
							}
							if se, ok := w.(*ast.SelectorExpr); ok {
								if ob, root, f, ok := in.location(se); ok && (ob == "" || inScope(root)) {
									if ob != "" {
										exprOf[ob] = root
									}
									add(probe{obj: ob, field: f, write: true})
								}
							}
						}
					}
					// (a package-level variable handed to a function of this package is followed into
					// that function: see paramAlias; handed to another package it counts as read)
				case *ast.Ident:
					if defining[x] {
						break
					}
					if in.pkgVar(x) {
						add(probe{field: x.Name, write: writes[ast.Expr(x)]})
					}
					if o := in.info.Uses[x]; o != nil {
						if a, ok := aliases[o]; ok {
							add(probe{obj: a.obj, field: a.field, write: writes[ast.Expr(x)]})
						}
					}
				}
				return true
			})
		}
		switch st := s.(type) {
		case *ast.IfStmt:
			if st.Init != nil {
				walk(st.Init)
			}
			walk(st.Cond)
		case *ast.ForStmt:
			if st.Cond != nil {
				walk(st.Cond)
			}
		case *ast.RangeStmt:
			walk(st.X)
		case *ast.SwitchStmt:
			if st.Tag != nil {
				walk(st.Tag)
			}
		case *ast.TypeSwitchStmt, *ast.BlockStmt, *ast.SelectStmt, *ast.LabeledStmt:
		default:
			walk(s)
		}
		for _, p := range derefTargets {
			if pure(p) && inScope(p) {
				if tv, known := in.info.Types[p]; known {
					if _, isPtr := tv.Type.Underlying().(*types.Pointer); isPtr {
						txt := in.text(p)
						exprOf[txt] = p
						add(probe{obj: txt, field: "(whole object)", write: true})
					}
				}
			}
		}
		for _, f := range newAliases {
			f()
		}
		// drop a read probe when the same location is also written by the statement
		var out []probe
		for _, p := range ps {
			if !p.write && seen[probe{p.obj, p.field, true}] {
				continue
			}
			out = append(out, p)
		}
		return out
	}
	var nested func(s ast.Stmt)
	nested = func(s ast.Stmt) {
		switch st := s.(type) {
		case *ast.BlockStmt:
			instrBlock(st)
		case *ast.IfStmt:
			instrBlock(st.Body)
			if st.Else != nil {
				nested(st.Else)
			}
		case *ast.ForStmt:
			instrBlock(st.Body)
		case *ast.RangeStmt:
			instrBlock(st.Body)
		case *ast.LabeledStmt:
			nested(st.Stmt)
		case *ast.SwitchStmt:
			for _, c := range st.Body.List {
				cc := c.(*ast.CaseClause)
				b := &ast.BlockStmt{List: cc.Body}
				instrBlock(b)
				cc.Body = b.List
			}
		case *ast.TypeSwitchStmt:
			for _, c := range st.Body.List {
				cc := c.(*ast.CaseClause)
				b := &ast.BlockStmt{List: cc.Body}
				instrBlock(b)
				cc.Body = b.List
			}
		}
	}
	instrBlock = func(b *ast.BlockStmt) {
		var out []ast.Stmt
		for _, s := range b.List {
			for _, p := range collect(s) {
				var objFn ast.Expr = ast.NewIdent("nil")
				if p.obj != "" {
					root, ok := exprOf[p.obj]
					if !ok {
						root = ast.NewIdent(p.obj) // alias of a simple identifier
					}
					objFn = &ast.FuncLit{
						Type: &ast.FuncType{Params: &ast.FieldList{}, Results: &ast.FieldList{List: []*ast.Field{{Type: &ast.InterfaceType{Methods: &ast.FieldList{}}}}}},
						Body: &ast.BlockStmt{List: []ast.Stmt{&ast.ReturnStmt{Results: []ast.Expr{root}}}},
					}
				}
				in.n++
				w := "false"
				if p.write {
					w = "true"
				}
				pos := in.fset.Position(s.Pos())
				call := &ast.ExprStmt{X: &ast.CallExpr{
					Fun: &ast.SelectorExpr{X: ast.NewIdent("vsync"), Sel: ast.NewIdent("AccessF")},
					Args: []ast.Expr{objFn, &ast.BasicLit{Kind: token.STRING, Value: strconv.Quote(p.field)}, ast.NewIdent(w),
						&ast.BasicLit{Kind: token.STRING, Value: strconv.Quote(fmt.Sprintf("%s:%d %s", filepath.Base(pos.Filename), pos.Line, fn))}},
				}}
				out = append(out, call)
			}
			nested(s)
			out = append(out, s)
		}
		b.List = out
	}
	instrBlock(fd.Body)
}

func isSimpleIdent(s string) bool {
	for _, r := range s {
		if !(r == '_' || r >= '0' && r <= '9' || r >= 'a' && r <= 'z' || r >= 'A' && r <= 'Z') {
			return false
		}
	}
	return s != ""
}
