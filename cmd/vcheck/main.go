// vcheck is the driver of the verification framework:
//
//	vcheck <ID> <quick|thorough>   run the exhaustive check for one property
//	vcheck replay <file>           re-execute the case of a violation file
//	vcheck list                    list registered properties
package main

import (
	"encoding/json"
	"fmt"
	"os"
	"os/exec"

	"verif/internal/props"
	"verif/internal/rep"
	"verif/internal/worker"
)

func main() {
	if len(os.Args) < 2 {
		fmt.Println("usage: vcheck <ID> <quick|thorough> | replay <file> | list")
		os.Exit(2)
	}
	switch os.Args[1] {
	case "list":
		for _, id := range props.IDs() {
			fmt.Println(id)
		}
		return
	case "worker":
		worker.ChildMain(os.Args[2:])
		return
	case "replay":
		b, err := os.ReadFile(os.Args[2])
		if err != nil {
			fmt.Println(err)
			os.Exit(2)
		}
		var doc map[string]json.RawMessage
		if err := json.Unmarshal(b, &doc); err != nil {
			fmt.Println(err)
			os.Exit(2)
		}
		var space string
		_ = json.Unmarshal(doc["space"], &space)
		if space == "concurrent-stage" {
			// found by the concurrent stage, which runs in the instrumented build
			cmd := exec.Command("./c18.sh", "conc-replay", os.Args[2])
			cmd.Dir = rep.Root
			cmd.Stdout, cmd.Stderr = os.Stdout, os.Stderr
			if err := cmd.Run(); err != nil {
				os.Exit(1)
			}
			return
		}
		if space == "write-monitor" {
			// found by the write-monitor stage, which runs in the instrumented build
			cmd := exec.Command("./c18.sh", "watch-replay", os.Args[2])
			cmd.Dir = rep.Root
			cmd.Stdout, cmd.Stderr = os.Stdout, os.Stderr
			if err := cmd.Run(); err != nil {
				os.Exit(1)
			}
			return
		}
		if err := props.Replay(doc); err != nil {
			fmt.Println(err)
			os.Exit(1)
		}
		return
	}
	id := os.Args[1]
	tier := "quick"
	if len(os.Args) > 2 {
		tier = os.Args[2]
	}
	if t := os.Getenv("VERIF_TIER"); t == "quick" || t == "thorough" {
		if len(os.Args) <= 2 {
			tier = t
		}
	}
	p := props.Get(id)
	if p == nil {
		fmt.Println("unknown property", id)
		os.Exit(2)
	}
	r := rep.Start(id, tier, p.Level)
	p.Run(r, tier == "thorough")
	os.Exit(r.Finish(p.Rule))
}
