// Package worker runs an indexed case space in single-threaded child
// processes so that failures a recover() cannot contain — log.Fatal, "fatal
// error: out of memory", a hang — are attributed to the exact case: each child
// records the index it is about to execute in a progress file; when a child
// dies or stalls the parent reproduces that one case in fresh processes and
// reports it, then resumes the shard behind it. Children run with an
// address-space limit so that a runaway allocation dies quickly.
package worker

import (
	"bufio"
	"encoding/binary"
	"encoding/json"
	"fmt"
	"os"
	"os/exec"
	"regexp"
	"runtime"
	"runtime/debug"
	"strconv"
	"strings"
	"sync"
	"syscall"
	"time"

	"verif/internal/rep"
)

// Space is a registered child-executable space.
type Space struct {
	Name  string
	N     func(thorough bool) uint64
	Case  func(thorough bool, i uint64) any           // JSON-able case for reports
	Check func(thorough bool, i uint64) []rep.Finding // runs case i (may die)
	Class func(thorough bool, i uint64) string        // non-trivial class label ("" = trivial)
}

var spaces = map[string]*Space{}

// Register makes a space runnable in children.
func Register(s *Space) { spaces[s.Name] = s }

// AddressSpaceLimit for children (bytes).
const AddressSpaceLimit = 6 << 30

// StallTimeout: a case that does not finish within this time is a hang.
var StallTimeout = 90 * time.Second

// ChildMain is entered when the binary is started as a worker:
// vcheck worker <space> <thorough> <shard> <nshards> <start> <only> <progressfile>
func ChildMain(args []string) {
	sp := spaces[args[0]]
	if sp == nil {
		fmt.Println("ERR unknown space", args[0])
		os.Exit(3)
	}
	thorough := args[1] == "1"
	shard, _ := strconv.ParseUint(args[2], 10, 64)
	nsh, _ := strconv.ParseUint(args[3], 10, 64)
	start, _ := strconv.ParseUint(args[4], 10, 64)
	only, _ := strconv.ParseInt(args[5], 10, 64)
	pf, err := os.OpenFile(args[6], os.O_RDWR|os.O_CREATE, 0o644)
	if err != nil {
		fmt.Println("ERR", err)
		os.Exit(3)
	}
	_ = syscall.Setrlimit(syscall.RLIMIT_AS, &syscall.Rlimit{Cur: AddressSpaceLimit, Max: AddressSpaceLimit})
	runtime.GOMAXPROCS(1)
	debug.SetGCPercent(50)
	out := bufio.NewWriter(os.Stdout)
	n := sp.N(thorough)
	var evals uint64
	classes := map[string]int{}
	var buf [8]byte
	run := func(i uint64) {
		binary.LittleEndian.PutUint64(buf[:], i+1)
		_, _ = pf.WriteAt(buf[:], 0)
		var fs []rep.Finding
		func() {
			defer func() {
				if v := recover(); v != nil {
					key, msg := rep.PanicKey(v, debug.Stack())
					fs = append(fs, rep.Finding{Key: key, What: "panic: " + msg})
				}
			}()
			fs = sp.Check(thorough, i)
		}()
		evals++
		if len(fs) == 0 && sp.Class != nil {
			if c := sp.Class(thorough, i); c != "" {
				classes[c]++
			}
		}
		for _, f := range fs {
			b, _ := json.Marshal(f)
			fmt.Fprintf(out, "F %d %s\n", i, b)
		}
		if len(fs) > 0 {
			out.Flush()
		}
	}
	if only >= 0 {
		run(uint64(only))
	} else {
		for i := shard; i < n; i += nsh {
			if i < start {
				continue
			}
			run(i)
		}
	}
	binary.LittleEndian.PutUint64(buf[:], 0)
	_, _ = pf.WriteAt(buf[:], 0)
	cb, _ := json.Marshal(classes)
	fmt.Fprintf(out, "DONE %d %s\n", evals, cb)
	out.Flush()
}

type childResult struct {
	done     bool
	evals    uint64
	findings map[uint64][]rep.Finding
	classes  map[string]int
	diedAt   int64 // case index in flight when the process ended abnormally, -1 none
	hang     bool
	stderr   string
}

func runChild(space string, thorough bool, shard, nsh, start uint64, only int64) childResult {
	res := childResult{findings: map[uint64][]rep.Finding{}, classes: map[string]int{}, diedAt: -1}
	pfile, _ := os.CreateTemp("", "vprog")
	pname := pfile.Name()
	pfile.Close()
	defer os.Remove(pname)
	th := "0"
	if thorough {
		th = "1"
	}
	cmd := exec.Command(os.Args[0], "worker", space, th, fmt.Sprint(shard), fmt.Sprint(nsh), fmt.Sprint(start), fmt.Sprint(only), pname)
	cmd.Env = append(os.Environ(), "GOMAXPROCS=1", "GOTRACEBACK=single")
	stdout, _ := cmd.StdoutPipe()
	var errBuf strings.Builder
	cmd.Stderr = &limitWriter{b: &errBuf, max: 4000}
	if err := cmd.Start(); err != nil {
		res.stderr = err.Error()
		return res
	}
	readDone := make(chan struct{})
	go func() {
		defer close(readDone)
		sc := bufio.NewScanner(stdout)
		sc.Buffer(make([]byte, 1<<20), 64<<20)
		for sc.Scan() {
			line := sc.Text()
			switch {
			case strings.HasPrefix(line, "F "):
				parts := strings.SplitN(line, " ", 3)
				idx, _ := strconv.ParseUint(parts[1], 10, 64)
				var f rep.Finding
				if json.Unmarshal([]byte(parts[2]), &f) == nil {
					res.findings[idx] = append(res.findings[idx], f)
				}
			case strings.HasPrefix(line, "DONE "):
				parts := strings.SplitN(line, " ", 3)
				res.evals, _ = strconv.ParseUint(parts[1], 10, 64)
				_ = json.Unmarshal([]byte(parts[2]), &res.classes)
				res.done = true
			}
		}
	}()
	// watchdog on the progress file
	waitCh := make(chan error, 1)
	go func() { waitCh <- cmd.Wait() }()
	last, lastChange := uint64(0), time.Now()
	tick := time.NewTicker(500 * time.Millisecond)
	defer tick.Stop()
	for {
		select {
		case <-waitCh:
			<-readDone
			if !res.done {
				res.diedAt = int64(readProgress(pname)) - 1
				res.stderr = errBuf.String()
			}
			return res
		case <-tick.C:
			cur := readProgress(pname)
			if cur != last {
				last, lastChange = cur, time.Now()
			} else if time.Since(lastChange) > StallTimeout && cur != 0 {
				_ = cmd.Process.Kill()
				<-waitCh
				<-readDone
				res.diedAt = int64(cur) - 1
				res.hang = true
				return res
			}
		}
	}
}

func readProgress(name string) uint64 {
	b, err := os.ReadFile(name)
	if err != nil || len(b) < 8 {
		return 0
	}
	return binary.LittleEndian.Uint64(b)
}

type limitWriter struct {
	b   *strings.Builder
	max int
	mu  sync.Mutex
}

func (l *limitWriter) Write(p []byte) (int, error) {
	l.mu.Lock()
	defer l.mu.Unlock()
	if l.b.Len() < l.max {
		l.b.Write(p[:min(len(p), l.max-l.b.Len())])
	}
	return len(p), nil
}

var numRe = regexp.MustCompile(`\d+`)

func deathClass(res childResult) string {
	if res.hang {
		return "hang"
	}
	s := res.stderr
	switch {
	case strings.Contains(s, "out of memory"), strings.Contains(s, "cannot allocate memory"):
		return "out-of-memory"
	case strings.Contains(s, "stack overflow"), strings.Contains(s, "goroutine stack exceeds"):
		return "stack-overflow"
	}
	line := strings.TrimSpace(strings.SplitN(s, "\n", 2)[0])
	line = numRe.ReplaceAllString(line, "N")
	if len(line) > 60 {
		line = line[:60]
	}
	if line == "" {
		line = "exit"
	}
	return line
}

// Run explores the whole registered space in nshards children and files findings.
func Run(r *rep.Run, space string, thorough bool, nshards int) {
	sp := spaces[space]
	n := sp.N(thorough)
	if uint64(nshards) > n {
		nshards = int(n)
	}
	if nshards < 1 {
		nshards = 1
	}
	var wg sync.WaitGroup
	var mu sync.Mutex
	classes := map[string]int{}
	for sh := 0; sh < nshards; sh++ {
		wg.Add(1)
		go func(sh uint64) {
			defer wg.Done()
			start := uint64(0)
			deaths := 0
			for {
				res := runChild(space, thorough, sh, uint64(nshards), start, -1)
				r.Eval(res.evals)
				mu.Lock()
				for c, k := range res.classes {
					classes[c] += k
				}
				mu.Unlock()
				for idx, fs := range res.findings {
					for _, f := range fs {
						r.Report(space, sp.Case(thorough, idx), f)
					}
				}
				if res.done {
					return
				}
				if res.diedAt < 0 {
					r.HarnessError("worker for " + space + " died before its first case: " + res.stderr)
					return
				}
				k := uint64(res.diedAt)
				if k >= start+sh%uint64(nshards) {
					r.Eval((k - start) / uint64(nshards)) // cases completed before the death
				}
				// reproduce the single case twice in fresh processes
				same := true
				var survived *childResult
				for i := 0; i < 2; i++ {
					again := runChild(space, thorough, 0, 1, 0, int64(k))
					if again.done {
						survived = &again
					}
					if again.done || deathClass(again) != deathClass(res) {
						same = false
					}
				}
				if survived != nil && len(survived.findings[k]) > 0 {
					// alone the case survives (e.g. memory pressure was cumulative) but still fails its oracle
					for _, f := range survived.findings[k] {
						r.Report(space, sp.Case(thorough, k), f)
					}
				} else if same {
					r.Report(space, sp.Case(thorough, k), rep.Finding{
						Key:    "process-death|" + space + "|" + deathClass(res),
						What:   "the process executing this case died or hung: " + deathClass(res),
						Detail: map[string]any{"stderr": firstLines(res.stderr, 6), "hang": res.hang},
					})
				} else {
					r.HarnessError(fmt.Sprintf("worker death at case %d of %s did not reproduce (%s)", k, space, deathClass(res)))
				}
				deaths++
				if deaths >= 25 {
					r.Incomplete(fmt.Sprintf("shard %d of %s stopped after %d process deaths at index %d", sh, space, deaths, k))
					return
				}
				start = k + 1
			}
		}(uint64(sh))
	}
	wg.Wait()
	for c := range classes {
		r.Distinct(space, c)
	}
}

func firstLines(s string, n int) string {
	l := strings.Split(s, "\n")
	if len(l) > n {
		l = l[:n]
	}
	return strings.Join(l, " | ")
}
