#!/bin/bash
# c18.sh <quick|thorough|replay file>: instrument the CURRENT library sources, build the
# schedule explorer with the overlay, and run it. (VERIF_REPO: see check.sh)
set -u
cd "$(dirname "$0")"
export GOFLAGS=-mod=mod GOPROXY=off GOSUMDB=off GOTOOLCHAIN=local
export VERIF_ROOT="$PWD"
TIER="${1:-quick}"
REPO="${VERIF_REPO:-/repo}"
TAG=main; MODFLAG=""
mkdir -p bin evidence
if [ "$REPO" != "/repo" ]; then
  TAG=$(echo "$REPO" | md5sum | cut -c1-8)
  mkdir -p .work
  sed "s#=> /repo#=> $REPO#" go.mod > .work/alt_$TAG.mod; cp go.sum .work/alt_$TAG.sum
  MODFLAG="-modfile=$PWD/.work/alt_$TAG.mod"
fi
WORK="$PWD/.work/c18_$TAG"; mkdir -p "$WORK"
go build -o bin/vinstr_$TAG ./cmd/vinstr || { echo "BUILD-FAILED vinstr"; exit 2; }
./bin/vinstr_$TAG "$REPO" "$WORK" || { echo "INSTRUMENTATION-FAILED (the tree does not parse; no verdict)"; exit 2; }
if ! go build $MODFLAG -tags verif -overlay "$WORK/overlay.json" -o bin/vsched_$TAG ./cmd/vsched 2> bin/build18_$TAG.err; then
  echo "BUILD-FAILED (instrumented tree does not compile; no verdict)"; cat bin/build18_$TAG.err; exit 2
fi
if [ "$TIER" = "replay" ]; then exec ./bin/vsched_$TAG replay "$2"; fi
./bin/vsched_$TAG explore "$TIER"
rc=$?
ITER=60; [ "$TIER" = "thorough" ] && ITER=400
if [ $rc -eq 0 ]; then
  # supplementary, not the deciding step: the same scenario bodies free-running under the race
  # detector (catches accesses the syntactic instrumentation cannot see, e.g. through aliases
  # handed to other packages); a report here is a VIOLATION and an instrumentation gap
  if go build $MODFLAG -race -tags verif -overlay "$WORK/overlay.json" -o bin/vsched-race_$TAG ./cmd/vsched 2> bin/build18r_$TAG.err; then
    for p in 2 16; do
      GOMAXPROCS=$p ./bin/vsched-race_$TAG free $ITER > bin/race_${TAG}_$p.out 2>&1
      if grep -q "DATA RACE\|fatal error: concurrent map" bin/race_${TAG}_$p.out; then
        OUT="${VERIF_OUT:-$PWD}"; mkdir -p "$OUT/violations/C18"; cp bin/race_${TAG}_$p.out "$OUT/violations/C18/free_running_race_$p.txt"
        echo "VIOLATION property=C18 replay=$OUT/violations/C18/free_running_race_$p.txt"
        echo "  key=free-running|race-detector (an instrumentation gap: the explorer did not see this race)"
        rc=1
      fi
    done
  fi
fi
exit $rc
