#!/usr/bin/env python3
"""seedtest.py <dir-with-patch.diff,meta.json,demo> [--tier quick|thorough] [--check ID]
Applies a seeded property-breaking change to /repo, confirms it (suite passes,
demo fails with it / passes without), runs the property's check, and ALWAYS
reverts /repo. Prints one summary line."""
import json, os, subprocess, sys, shutil

ENV = dict(os.environ, GOFLAGS="-mod=mod", GOPROXY="off", GOSUMDB="off", GOTOOLCHAIN="local")

def sh(cmd, cwd="/repo", timeout=3600):
    p = subprocess.run(cmd, shell=True, cwd=cwd, env=ENV, capture_output=True, text=True, timeout=timeout)
    return p.returncode, p.stdout + p.stderr

def main():
    d = sys.argv[1].rstrip("/")
    tier = "quick"
    if "--tier" in sys.argv:
        tier = sys.argv[sys.argv.index("--tier") + 1]
    meta = json.load(open(d + "/meta.json"))
    prop = meta["property"]
    if "--check" in sys.argv:
        prop = sys.argv[sys.argv.index("--check") + 1]
    demo = meta.get("demo", {})
    copy_to = demo.get("copy_to") or demo.get("path_in_repo")
    run = demo.get("run")
    demo_src = None
    for f in os.listdir(d):
        if f.endswith("_test.go"):
            demo_src = d + "/" + f
    rc, out = sh("git status --porcelain")
    if out.strip():
        print("REPO NOT CLEAN, abort:", out); sys.exit(2)
    res = {"seed": d, "property": prop}
    dst = "/repo/" + copy_to.lstrip("/").replace("/tmp/wt_%s/" % meta["property"], "") if copy_to else None
    if dst and dst.startswith("/repo//"):
        dst = dst.replace("/repo//", "/repo/")
    run_cmd = None
    if run:
        import re
        run_cmd = run.replace("/tmp/wt_%s" % meta["property"], "/repo")
        run_cmd = re.sub(r"^\s*cd\s+\S+\s*&&\s*", "", run_cmd)
        run_cmd = re.sub(r"^.*?(go test)", r"\1", run_cmd, count=1)
        run_cmd = "cd /repo && " + run_cmd
    try:
        if dst and demo_src:
            shutil.copy(demo_src, dst)
            rc, out = sh(run_cmd, cwd="/repo")
            res["demo_passes_clean"] = (rc == 0)
            if rc != 0:
                res["demo_clean_out"] = out[-600:]
        rc, out = sh("git apply --whitespace=nowarn " + d + "/patch.diff")
        if rc != 0:
            res["apply"] = "FAILED: " + out[-300:]
            print(json.dumps(res)); return
        if dst and demo_src:
            rc, out = sh(run_cmd, cwd="/repo")
            res["demo_fails_mutant"] = (rc != 0)
            os.remove(dst)
        rc, out = sh("go build ./... && go test -vet=off -count=1 ./... 2>&1 | grep -v 'no test files' | grep -v '^ok' | head -20")
        res["suite_passes_mutant"] = (out.strip() == "")
        if out.strip():
            res["suite_out"] = out[-500:]
        rc, out = sh("./check.sh %s %s" % (prop, tier), cwd="/verif", timeout=7200)
        res["check_exit"] = rc
        vio = [l for l in out.splitlines() if l.startswith("VIOLATION")]
        keys = sorted(set(l.strip() for l in out.splitlines() if l.strip().startswith("key=")))
        res["violations"] = len(vio)
        res["keys"] = keys[:8]
        res["detected"] = (rc == 1 and len(vio) > 0)
        if rc not in (0, 1):
            res["check_out"] = out[-600:]
    finally:
        sh("git checkout -- . && git clean -fdq -- . ")
        if dst and os.path.exists(dst):
            os.remove(dst)
    print(json.dumps(res, indent=1))
    if "--keep" in sys.argv:
        name = sys.argv[sys.argv.index("--keep") + 1]
        out = "/verif/seeded/" + name
        os.makedirs(out, exist_ok=True)
        shutil.copy(d + "/patch.diff", out + "/patch.diff")
        if demo_src:
            shutil.copy(demo_src, out + "/demo_test.go")
        meta["confirmed_by_framework_author"] = {
            "demo_passes_on_unchanged_tree": res.get("demo_passes_clean"),
            "demo_fails_with_change": res.get("demo_fails_mutant"),
            "existing_suite_passes_with_change": res.get("suite_passes_mutant"),
            "check_run": "./check.sh %s %s" % (prop, tier),
            "check_detects": res.get("detected"),
            "violation_keys": res.get("keys"),
            "how": "seedtest.py: git -C /repo apply patch.diff; go test ./...; demo; check; git -C /repo checkout -- .",
        }
        json.dump(meta, open(out + "/meta.json", "w"), indent=1)

main()
