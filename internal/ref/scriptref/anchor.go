package scriptref

import (
	"encoding/hex"
	"encoding/json"
	"fmt"
	"math"
	"math/big"
	"os"
	"strconv"
	"strings"

	"verif/internal/ref/txref"
)

var opNames = map[string]byte{}

func init() {
	names := map[byte]string{
		0x00: "0", 0x4c: "PUSHDATA1", 0x4d: "PUSHDATA2", 0x4e: "PUSHDATA4", 0x4f: "1NEGATE", 0x50: "RESERVED",
		0x61: "NOP", 0x62: "VER", 0x63: "IF", 0x64: "NOTIF", 0x65: "VERIF", 0x66: "VERNOTIF", 0x67: "ELSE", 0x68: "ENDIF", 0x69: "VERIFY", 0x6a: "RETURN",
		0x6b: "TOALTSTACK", 0x6c: "FROMALTSTACK", 0x6d: "2DROP", 0x6e: "2DUP", 0x6f: "3DUP", 0x70: "2OVER", 0x71: "2ROT", 0x72: "2SWAP", 0x73: "IFDUP", 0x74: "DEPTH",
		0x75: "DROP", 0x76: "DUP", 0x77: "NIP", 0x78: "OVER", 0x79: "PICK", 0x7a: "ROLL", 0x7b: "ROT", 0x7c: "SWAP", 0x7d: "TUCK",
		0x7e: "CAT", 0x7f: "SPLIT", 0x80: "NUM2BIN", 0x81: "BIN2NUM", 0x82: "SIZE", 0x83: "INVERT", 0x84: "AND", 0x85: "OR", 0x86: "XOR", 0x87: "EQUAL", 0x88: "EQUALVERIFY",
		0x89: "RESERVED1", 0x8a: "RESERVED2", 0x8b: "1ADD", 0x8c: "1SUB", 0x8d: "2MUL", 0x8e: "2DIV", 0x8f: "NEGATE", 0x90: "ABS", 0x91: "NOT", 0x92: "0NOTEQUAL",
		0x93: "ADD", 0x94: "SUB", 0x95: "MUL", 0x96: "DIV", 0x97: "MOD", 0x98: "LSHIFT", 0x99: "RSHIFT", 0x9a: "BOOLAND", 0x9b: "BOOLOR", 0x9c: "NUMEQUAL", 0x9d: "NUMEQUALVERIFY",
		0x9e: "NUMNOTEQUAL", 0x9f: "LESSTHAN", 0xa0: "GREATERTHAN", 0xa1: "LESSTHANOREQUAL", 0xa2: "GREATERTHANOREQUAL", 0xa3: "MIN", 0xa4: "MAX", 0xa5: "WITHIN",
		0xa6: "RIPEMD160", 0xa7: "SHA1", 0xa8: "SHA256", 0xa9: "HASH160", 0xaa: "HASH256", 0xab: "CODESEPARATOR", 0xac: "CHECKSIG", 0xad: "CHECKSIGVERIFY",
		0xae: "CHECKMULTISIG", 0xaf: "CHECKMULTISIGVERIFY", 0xb0: "NOP1", 0xb1: "CHECKLOCKTIMEVERIFY", 0xb2: "CHECKSEQUENCEVERIFY", 0xb3: "NOP4", 0xb4: "NOP5",
		0xb5: "NOP6", 0xb6: "NOP7", 0xb7: "NOP8", 0xb8: "NOP9", 0xb9: "NOP10", 0xff: "INVALIDOPCODE",
	}
	for b, n := range names {
		opNames[n] = b
		opNames["OP_"+n] = b
	}
	for i := 1; i <= 16; i++ {
		opNames[fmt.Sprintf("OP_%d", i)] = byte(0x50 + i)
	}
	opNames["OP_FALSE"], opNames["FALSE"] = 0, 0
	opNames["OP_TRUE"], opNames["TRUE"] = 0x51, 0x51
	opNames["NOP2"], opNames["OP_NOP2"] = 0xb1, 0xb1
	opNames["NOP3"], opNames["OP_NOP3"] = 0xb2, 0xb2
	delete(opNames, "0") // plain numbers are parsed as numbers
}

// ParseShortForm parses the node test-vector script notation.
func ParseShortForm(s string) ([]byte, error) {
	var out []byte
	for _, tok := range strings.Fields(s) {
		if n, err := strconv.ParseInt(tok, 10, 64); err == nil {
			switch {
			case n == 0:
				out = append(out, 0)
			case n == -1 || (n >= 1 && n <= 16):
				out = append(out, byte(0x50+n))
			default:
				out = append(out, pushEncode(NumEncode(big.NewInt(n)))...)
			}
			continue
		}
		if strings.HasPrefix(tok, "0x") {
			b, err := hex.DecodeString(tok[2:])
			if err != nil {
				return nil, err
			}
			out = append(out, b...)
			continue
		}
		if len(tok) >= 2 && tok[0] == '\'' && tok[len(tok)-1] == '\'' {
			out = append(out, pushEncode([]byte(tok[1:len(tok)-1]))...)
			continue
		}
		if b, ok := opNames[tok]; ok {
			out = append(out, b)
			continue
		}
		return nil, fmt.Errorf("bad token %q", tok)
	}
	return out, nil
}

var flagNames = map[string]uint32{
	"": 0, "NONE": 0, "P2SH": P2SH, "STRICTENC": StrictEnc, "DERSIG": DERSig, "LOW_S": LowS, "NULLDUMMY": NullDummy, "SIGPUSHONLY": SigPushOnly,
	"MINIMALDATA": MinimalData, "DISCOURAGE_UPGRADABLE_NOPS": DiscourageNops, "CLEANSTACK": CleanStack, "CHECKLOCKTIMEVERIFY": CLTV,
	"CHECKSEQUENCEVERIFY": CSV, "MINIMALIF": MinimalIf, "NULLFAIL": NullFail, "SIGHASH_FORKID": ForkID, "UTXO_AFTER_GENESIS": Genesis,
}

// ParseFlags parses the comma-separated flag names of the vectors.
func ParseFlags(s string) (uint32, error) {
	var f uint32
	for _, n := range strings.Split(s, ",") {
		v, ok := flagNames[n]
		if !ok {
			return 0, fmt.Errorf("unknown flag %q", n)
		}
		f |= v
	}
	return f, nil
}

// SpendingTx builds the node test harness's credit/spend pair and returns the spend.
func SpendingTx(unlock, lock []byte, amount uint64) *txref.Tx {
	credit := &txref.Tx{Version: 1,
		Ins:  []txref.In{{TxID: make([]byte, 32), Vout: 0xffffffff, Script: []byte{0, 0}, Seq: 0xffffffff}},
		Outs: []txref.Out{{Sats: amount, Script: lock}}}
	return &txref.Tx{Version: 1,
		Ins:  []txref.In{{TxID: credit.TxID(), Vout: 0, Script: unlock, Seq: 0xffffffff, PrevSats: amount, PrevScript: lock}},
		Outs: []txref.Out{{Sats: amount, Script: []byte{}}}}
}

// Vector is one parsed script_tests.json entry.
type Vector struct {
	Unlock, Lock []byte
	Flags        uint32
	Amount       uint64
	Expect       string
	Line         int
}

// LoadVectors parses script_tests.json.
func LoadVectors(path string) ([]Vector, error) {
	b, err := os.ReadFile(path)
	if err != nil {
		return nil, err
	}
	var rows [][]any
	if err := json.Unmarshal(b, &rows); err != nil {
		return nil, err
	}
	var out []Vector
	for i, row := range rows {
		if len(row) == 1 {
			continue
		}
		var amt uint64
		if a, ok := row[0].([]any); ok {
			if f, ok := a[0].(float64); ok {
				amt = uint64(math.Round(f * 1e8))
			}
			row = row[1:]
		}
		if len(row) < 4 {
			return nil, fmt.Errorf("row %d malformed", i)
		}
		u, err := ParseShortForm(row[0].(string))
		if err != nil {
			return nil, fmt.Errorf("row %d: %v", i, err)
		}
		l, err := ParseShortForm(row[1].(string))
		if err != nil {
			return nil, fmt.Errorf("row %d: %v", i, err)
		}
		f, err := ParseFlags(row[2].(string))
		if err != nil {
			return nil, fmt.Errorf("row %d: %v", i, err)
		}
		out = append(out, Vector{u, l, f, amt, row[3].(string), i})
	}
	return out, nil
}

// Anchor runs every vector through the reference; the reference's verdict must
// equal the expected OK / not-OK. Returns the number of vectors reproduced.
func Anchor(path string) (int, error) {
	vs, err := LoadVectors(path)
	if err != nil {
		return 0, err
	}
	n := 0
	for _, v := range vs {
		tx := SpendingTx(v.Unlock, v.Lock, v.Amount)
		res := Verify(v.Unlock, v.Lock, v.Flags, &TxCtx{Tx: tx, Idx: 0, Amount: v.Amount}, ECDSACheck, false)
		if res.OK != (v.Expect == "OK") || (!res.OK && res.Err != v.Expect) {
			return n, fmt.Errorf("vector at row %d (%x / %x flags %#x): reference says ok=%v (%s), node expects %s", v.Line, v.Unlock, v.Lock, v.Flags, res.OK, res.Err, v.Expect)
		}
		n++
	}
	return n, nil
}
