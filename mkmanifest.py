#!/usr/bin/env python3
"""Regenerates MANIFEST.json from the table below (keeps it schema-valid)."""
import json, subprocess, sys

# id -> (level, technique, level text, level note, design ref)
CHECKS = {
 "C14": ("exploration", "exhaustive bounded enumeration of script byte strings and template mutants against an independent tokenizer/classifier",
         "Every byte string up to length 2/3, every string up to length 4/5 over an opcode alphabet and every single/double mutation of each standard template is run through every inspection query; totality and the classification rules are checked on each. Exhaustive within the bound, nothing sampled.",
         "Independent reference tokenizer/template classifier in internal/props/c14.go; trusted: Go runtime, encoding/json.", "DESIGN.md §4 C14"),
 "C01": ("exploration", "exhaustive bounded enumeration of transaction structures and byte strings against a reference wire codec (struct->bytes->struct and bytes->struct->bytes)",
         "Every structure of a boundary-valued product space and every string of the listed string spaces is pushed through all serialisers/decoders and compared field-for-field and byte-for-byte with an independent reference codec; exhaustive within the bound.",
         "Reference codec internal/ref/txref (written from the format description, BIP-239); trusted: crypto/sha256.", "DESIGN.md §4 C01"),
 "C09": ("fault_enumeration", "exhaustive enumeration of truncations, bit flips and adversarial length/count claims at every field, executed in isolated single-threaded child processes with allocation accounting and death/hang attribution",
         "Every truncation point, every bit flip and every length/count field position carrying each adversarial claim (up to 2^64-1), plus short-alphabet strings and a product of JSON documents, through every decoding entry point; each call must return, report consumption <= supplied and allocate proportionally to the input.",
         "Allocation measured with runtime.MemStats.TotalAlloc in a single-threaded child under RLIMIT_AS; deaths attributed through a progress marker and reproduced twice.", "DESIGN.md §4 C09"),
 "C02": ("exploration", "exhaustive bounded enumeration (all 128 FORKID hash types x tx shapes x indices x missing-element cases) against a reference digest certified on the node's 1000 sighash vectors",
         "Every element of the product space is hashed by the library and by an independent reference of the BSV FORKID algorithm; preimages are compared byte for byte, error behaviour and non-modification are checked on each.",
         "Reference internal/ref/sighashref must first reproduce all 500+500 node vectors in /repo/bscript/interpreter/data (otherwise the run aborts without verdict); trusted: crypto/sha256.", "DESIGN.md §4 C02"),
 "C03": ("exploration", "exhaustive bounded enumeration (all 128 legacy hash types x tx shapes x in-range indices x filled/unfilled inputs) against a reference of the original algorithm certified on the node's legacy vectors",
         "Every element of the product space is serialised by the library's legacy path and by the reference; byte equality, the SIGHASH_SINGLE constant and non-modification of the caller's transaction are checked on each.",
         "Same reference and anchor as C02.", "DESIGN.md §4 C03"),
 "C13": ("exploration", "exhaustive bounded enumeration of scripts, part lists and opcode/push sequences through every script codec against a reference tokenizer",
         "Every byte string up to length 2/3, every truncation of 40 longer scripts, every part list over the push-boundary lengths and every ASM sequence up to length 2/3 over the full non-push opcode alphabet is round-tripped and compared with the reference tokenizer / shortest-prefix table.",
         "Reference tokenizer in internal/props/c14.go, prefix table in c13.go; trusted: encoding/hex, encoding/json.", "DESIGN.md §4 C13"),
 "C15": ("exploration", "exhaustive enumeration of every single-character edit of derived addresses through every acceptor, against a reference Base58Check codec",
         "For each hash/key and network every substitution, transposition, insertion and deletion of the derived address (plus wrong versions/lengths with correct checksums) is offered to all five acceptors; acceptance must equal the reference decoder's verdict; all constructors must agree on the canonical script.",
         "Reference Base58Check in internal/props/c15.go (math/big); known finding: NewAddressFromString path ignores the checksum (cannot be fixed without failing the repository's own tests).", "DESIGN.md §4 C15"),
 "C17": ("exploration", "exhaustive enumeration of all 65,025 version/network pairs, every payload length 0..300 and every single-character corruption (all printable ASCII) of 40 encodings against a reference BIP276 codec",
         "All (version, network) pairs x prefixes x payload lengths are encoded and decoded and compared with the specified layout; every single-character substitution/insertion/deletion of valid texts must be rejected whenever the reference rejects.",
         "Reference codec in internal/props/c17.go; known findings: field order is network-then-version (pinned by the repository's own test), so texts with version != network fail layout and round trip.", "DESIGN.md §4 C17"),
 "C16": ("exploration", "exhaustive enumeration of every satoshi amount in a low range plus decimal-boundary amounts, and a product of transaction shapes/signing states, through both JSON dialects",
         "Every amount 0..2e6 (quick) / 0..1e8 (thorough) and ~8,000 boundary amounts up to 21e14 round-trips through Output/UTXO in both dialects; every transaction of the product space round-trips as Tx, Txs, []Tx, Output, UTXOs with identical serialisation; marshalling never panics.",
         "Trusted: encoding/json, strconv float formatting.", "DESIGN.md §4 C16"),
 "C11": ("exploration", "exhaustive bounded enumeration of output-kind combinations, signing states, fee quotes and amount placements around the big-integer reference fee",
         "Size partition, floor-fee formula and the two sufficiency predicates are compared with a math/big reference on every element; estimate >= signed size is checked over keys x shapes x every pre-signed subset with real signatures; estimators must refuse missing/unsupported spent scripts.",
         "Reference fee model internal/props/feeref.go; signatures by go-bk.", "DESIGN.md §4 C11"),
 "C10": ("exploration", "exhaustive bounded enumeration of change scenarios (shapes x destinations x quotes x amount placements) checked against the statement's post-conditions computed with a big-integer reference fee model",
         "Every scenario of the product space is run through Change/ChangeToAddress/ChangeToExistingOutput and the post-conditions (untouched outputs, no value creation, quoted fee <= fee left <= quoted fee + slack, unchanged only at/below dust) are evaluated on the result.",
         "Reference fee model internal/props/feeref.go (107-byte placeholder for unsigned P2PKH inputs).", "DESIGN.md §4 C10"),
 "C12": ("model_checking", "explicit-state exploration of the funding loop through the real Tx.Fund: every supplier history up to depth 4/5 over a 16-answer alphabet, with a reference loop in lockstep inside the supplier",
         "The supplier is the nondeterministic environment; every history (breadth-complete up to the depth bound) x 14 start transactions x 6 quotes is replayed against the implementation and every supplier call is compared with the reference deficit; final inputs/outputs/error are compared with the reference loop. States, transitions and traces are counted by the run.",
         "Reference fee model internal/props/feeref.go; all traces are executed on the implementation (no separate model language).", "DESIGN.md §4 C12"),
 "C04": ("exploration", "exhaustive enumeration of sign -> single-field mutation -> verify over keys, shapes, positions, 12 hash types and every mutation class, with the reference digest deciding what each hash type commits to",
         "Each input is signed through the library's signing path and verified by the interpreter; every single-field mutation at every position is then applied and the input must verify iff the reference digest is unchanged.",
         "Reference digests internal/ref/sighashref (anchored on the node vectors); ECDSA by go-bk.", "DESIGN.md §4 C04"),
 "C20": ("exploration", "exhaustive bounded enumeration of the four ordinals flow pairs over keys, prices, funding sets placed around the price/fee thresholds and quotes, each completed transaction checked by the interpreter, a FIFO satoshi-flow reference and the reference fee model; inscription round trips over boundary lengths",
         "Every scenario of the product space is driven through the real listing/bidding/acceptance functions (the partially signed tx crosses a serialisation boundary); every completed transaction has all inputs executed by the interpreter, the seller output position/bytes, FIFO ordinal routing and the fee checked.",
         "Interpreter verdicts come from the library itself (its agreement with the reference is C05/C06's concern); FIFO model and fee model are the framework's. Known finding: empty content type / payload do not round-trip through ParseInscription.", "DESIGN.md §4 C20"),
 "C05": ("model_checking", "explicit-state exploration of the real interpreter in lockstep with a reference model of the BSV script rules anchored on all 1438 node vectors: operand grid over every opcode, all short byte strings as scripts, breadth-first program search with canonical-state deduplication, limit/P2SH templates",
         "Every execution of the bounded spaces runs on the real Engine.Execute with a recording debugger; after every instruction the snapshot of both stacks is compared with the reference machine and the final verdicts are compared. The reference must reproduce the verdict and error name of every vector in script_tests.json before it may judge. States (distinct snapshots), transitions (instructions compared) and traces (executions) are counted by the run.",
         "Reference internal/ref/scriptref is written from the node's interpreter semantics as the author knows them and certified only on the shipped vectors; scripts reaching a signature opcode are judged by C06; elements above 70,000 bytes are not materialised.", "DESIGN.md §4 C05"),
 "C08": ("model_checking", "explicit-state exploration of the real interpreter with value-semantics lockstep (every stack item after every step) over a provenance x transformer grid, the mixed-alphabet program search and real signature spends, plus byte-for-byte comparison of caller-owned script buffers and the transaction before/after",
         "Every execution compares all items of both stacks with the value-semantics reference after each instruction (an aliasing bug shows as a change in an item the opcode does not touch), and the caller's script buffers, tx serialisation and the recorded spent output after the run, with and without a debugger.",
         "Same reference and anchor as C05; signature verdicts in these runs are not judged here (C06).", "DESIGN.md §4 C08"),
 "C19": ("model_checking", "explicit-state exploration of the real interpreter, every program run five ways (none / recording / scribbling debugger, direct and through debug.NewDebugger), with a lifecycle automaton over the callback trace and snapshot-sequence comparison",
         "For every program of the bounded spaces: identical verdict and error text with and without debuggers, callback trace accepted by the lifecycle automaton, scribbling over every snapshot changes neither the trace nor the snapshot sequence, snapshot indices consistent, consecutive snapshots consistent with the reference effect of the instruction.",
         "Lifecycle grammar derived from debug.go's documentation and thread.execute; same reference as C05.", "DESIGN.md §4 C19"),
 "C07": ("model_checking", "exhaustive exploration of Engine.Execute over all 65,536 flag words, a product of script pairs x transaction contexts x input indices x debuggers, all short byte strings, and one Engine value reused across every ordered pair of contexts, executed in isolated child processes with death/hang attribution and an allocation bound",
         "Every execution of the bounded spaces must return nil or an error: panics are recovered per case, log.Fatal / out-of-memory / hangs are attributed to the exact case through a progress marker and reproduced twice in fresh processes, and a 32 MiB allocation bound catches count-driven allocations.",
         "Child processes run under RLIMIT_AS 6 GiB with a 90 s stall watchdog; WithState is excluded (documented experimental).", "DESIGN.md §4 C07"),
 "C06": ("exploration", "exhaustive product of signature-opcode scenarios with real ECDSA signatures (lock forms x key encodings x 17 hash types x 9 signature kinds x all 64 signature-flag subsets x both eras; every m-of-n<=3 with every tuple over the slot alphabet), each executed in lockstep against the reference CHECKSIG/CHECKMULTISIG model",
         "Every scenario is executed by the real interpreter and by the reference; the verdict and the stack after every instruction must agree. Signatures are produced from the reference digests so that 'valid' means valid under the node's rules for the flags in force.",
         "Reference sig-op model written after the node's interpreter.cpp as the author knows it, certified on the signature vectors of script_tests.json; SIGHASH_FORKID implies STRICTENC as the library documents. Known finding: FORKID-bit signatures verified without the FORKID flag use the FORKID digest (cannot be fixed: a repository example relies on it).", "DESIGN.md §4 C06"),
 "C18": ("model_checking", "stateless schedule exploration of the real fees.go and Engine.Execute under a hand-written cooperative scheduler (instrumented from the working tree at check time), DFS over choice prefixes with iterative preemption bound then unbounded, vector-clock happens-before race monitor, deadlock detection and a brute-force linearizability oracle",
         "Every interleaving (at lock-operation granularity, with writer preference modelled) of every 2- and 3-thread scenario over the FeeQuote/FeeQuotes operation alphabet is executed on the real code; each schedule is checked for unordered conflicting accesses to guarded fields, deadlock, panics and linearizability against a plain-map model; Execute on a shared engine is checked for shared-state accesses and for verdicts equal to sequential ones. Schedules are replayable and every finding is re-executed before it is reported.",
         "Scheduling points only at lock operations and thread start/end (sufficient given the race monitor covers unsynchronised accesses); memory-model effects below that are covered only by the supplementary free-running -race pass (both tiers); the access probes come from a go/types pass over packages bt, bscript and bscript/interpreter (every field reached through a pointer, every package-level variable, locals aliasing map/slice fields) - accesses made through closures, reflection (encoding/json) or other packages are not probed.", "DESIGN.md §4 C18"),
}

WATCHED = {"C01", "C02", "C03", "C04", "C08", "C10", "C11", "C12", "C16"}
CONCURRENT = {"C01", "C02", "C03", "C13", "C14", "C15", "C16", "C17"}

PENDING_REASON = "check not built yet in this round (planned, see DESIGN.md §4); not claimed until its exhaustive check exists and is quiet on the unchanged tree"

def main():
    ids = [json.loads(l)["id"] for l in open("properties.jsonl")]
    checks = []
    for i in ids:
        if i not in CHECKS:
            continue
        level, tech, text, note, ref = CHECKS[i]
        if i in WATCHED:
            tech += "; second stage: write monitor in the instrumented build (every write to the caller's transaction, inputs and outputs that the property does not allow is reported, whether or not it is undone before the call returns)"
        if i in CONCURRENT:
            tech += "; concurrent stage in the instrumented build: the property's operations called by 2-4 callers at once on objects of their own under the cooperative scheduler - every interleaving at the library's lock operations (preemption bound 2, then unbounded), vector-clock monitor for conflicting accesses to shared state, results compared with each call made alone"
        checks.append({
            "property_id": i,
            "quick_cmd": f"./check.sh {i} quick",
            "thorough_cmd": f"./check.sh {i} thorough",
            "evidence_file": f"/verif/evidence/{i}.json",
            "replay_cmd_template": ("./c18.sh replay {path}" if i == "C18" else "./bin/vcheck replay {path}"),
            "engine": "vcheck",
            "level_claimed": {"category": level, "text": text, "design_ref": ref},
            "level_note": note,
            "technique": tech,
        })
    m = {
        "version": 1,
        "setup_cmd": "./setup.sh",
        "hooks": {
            "guard": "verif",
            "enable": "no hook is committed to /repo: the scheduling points and access probes used by C18, by the write-monitor stage of C01, C02, C03, C04, C08, C10, C11, C12 and C16 and by the concurrent stage of C01, C02, C03 and C13-C17 are generated from the current sources of packages bt, bscript and bscript/interpreter at check time and injected with `go build -tags verif -overlay .work/overlay.json`",
            "baseline_off_cmd": "cd /repo && go test -mod=mod -json -vet=off -count=1 -timeout 25m ./...",
            "source_commits": [],
            "add_only": True,
        },
        "engines": [
            {"name": "vcheck", "path": "cmd/vcheck", "serves_properties": sorted(CHECKS),
             "kind_free_text": "hand-written explicit-state / exhaustive bounded-space explorer in Go driving the real library code against reference models (internal/enum, internal/props, internal/ref)"},
        ],
        "checks": checks,
        "notes": "All checks rebuild against /repo's working tree through the go.mod replace directive. Known findings and fixed defects: known_findings.json. See DESIGN.md.",
        "not_applicable": [{"property_id": i, "reason": PENDING_REASON} for i in ids if i not in CHECKS],
    }
    json.dump(m, open("MANIFEST.json", "w"), indent=1)
    try:
        import jsonschema
        jsonschema.validate(m, json.load(open("/root/.vp/MANIFEST.schema.json")))
        print("MANIFEST valid;", len(checks), "checks")
    except ImportError:
        print("jsonschema not importable; not validated")

if __name__ == "__main__":
    main()
