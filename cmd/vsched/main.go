//go:build verif

// vsched is the C18 schedule explorer. It is built with the overlay produced
// by vinstr (instrumented fees.go / interpreter + the vsync shim), so the code
// under test is the library's current working tree running under a
// cooperative scheduler that this program drives through every interleaving.
//
//	vsched explore <quick|thorough>   explore all scenarios, write evidence/C18.json
//	vsched replay <violation.json>    re-run one recorded schedule
//	vsched free <iterations>          run the scenario bodies free-running (for `go build -race`)
package main

import (
	"context"
	"encoding/json"
	"fmt"
	"os"
	"sort"
	"strings"
	"sync"
	"time"

	"github.com/libsv/go-bk/bec"
	"github.com/libsv/go-bt/v2"
	"github.com/libsv/go-bt/v2/bscript"
	"github.com/libsv/go-bt/v2/bscript/interpreter"
	"github.com/libsv/go-bt/v2/bscript/interpreter/scriptflag"
	"github.com/libsv/go-bt/v2/sighash"
	"github.com/libsv/go-bt/v2/unlocker"
	"github.com/libsv/go-bt/v2/zzverif/vsync"

	"verif/internal/rep"
)

// ---------- operations and sequential model ----------

type event struct {
	thread, op int
	name       string
	call, ret  int
	result     string
}

type world struct {
	fq    *bt.FeeQuote
	fqs   *bt.FeeQuotes
	clock int
	mu    sync.Mutex // only for the free-running mode
	evs   []*event
	fees  map[string]*bt.Fee // named fee objects
}

var (
	t0 = time.Date(2030, 1, 1, 0, 0, 0, 0, time.UTC) // = vsync logical now
	t1 = t0.Add(time.Hour)
	tP = t0.Add(-time.Hour)
)

func feeName(w *world, f *bt.Fee) string {
	if f == nil {
		return "nil"
	}
	for n, x := range w.fees {
		if x == f {
			return n
		}
	}
	if f.MiningFee.Satoshis == 9 && f.MiningFee.Bytes == 10 {
		return "J" // the fee object UnmarshalJSON creates
	}
	return fmt.Sprintf("fee{%d/%d}", f.MiningFee.Satoshis, f.MiningFee.Bytes)
}

// model is the sequential specification: plain maps.
type model struct {
	fees   map[string]string // fee type -> fee name
	expiry string
	quotes map[string]*model // miner -> quote model (FeeQuotes)
}

func (m *model) clone() *model {
	c := &model{fees: map[string]string{}, expiry: m.expiry}
	for k, v := range m.fees {
		c.fees[k] = v
	}
	if m.quotes != nil {
		c.quotes = map[string]*model{}
		for k, v := range m.quotes {
			c.quotes[k] = v // quote models are shared objects (pointers), as in the implementation
		}
	}
	return c
}

type opDef struct {
	name string
	// run executes on the implementation and returns the observable result
	run func(w *world) string
	// spec applies the operation to the model and returns the expected result
	spec func(m *model, shared map[string]*model) string
	racy bool // touches known-unlocked paths (MarshalJSON/UnmarshalJSON)
}

func tstr(t time.Time) string { return t.Format(time.RFC3339) }

func fqOps() map[string]opDef {
	fee := func(ft string) opDef {
		return opDef{name: "Fee(" + ft + ")",
			run: func(w *world) string {
				f, err := w.fq.Fee(bt.FeeType(ft))
				if err != nil {
					return "err"
				}
				// the caller reads the Fee it was given
				vsync.Access(f, "MiningFee", false, "harness: caller reads the *Fee that Fee("+ft+") returned")
				n := feeName(w, f)
				if r, ok := feeRate[n]; ok && r != fmt.Sprintf("%d/%d", f.MiningFee.Satoshis, f.MiningFee.Bytes) {
					return n + " reading " + fmt.Sprintf("%d/%d", f.MiningFee.Satoshis, f.MiningFee.Bytes) + " (modified in place)"
				}
				return n
			},
			spec: func(m *model, _ map[string]*model) string {
				if v, ok := m.fees[ft]; ok {
					return v
				}
				return "err"
			}}
	}
	add := func(ft, fn string) opDef {
		return opDef{name: "AddQuote(" + ft + "," + fn + ")",
			run:  func(w *world) string { w.fq.AddQuote(bt.FeeType(ft), w.fees[fn]); return "ok" },
			spec: func(m *model, _ map[string]*model) string { m.fees[ft] = fn; return "ok" }}
	}
	return map[string]opDef{
		"FeeStd":  fee("standard"),
		"FeeData": fee("data"),
		// a fee type the quote does not carry: the lookup fails (and must leave nothing locked behind)
		"FeeUnknown": fee("priority"),
		"AddStd":     add("standard", "F1"),
		"AddStd2":    add("standard", "F3"),
		"AddData":    add("data", "F2"),
		"Expiry": {name: "Expiry()",
			run:  func(w *world) string { return tstr(w.fq.Expiry()) },
			spec: func(m *model, _ map[string]*model) string { return m.expiry }},
		"UpdExp": {name: "UpdateExpiry(T1)",
			run:  func(w *world) string { w.fq.UpdateExpiry(t1); return "ok" },
			spec: func(m *model, _ map[string]*model) string { m.expiry = tstr(t1); return "ok" }},
		"UpdExpPast": {name: "UpdateExpiry(past)",
			run:  func(w *world) string { w.fq.UpdateExpiry(tP); return "ok" },
			spec: func(m *model, _ map[string]*model) string { m.expiry = tstr(tP); return "ok" }},
		"Expired": {name: "Expired()",
			run: func(w *world) string { return fmt.Sprint(w.fq.Expired()) },
			spec: func(m *model, _ map[string]*model) string {
				e, _ := time.Parse(time.RFC3339, m.expiry)
				return fmt.Sprint(e.Before(t0))
			}},
		"TxFee": {name: "tx.EstimateFeesPaid(quote)",
			run: func(w *world) string {
				f, err := feeTx().EstimateFeesPaid(w.fq)
				if err != nil {
					return "err"
				}
				return fmt.Sprintf("%d+%d", f.StdFeePaid, f.DataFeePaid)
			},
			spec: func(m *model, _ map[string]*model) string {
				sn, ok1 := m.fees["standard"]
				dn, ok2 := m.fees["data"]
				if !ok1 || !ok2 {
					return "err"
				}
				var ss, sb, ds, db uint64
				fmt.Sscanf(feeRate[sn], "%d/%d", &ss, &sb)
				fmt.Sscanf(feeRate[dn], "%d/%d", &ds, &db)
				sz, _ := feeTx().EstimateSizeWithTypes()
				return fmt.Sprintf("%d+%d", sz.TotalStdBytes*ss/sb, sz.TotalDataBytes*ds/db)
			}},
		"Marshal": {name: "MarshalJSON()", racy: true,
			run: func(w *world) string {
				b, err := json.Marshal(w.fq)
				if err != nil {
					return "err"
				}
				var got map[string]*bt.Fee
				_ = json.Unmarshal(b, &got)
				ks := []string{}
				for k, v := range got {
					ks = append(ks, fmt.Sprintf("%s=%d/%d", k, v.MiningFee.Satoshis, v.MiningFee.Bytes))
				}
				sort.Strings(ks)
				return strings.Join(ks, ",")
			},
			spec: func(m *model, _ map[string]*model) string {
				ks := []string{}
				for k, v := range m.fees {
					ks = append(ks, k+"="+feeRate[v])
				}
				sort.Strings(ks)
				return strings.Join(ks, ",")
			}},
		"Unmarshal": {name: "UnmarshalJSON(J)", racy: true,
			run: func(w *world) string {
				err := json.Unmarshal([]byte(`{"standard":{"miningFee":{"satoshis":9,"bytes":10},"relayFee":{"satoshis":9,"bytes":10}}}`), w.fq)
				if err != nil {
					return "err"
				}
				return "ok"
			},
			spec: func(m *model, _ map[string]*model) string {
				m.fees = map[string]string{"standard": "J"}
				return "ok"
			}},
	}
}

// feeTx is a small unsigned transaction (one P2PKH input, a P2PKH and a data output) whose fee
// is computed from the shared quote by the library's own fee code.
func feeTx() *bt.Tx {
	tx := bt.NewTx()
	lock, _ := bscript.NewP2PKHFromPubKeyHash(make([]byte, 20))
	_ = tx.FromUTXOs(&bt.UTXO{TxID: make([]byte, 32), Vout: 0, Satoshis: 10000, LockingScript: lock})
	tx.AddOutput(&bt.Output{Satoshis: 100, LockingScript: lock})
	_ = tx.AddOpReturnOutput(make([]byte, 120))
	return tx
}

var feeRate = map[string]string{"D1": "5/100", "D2": "5/100", "F1": "1/1", "F2": "2/3", "F3": "7/9", "J": "9/10"}

func newWorld() *world {
	w := &world{fees: map[string]*bt.Fee{}}
	w.fq = bt.NewFeeQuote() // built outside the scheduler: plain construction
	d1, _ := w.fq.Fee(bt.FeeTypeStandard)
	d2, _ := w.fq.Fee(bt.FeeTypeData)
	w.fees["D1"], w.fees["D2"] = d1, d2
	w.fees["F1"] = &bt.Fee{FeeType: bt.FeeTypeStandard, MiningFee: bt.FeeUnit{Satoshis: 1, Bytes: 1}}
	w.fees["F2"] = &bt.Fee{FeeType: bt.FeeTypeData, MiningFee: bt.FeeUnit{Satoshis: 2, Bytes: 3}}
	w.fees["F3"] = &bt.Fee{FeeType: bt.FeeTypeStandard, MiningFee: bt.FeeUnit{Satoshis: 7, Bytes: 9}}
	w.fq.UpdateExpiry(t0.Add(time.Minute))
	return w
}

func newModel() *model {
	return &model{fees: map[string]string{"standard": "D1", "data": "D2"}, expiry: tstr(t0.Add(time.Minute))}
}

// ---------- scenario ----------

type scenario struct {
	Name    string     `json:"name"`
	Threads [][]string `json:"threads"` // op keys per thread
	Kind    string     `json:"kind"`    // feequote | feequotes | engine
}

func (sc scenario) racy(ops map[string]opDef) bool {
	for _, th := range sc.Threads {
		for _, o := range th {
			if ops[o].racy {
				return true
			}
		}
	}
	return false
}

type execution struct {
	res  *vsync.Result
	evs  []*event
	w    *world
	verd []string
}

func (w *world) record(th, i int, od opDef) {
	w.mu.Lock()
	w.clock++
	e := &event{thread: th, op: i, name: od.name, call: w.clock}
	w.evs = append(w.evs, e)
	w.mu.Unlock()
	r := od.run(w)
	w.mu.Lock()
	w.clock++
	e.ret, e.result = w.clock, r
	w.mu.Unlock()
}

func runFeeQuote(sc scenario, prefix []int) execution {
	ops := fqOps()
	w := newWorld()
	var bodies []func()
	for ti, th := range sc.Threads {
		ti, th := ti, th
		bodies = append(bodies, func() {
			for i, o := range th {
				w.record(ti, i, ops[o])
			}
		})
	}
	res := vsync.Run(prefix, bodies)
	return execution{res: res, evs: w.evs, w: w}
}

// linearizable: is there a total order consistent with real time whose
// sequential results equal the observed ones?
func linearizable(evs []*event, ops map[string]opDef, keyOf func(e *event) string) (bool, string) {
	n := len(evs)
	used := make([]bool, n)
	var order []int
	var try func(m *model) bool
	try = func(m *model) bool {
		if len(order) == n {
			return true
		}
		for i, e := range evs {
			if used[i] || e.ret == 0 {
				continue
			}
			// real-time order: nothing unused returned before e was called
			ok := true
			for j, f := range evs {
				if !used[j] && j != i && f.ret != 0 && f.ret < e.call {
					ok = false
					break
				}
			}
			if !ok {
				continue
			}
			m2 := m.clone()
			if ops[keyOf(e)].spec(m2, nil) != e.result {
				continue
			}
			used[i] = true
			order = append(order, i)
			if try(m2) {
				return true
			}
			used[i] = false
			order = order[:len(order)-1]
		}
		return false
	}
	if try(newModel()) {
		return true, ""
	}
	var hs []string
	for _, e := range evs {
		hs = append(hs, fmt.Sprintf("T%d %s [%d,%d] -> %s", e.thread+1, e.name, e.call, e.ret, e.result))
	}
	return false, strings.Join(hs, "; ")
}

// ---------- FeeQuotes scenarios ----------

func feeQuotesBodies(sc scenario) []func() {
	b, _, _ := feeQuotesBodiesNotes(sc)
	return b
}

func runFeeQuotes(sc scenario, prefix []int) (execution, []string) {
	bodies, notes, final := feeQuotesBodiesNotes(sc)
	res := vsync.Run(prefix, bodies)
	final()
	return execution{res: res}, *notes
}

func feeQuotesBodiesNotes(sc scenario) ([]func(), *[]string, func()) {
	// observable consistency for the quotes map: every read returns a quote that some write stored
	fqs := bt.NewFeeQuotes("m1")
	q1, _ := fqs.Quote("m1")
	q2 := bt.NewFeeQuote()
	f9 := &bt.Fee{FeeType: bt.FeeTypeStandard, MiningFee: bt.FeeUnit{Satoshis: 9, Bytes: 9}}
	names := map[*bt.FeeQuote]string{q1: "Q1", q2: "Q2"}
	notes := &[]string{}
	var mu sync.Mutex
	note := func(s string) { mu.Lock(); *notes = append(*notes, s); mu.Unlock() }
	// every Fee object a write can store, with the contents it was stored with: a read must return
	// one of these objects, reading as stored; nothing in the API may change a Fee in place
	stored := map[*bt.Fee]bt.Fee{f9: *f9}
	for _, q := range []*bt.FeeQuote{q1, q2} {
		for _, ft := range []bt.FeeType{bt.FeeTypeStandard, bt.FeeTypeData} {
			if f, err := q.Fee(ft); err == nil {
				stored[f] = *f
			}
		}
	}
	readFee := func(op string, f *bt.Fee) {
		vsync.Access(f, "MiningFee", false, "harness: caller reads the *Fee that "+op+" returned")
		vsync.Access(f, "RelayFee", false, "harness: caller reads the *Fee that "+op+" returned")
		got := *f
		want, ok := stored[f]
		switch {
		case !ok:
			note(op + " returned a Fee object nobody stored")
		case got != want:
			note(fmt.Sprintf("%s returned a Fee reading %+v, it was stored as %+v", op, got, want))
		}
	}
	final := func() {
		var ms []string
		for f, want := range stored {
			if *f != want {
				ms = append(ms, fmt.Sprintf("a Fee object stored as %+v now reads %+v: it was modified in place", want, *f))
			}
		}
		sort.Strings(ms)
		for _, m := range ms {
			note(m)
		}
	}
	do := func(op string) {
		switch op {
		case "Quote":
			q, err := fqs.Quote("m1")
			if err != nil {
				note("Quote(m1) failed: " + err.Error())
			} else if _, ok := names[q]; !ok {
				note("Quote(m1) returned a quote nobody stored")
			}
		case "QuoteM2":
			q, err := fqs.Quote("m2")
			if err == nil && q != q2 {
				note("Quote(m2) returned a quote nobody stored")
			}
		case "Fee":
			f, err := fqs.Fee("m1", bt.FeeTypeStandard)
			if err != nil || f == nil {
				note("Fee(m1,standard) failed")
			} else {
				readFee("Fee(m1,standard)", f)
			}
		case "FeeNobody":
			if _, err := fqs.Fee("nobody", bt.FeeTypeStandard); err == nil {
				note("Fee(nobody) succeeded for a miner nobody registered")
			}
		case "QuoteNobody":
			if _, err := fqs.Quote("nobody"); err == nil {
				note("Quote(nobody) succeeded for a miner nobody registered")
			}
		case "AddMiner":
			fqs.AddMiner("m2", q2)
		case "AddDefault":
			fqs.AddMinerWithDefault("m3")
		case "Replace":
			fqs.AddMiner("m1", q2)
		case "Update":
			if _, err := fqs.UpdateMinerFees("m1", bt.FeeTypeStandard, f9); err != nil {
				note("UpdateMinerFees failed: " + err.Error())
			}
		case "UpdateM2":
			_, _ = fqs.UpdateMinerFees("m2", bt.FeeTypeData, f9)
		case "InnerAdd":
			q1.AddQuote(bt.FeeTypeStandard, f9)
		case "InnerFee":
			if f, err := q1.Fee(bt.FeeTypeStandard); err != nil || f == nil {
				note("inner Fee failed")
			} else {
				readFee("Quote(m1).Fee(standard)", f)
			}
		}
	}
	var bodies []func()
	for _, th := range sc.Threads {
		th := th
		bodies = append(bodies, func() {
			for _, o := range th {
				do(o)
			}
		})
	}
	return bodies, notes, final
}

// ---------- engine scenarios ----------

type engCase struct {
	name string
	opts func() []interpreter.ExecutionOptionFunc
	// withShared builds the option list around an option VALUE that all Execute calls of one
	// run share (an option is a value: using it in one call must not change what it means in another)
	withShared func(shared interpreter.ExecutionOptionFunc) []interpreter.ExecutionOptionFunc
	// want: the verdict the script rules give ("true"/"false"; "" = judged only against the
	// sequential run). A sequential run of the library cannot serve as the only reference: state
	// that survives an execution (a recycled interpreter thread) spoils it in the same way.
	want string
}

// engineWants: index -> verdict by the rules, for the cases whose verdict does not depend on an option order.
var engineWants = map[int]string{0: "true", 1: "false", 2: "true", 3: "false", 4: "true", 5: "true", 6: "true", 11: "false", 12: "false", 13: "true"}

// options returns the option list of the case for one Execute call.
func (c engCase) options(shared interpreter.ExecutionOptionFunc) []interpreter.ExecutionOptionFunc {
	if c.withShared != nil {
		return c.withShared(shared)
	}
	return c.opts()
}

func newSharedOption() interpreter.ExecutionOptionFunc {
	return interpreter.WithFlags(scriptflag.VerifyMinimalData)
}

var (
	engOnce  sync.Once
	engCases []engCase
)

func buildEngineCases() []engCase {
	engOnce.Do(func() {
		mkKey := func(b byte) *bec.PrivateKey {
			k, _ := bec.PrivKeyFromBytes(bec.S256(), []byte{b, 1, 2, 3, 4, 5, 6, 7, 8, 9, 10, 11, 12, 13, 14, 15, 16, 17, 18, 19, 20, 21, 22, 23, 24, 25, 26, 27, 28, 29, 30, 31})
			return k
		}
		spend := func(k *bec.PrivateKey, corrupt bool, id byte) engCase {
			lock, _ := bscript.NewP2PKHFromPubKeyBytes(k.PubKey().SerialiseCompressed())
			tx := bt.NewTx()
			txid := make([]byte, 32)
			txid[0] = id
			_ = tx.FromUTXOs(&bt.UTXO{TxID: txid, Vout: 0, Satoshis: 1000, LockingScript: lock})
			_ = tx.PayToAddress("1BgGZ9tcN4rm9KBzDn7KprQz87SZ26SAMH", 900)
			_ = tx.FillAllInputs(context.Background(), &unlocker.Getter{PrivateKey: k})
			if corrupt {
				tx.Outputs[0].Satoshis++
			}
			raw := tx.Bytes()
			return engCase{name: fmt.Sprintf("p2pkh(valid=%v)", !corrupt), opts: func() []interpreter.ExecutionOptionFunc {
				t, _ := bt.NewTxFromBytes(raw)
				return []interpreter.ExecutionOptionFunc{interpreter.WithTx(t, 0, &bt.Output{Satoshis: 1000, LockingScript: lock}), interpreter.WithForkID(), interpreter.WithAfterGenesis()}
			}}
		}
		engCases = []engCase{
			spend(mkKey(1), false, 1),
			spend(mkKey(2), true, 2),
			{name: "script-only true", opts: func() []interpreter.ExecutionOptionFunc {
				return []interpreter.ExecutionOptionFunc{interpreter.WithScripts(bscript.NewFromBytes([]byte{0x51, 0x87}), bscript.NewFromBytes([]byte{0x51})), interpreter.WithAfterGenesis()}
			}},
			{name: "script-only false", opts: func() []interpreter.ExecutionOptionFunc {
				return []interpreter.ExecutionOptionFunc{interpreter.WithScripts(bscript.NewFromBytes([]byte{0x52, 0x87}), bscript.NewFromBytes([]byte{0x51}))}
			}},
			spend(mkKey(3), false, 3),
			// conditionals after genesis (the per-execution record of which OP_IF has seen its OP_ELSE)
			{name: "if-else taken", opts: func() []interpreter.ExecutionOptionFunc {
				return []interpreter.ExecutionOptionFunc{interpreter.WithScripts(bscript.NewFromBytes([]byte{0x63, 0x51, 0x67, 0x00, 0x68}), bscript.NewFromBytes([]byte{0x51})), interpreter.WithAfterGenesis()}
			}},
			{name: "if-else else-branch, nested", opts: func() []interpreter.ExecutionOptionFunc {
				return []interpreter.ExecutionOptionFunc{interpreter.WithScripts(bscript.NewFromBytes([]byte{0x63, 0x00, 0x67, 0x51, 0x63, 0x51, 0x67, 0x00, 0x68, 0x68}), bscript.NewFromBytes([]byte{0x00})), interpreter.WithAfterGenesis()}
			}},
			// the same option value used by calls that differ in the options around it: OP_RETURN
			// with a true item ends successfully after genesis and fails before
			{name: "1 | RETURN after genesis, shared option last", withShared: func(sh interpreter.ExecutionOptionFunc) []interpreter.ExecutionOptionFunc {
				return []interpreter.ExecutionOptionFunc{interpreter.WithScripts(bscript.NewFromBytes([]byte{0x6a}), bscript.NewFromBytes([]byte{0x51})), interpreter.WithAfterGenesis(), sh}
			}},
			{name: "1 | RETURN before genesis, shared option", withShared: func(sh interpreter.ExecutionOptionFunc) []interpreter.ExecutionOptionFunc {
				return []interpreter.ExecutionOptionFunc{interpreter.WithScripts(bscript.NewFromBytes([]byte{0x6a}), bscript.NewFromBytes([]byte{0x51})), sh}
			}},
			// many opcode families in one script (numbers incl. -1, arithmetic, splice, bitwise, hash,
			// stack shuffles, alt stack), twice with different operands
			{name: "opcode medley A", opts: func() []interpreter.ExecutionOptionFunc {
				return []interpreter.ExecutionOptionFunc{interpreter.WithScripts(bscript.NewFromBytes(medley(0x05)), bscript.NewFromBytes([]byte{0x51})), interpreter.WithAfterGenesis()}
			}},
			{name: "opcode medley B", opts: func() []interpreter.ExecutionOptionFunc {
				return []interpreter.ExecutionOptionFunc{interpreter.WithScripts(bscript.NewFromBytes(medley(0x09)), bscript.NewFromBytes([]byte{0x51})), interpreter.WithAfterGenesis()}
			}},
			{name: "two OP_ELSE (rejected after genesis)", opts: func() []interpreter.ExecutionOptionFunc {
				return []interpreter.ExecutionOptionFunc{interpreter.WithScripts(bscript.NewFromBytes([]byte{0x63, 0x51, 0x67, 0x00, 0x67, 0x51, 0x68}), bscript.NewFromBytes([]byte{0x51})), interpreter.WithAfterGenesis()}
			}},
			// an execution that FAILS after a post-genesis OP_RETURN inside an unterminated conditional
			// (it ends with the early-return state set): what follows it must not inherit anything
			{name: "1 | IF RETURN after genesis (fails in early-return state)", opts: func() []interpreter.ExecutionOptionFunc {
				return []interpreter.ExecutionOptionFunc{interpreter.WithScripts(bscript.NewFromBytes([]byte{0x63, 0x6a}), bscript.NewFromBytes([]byte{0x51})), interpreter.WithAfterGenesis()}
			}},
			legacySingleSpend(mkKey(4)),
		}
	})
	return engCases
}

// legacySingleSpend: two inputs, one output; input 1 is signed with the LEGACY SIGHASH_SINGLE type
// and has no matching output (the digest is the constant one); verified without the FORKID flag.
func legacySingleSpend(k *bec.PrivateKey) engCase {
	lock, _ := bscript.NewP2PKHFromPubKeyBytes(k.PubKey().SerialiseCompressed())
	tx := bt.NewTx()
	for i := 0; i < 2; i++ {
		txid := make([]byte, 32)
		txid[0], txid[1] = 0x51, byte(i)
		_ = tx.FromUTXOs(&bt.UTXO{TxID: txid, Vout: uint32(i), Satoshis: 1000, LockingScript: lock})
	}
	_ = tx.PayToAddress("1BgGZ9tcN4rm9KBzDn7KprQz87SZ26SAMH", 900)
	_ = tx.FillInput(context.Background(), &unlocker.Simple{PrivateKey: k}, bt.UnlockerParams{InputIdx: 0, SigHashFlags: sighash.All})
	_ = tx.FillInput(context.Background(), &unlocker.Simple{PrivateKey: k}, bt.UnlockerParams{InputIdx: 1, SigHashFlags: sighash.Single})
	raw := tx.Bytes()
	return engCase{name: "legacy SINGLE without a matching output", opts: func() []interpreter.ExecutionOptionFunc {
		t, _ := bt.NewTxFromBytes(raw)
		return []interpreter.ExecutionOptionFunc{interpreter.WithTx(t, 1, &bt.Output{Satoshis: 1000, LockingScript: lock}), interpreter.WithAfterGenesis()}
	}}
}

// medley is a script that ends with a true item and runs through many opcode families on the way.
func medley(k byte) []byte {
	return []byte{
		0x4f, 0x8f, 0x75, // 1NEGATE NEGATE DROP
		0x4f, 0x52, 0x80, 0x75, // -1 2 NUM2BIN DROP
		0x01, k, 0x52, 0x95, 0x53, 0x96, 0x54, 0x97, 0x75, // k 2 MUL 3 DIV 4 MOD DROP
		0x01, k, 0x8b, 0x8c, 0x90, 0x91, 0x92, 0x75, // 1ADD 1SUB ABS NOT 0NOTEQUAL DROP
		0x02, k, 0x7f, 0x02, 0x01, k, 0x7e, 0x51, 0x7f, 0x7e, 0x82, 0x75, 0x75, // pushes CAT 1 SPLIT CAT SIZE DROP DROP
		0x01, k, 0x01, 0x0f, 0x84, 0x01, 0x33, 0x85, 0x01, 0x55, 0x86, 0x83, 0x75, // AND OR XOR INVERT DROP
		0x01, k, 0x51, 0x98, 0x51, 0x99, 0x75, // 1 LSHIFT 1 RSHIFT DROP
		0x01, k, 0xa6, 0xa7, 0xa8, 0xa9, 0xaa, 0x75, // RIPEMD160 SHA1 SHA256 HASH160 HASH256 DROP
		0x51, 0x52, 0x53, 0x7b, 0x7c, 0x7d, 0x6e, 0x6f, 0x70, 0x71, 0x72, 0x6d, 0x6d, 0x6d, 0x6d, 0x6d, 0x6d, 0x75, // ROT SWAP TUCK 2DUP 3DUP 2OVER 2ROT 2SWAP 2DROP x6 DROP
		0x01, k, 0x6b, 0x6c, 0x76, 0x87, 0x69, // TOALT FROMALT DUP EQUAL VERIFY
		0x01, k, 0x01, k, 0x9c, 0x69, 0x01, k, 0x52, 0xa0, 0x69, 0x01, k, 0x00, 0x01, 0x7f, 0xa5, 0x69, // NUMEQUAL VERIFY; k>2 VERIFY; WITHIN VERIFY
		0x74, 0x00, 0x9c, // DEPTH 0 NUMEQUAL  -> true iff the stack is empty
	}
}

func runEngine(sc scenario, prefix []int) execution {
	cases := buildEngineCases()
	eng := interpreter.NewEngine()
	shared := newSharedOption()
	verd := make([]string, len(sc.Threads))
	var bodies []func()
	for ti, th := range sc.Threads {
		ti, th := ti, th
		bodies = append(bodies, func() {
			var vs []string
			for _, o := range th {
				var idx int
				fmt.Sscanf(o, "exec%d", &idx)
				err := eng.Execute(cases[idx].options(shared)...)
				vs = append(vs, fmt.Sprint(err == nil))
			}
			verd[ti] = strings.Join(vs, ",")
		})
	}
	res := vsync.Run(prefix, bodies)
	return execution{res: res, verd: verd}
}

func engineSequential(sc scenario) []string {
	cases := buildEngineCases()
	out := make([]string, len(sc.Threads))
	for ti, th := range sc.Threads {
		var vs []string
		for _, o := range th {
			var idx int
			fmt.Sscanf(o, "exec%d", &idx)
			err := interpreter.NewEngine().Execute(cases[idx].options(newSharedOption())...)
			vs = append(vs, fmt.Sprint(err == nil))
		}
		out[ti] = strings.Join(vs, ",")
	}
	return out
}

// ---------- exploration ----------

type stats struct {
	schedules, points, states int
	outcomes                  map[string]int
	completedBound            string
	capped                    bool
}

// scheduleCap bounds one (scenario, preemption bound) exploration. On the unchanged tree the largest
// scenario needs a few thousand schedules; a changed tree that puts locks (a sync.Pool) on the hot
// path of Execute makes the unbounded space explode, and the run must still end.
const scheduleCap = 60000

type violation struct {
	Scenario scenario `json:"scenario"`
	Prefix   []int    `json:"schedule"`
	Kind     string   `json:"kind"`
	What     string   `json:"what"`
}

func choicesOf(r *vsync.Result) []int {
	c := make([]int, len(r.Points))
	for i, p := range r.Points {
		c[i] = p.Chosen
	}
	return c
}

// check evaluates the oracles on one execution; returns findings (key, what).
func check(sc scenario, prefix []int) (fs []rep.Finding, r *vsync.Result, outcome string) {
	switch sc.Kind {
	case "feequote":
		ex := runFeeQuote(sc, prefix)
		r = ex.res
		ops := fqOps()
		byName := map[string]string{}
		for k, o := range ops {
			byName[o.name] = k
		}
		if !r.Deadlock && len(r.Panics) == 0 {
			if ok, hist := linearizable(ex.evs, ops, func(e *event) string { return byName[e.name] }); !ok {
				fs = append(fs, rep.F("feequote|not-linearizable|"+opsKey(sc), "no sequential order of the operations explains the observed results: "+hist))
			}
		}
		var outs []string
		for _, e := range ex.evs {
			outs = append(outs, e.name+"="+e.result)
		}
		sort.Strings(outs)
		outcome = strings.Join(outs, ";")
	case "feequotes":
		ex, notes := runFeeQuotes(sc, prefix)
		r = ex.res
		for _, n := range notes {
			fs = append(fs, rep.F("feequotes|bad-read|"+opsKey(sc), n))
		}
		outcome = fmt.Sprint(len(notes))
	case "engine":
		ex := runEngine(sc, prefix)
		r = ex.res
		want := engineSequential(sc)
		if fmt.Sprint(ex.verd) != fmt.Sprint(want) && !r.Deadlock {
			fs = append(fs, rep.F("engine|verdicts-differ-from-sequential", fmt.Sprintf("concurrent verdicts %v, sequential %v", ex.verd, want)))
		}
		if !r.Deadlock && len(r.Panics) == 0 {
			for ti, th := range sc.Threads {
				got := strings.Split(ex.verd[ti], ",")
				for oi, o := range th {
					var idx int
					fmt.Sscanf(o, "exec%d", &idx)
					if w := engineWants[idx]; w != "" && oi < len(got) && got[oi] != w {
						fs = append(fs, rep.F("engine|verdict-differs-from-the-rules|"+o, fmt.Sprintf("thread %d, call %d (%s): verdict %s, the script rules give %s", ti+1, oi+1, buildEngineCases()[idx].name, got[oi], w)))
					}
				}
			}
		}
		outcome = fmt.Sprint(ex.verd)
	}
	for _, rc := range r.Races {
		site := rc.WhereA + " / " + rc.WhereB
		fs = append(fs, rep.F(fmt.Sprintf("%s|data-race|%s|%s", sc.Kind, rc.Field, raceSites(rc)), fmt.Sprintf("unordered conflicting accesses to %s.%s: %s vs %s (%s)", rc.Object, rc.Field, rc.A, rc.B, site)))
	}
	if r.Deadlock {
		fs = append(fs, rep.F(sc.Kind+"|deadlock|"+opsKey(sc), "no thread can run: "+strings.Join(r.Blocked, "; ")))
	}
	for _, p := range r.Panics {
		fs = append(fs, rep.F(sc.Kind+"|panic", p))
	}
	if r.Diverged {
		fs = append(fs, rep.F("harness|schedule-diverged", "a recorded choice was out of range during replay"))
	}
	return
}

func raceSites(rc vsync.Race) string {
	fn := func(w string) string {
		if i := strings.LastIndex(w, " "); i >= 0 {
			return w[i+1:]
		}
		return w
	}
	a, b := fn(rc.WhereA), fn(rc.WhereB)
	if a > b {
		a, b = b, a
	}
	return a + "+" + b
}

func opsKey(sc scenario) string {
	var all []string
	for _, th := range sc.Threads {
		all = append(all, th...)
	}
	sort.Strings(all)
	return strings.Join(all, ",")
}

func explore(sc scenario, bound int, st *stats, onFinding func(v violation, f rep.Finding)) {
	var rec func(prefix []int)
	rec = func(prefix []int) {
		if st.schedules >= scheduleCap {
			st.capped = true
			return
		}
		fs, r, outcome := check(sc, prefix)
		st.schedules++
		st.points += len(r.Points)
		st.outcomes[outcome]++
		if len(fs) > 0 {
			// determinism guard: the same schedule must fail the same way again
			fs2, _, _ := check(sc, choicesOf(r))
			if onlyRacesLost(fs, fs2) {
				// unordered conflicting accesses were OBSERVED (the vector-clock verdict does not depend on
				// timing); that the same schedule does not show them again means the library keeps state
				// between executions (a process-wide cache that is warm now). The race is real: report it.
				for _, f := range fs {
					f.What += " [seen on the first execution of this schedule only: the library keeps process-wide state between executions; reproduces in a fresh process]"
					onFinding(violation{Scenario: sc, Prefix: choicesOf(r), Kind: f.Key, What: f.What}, f)
				}
			} else if fmt.Sprint(keys(fs)) != fmt.Sprint(keys(fs2)) {
				onFinding(violation{Scenario: sc, Prefix: choicesOf(r), Kind: "harness"}, rep.F("harness|nondeterministic", fmt.Sprintf("%v vs %v", keys(fs), keys(fs2))))
			} else {
				for _, f := range fs {
					onFinding(violation{Scenario: sc, Prefix: choicesOf(r), Kind: f.Key, What: f.What}, f)
				}
			}
		}
		ch := choicesOf(r)
		pre := 0
		for i := 0; i < len(r.Points); i++ {
			p := r.Points[i]
			if i >= len(prefix) {
				for alt := 1; alt < len(p.Enabled); alt++ {
					cost := pre
					if p.Running != 0 && len(p.Enabled) > 0 && p.Enabled[0] == p.Running {
						cost++ // switching away from a runnable thread
					}
					if bound >= 0 && cost > bound {
						continue
					}
					rec(append(append([]int{}, ch[:i]...), alt))
				}
			}
			if p.Chosen > 0 && p.Running != 0 && p.Enabled[0] == p.Running {
				pre++
			}
		}
	}
	rec(nil)
}

// onlyRacesLost: every finding of the first execution that the second one lacks is a data race
// (and the second one has nothing new).
func onlyRacesLost(a, b []rep.Finding) bool {
	in := func(k string, fs []rep.Finding) bool {
		for _, f := range fs {
			if f.Key == k {
				return true
			}
		}
		return false
	}
	lost := 0
	for _, f := range a {
		if !in(f.Key, b) {
			if !strings.Contains(f.Key, "|data-race|") {
				return false
			}
			lost++
		}
	}
	for _, f := range b {
		if !in(f.Key, a) {
			return false
		}
	}
	return lost > 0
}

func keys(fs []rep.Finding) []string {
	k := make([]string, len(fs))
	for i, f := range fs {
		k[i] = f.Key
	}
	sort.Strings(k)
	return k
}

func scenarios(thorough bool) []scenario {
	var out []scenario
	fq := []string{"FeeStd", "FeeData", "AddStd", "AddStd2", "AddData", "Expiry", "UpdExp", "UpdExpPast", "Expired", "Marshal", "Unmarshal", "TxFee", "FeeUnknown"}
	// every unordered pair on two threads
	for i := 0; i < len(fq); i++ {
		for j := i; j < len(fq); j++ {
			out = append(out, scenario{Name: "pair", Kind: "feequote", Threads: [][]string{{fq[i]}, {fq[j]}}})
		}
	}
	// writer vs reader-reader (writer preference) and 2x2 combinations
	core := []string{"FeeStd", "AddStd", "AddStd2", "Expiry", "UpdExp", "Expired"}
	for _, a := range core {
		for _, b := range core {
			for _, c := range core {
				if thorough || (a <= b && b <= c) {
					out = append(out, scenario{Name: "triple", Kind: "feequote", Threads: [][]string{{a}, {b}, {c}}})
				}
			}
		}
	}
	two := [][]string{{"AddStd", "FeeStd"}, {"FeeStd", "AddStd2"}, {"UpdExp", "Expired"}, {"Expiry", "UpdExpPast"}, {"AddStd", "AddStd2"}, {"FeeStd", "FeeStd"}, {"Expired", "Expiry"}}
	for i, a := range two {
		for j, b := range two {
			if thorough || i <= j {
				out = append(out, scenario{Name: "2x2", Kind: "feequote", Threads: [][]string{a, b}})
			}
		}
	}
	fqs := []string{"Quote", "QuoteM2", "Fee", "AddMiner", "AddDefault", "Replace", "Update", "UpdateM2", "InnerAdd", "InnerFee", "FeeNobody", "QuoteNobody"}
	for i := 0; i < len(fqs); i++ {
		for j := i; j < len(fqs); j++ {
			out = append(out, scenario{Name: "pair", Kind: "feequotes", Threads: [][]string{{fqs[i]}, {fqs[j]}}})
			if thorough {
				for k := j; k < len(fqs); k++ {
					out = append(out, scenario{Name: "triple", Kind: "feequotes", Threads: [][]string{{fqs[i]}, {fqs[j]}, {fqs[k]}}})
				}
			}
		}
	}
	// a failed lookup followed by a write on the same thread (an error path that keeps a lock shows as a deadlock)
	for _, w := range []string{"AddMiner", "AddDefault", "Update", "Replace"} {
		for _, l := range []string{"FeeNobody", "QuoteNobody"} {
			out = append(out, scenario{Name: "lookup-then-write", Kind: "feequotes", Threads: [][]string{{l, w}, {"Fee"}}})
		}
	}
	for _, w := range []string{"AddStd", "UpdExp", "Expired", "Unmarshal", "AddData"} {
		out = append(out, scenario{Name: "failed-lookup-then-write", Kind: "feequote", Threads: [][]string{{"FeeUnknown", w}, {"FeeStd"}}},
			scenario{Name: "failed-lookup-then-write", Kind: "feequote", Threads: [][]string{{"FeeUnknown"}, {w, "FeeStd"}}})
	}
	out = append(out,
		scenario{Name: "engine-2", Kind: "engine", Threads: [][]string{{"exec0"}, {"exec1"}}},
		scenario{Name: "engine-2b", Kind: "engine", Threads: [][]string{{"exec0"}, {"exec2"}}},
		scenario{Name: "engine-3", Kind: "engine", Threads: [][]string{{"exec0"}, {"exec2"}, {"exec3"}}},
		scenario{Name: "engine-2x2", Kind: "engine", Threads: [][]string{{"exec0", "exec3"}, {"exec2", "exec4"}}},
		scenario{Name: "engine-3b", Kind: "engine", Threads: [][]string{{"exec4"}, {"exec1"}, {"exec0"}}},
		scenario{Name: "engine-cond-2", Kind: "engine", Threads: [][]string{{"exec5"}, {"exec6"}}},
		scenario{Name: "engine-cond-2x2", Kind: "engine", Threads: [][]string{{"exec5", "exec11"}, {"exec6", "exec5"}}},
		scenario{Name: "engine-cond-3", Kind: "engine", Threads: [][]string{{"exec6"}, {"exec11"}, {"exec0"}}},
		scenario{Name: "engine-medley-2", Kind: "engine", Threads: [][]string{{"exec9"}, {"exec10"}}},
		scenario{Name: "engine-medley-same", Kind: "engine", Threads: [][]string{{"exec9"}, {"exec9"}}},
		scenario{Name: "engine-medley-3", Kind: "engine", Threads: [][]string{{"exec10"}, {"exec0"}, {"exec9"}}},
		scenario{Name: "engine-shared-option-2", Kind: "engine", Threads: [][]string{{"exec7"}, {"exec8"}}},
		scenario{Name: "engine-shared-option-2x2", Kind: "engine", Threads: [][]string{{"exec7", "exec8"}, {"exec8", "exec7"}}},
		scenario{Name: "engine-shared-option-3", Kind: "engine", Threads: [][]string{{"exec8"}, {"exec7"}, {"exec8"}}},
		// after an execution that failed in the early-return state (nothing may survive it)
		scenario{Name: "engine-after-failed-early-return-2x2", Kind: "engine", Threads: [][]string{{"exec12", "exec5"}, {"exec12", "exec6"}}},
		scenario{Name: "engine-after-failed-early-return-3", Kind: "engine", Threads: [][]string{{"exec12", "exec2"}, {"exec5"}, {"exec6", "exec12"}}},
		// the constant digest of legacy SIGHASH_SINGLE without a matching output, next to other hashing
		scenario{Name: "engine-legacy-single-2", Kind: "engine", Threads: [][]string{{"exec13"}, {"exec0"}}},
		scenario{Name: "engine-legacy-single-same", Kind: "engine", Threads: [][]string{{"exec13"}, {"exec13"}}},
		scenario{Name: "engine-legacy-single-3", Kind: "engine", Threads: [][]string{{"exec13"}, {"exec4"}, {"exec13"}}},
	)
	return out
}

func main() {
	if len(os.Args) < 2 {
		fmt.Println("usage: vsched explore <tier> | replay <file> | free <iterations>")
		os.Exit(2)
	}
	switch os.Args[1] {
	case "watch":
		watchMain(os.Args[2:])
		return
	case "watch-replay":
		watchReplay(os.Args[2])
		return
	case "conc":
		concMain(os.Args[2:])
		return
	case "conc-replay":
		concReplay(os.Args[2])
		return
	case "replay":
		b, err := os.ReadFile(os.Args[2])
		if err != nil {
			fmt.Println(err)
			os.Exit(2)
		}
		var doc struct {
			Input violation `json:"input"`
		}
		_ = json.Unmarshal(b, &doc)
		fs, r, outcome := check(doc.Input.Scenario, doc.Input.Prefix)
		fmt.Printf("replay scenario=%v schedule=%v outcome=%s\n", doc.Input.Scenario, doc.Input.Prefix, outcome)
		for _, p := range r.Points {
			fmt.Printf("  point: enabled=%v chosen=%d %s\n", p.Enabled, p.Chosen, p.Desc)
		}
		for _, f := range fs {
			fmt.Printf("replay: FINDING key=%s what=%s\n", f.Key, f.What)
		}
		if len(fs) > 0 {
			os.Exit(1)
		}
		fmt.Println("replay: no finding on this schedule")
		return
	case "free":
		freeRun()
		return
	}
	tier := "quick"
	if len(os.Args) > 2 {
		tier = os.Args[2]
	}
	thorough := tier == "thorough"
	r := rep.Start("C18", tier, "model_checking")
	scs := scenarios(thorough)
	totalSched, totalPoints := 0, 0
	outcomes := map[string]struct{}{}
	singleOutcome := 0
	cappedScenarios := 0
	for _, sc := range scs {
		// iterate the preemption bound 0,1,2 and then unbounded; the last one subsumes the others,
		// the smaller bounds yield the simplest counterexample first
		found := false
		for _, bound := range []int{0, 1, 2, -1} {
			st := &stats{outcomes: map[string]int{}}
			explore(sc, bound, st, func(v violation, f rep.Finding) {
				found = true
				if strings.HasPrefix(f.Key, "harness|") {
					r.HarnessError(f.Key + ": " + f.What)
					return
				}
				r.Report("schedule", v, f)
			})
			if st.capped {
				cappedScenarios++
			}
			if bound == -1 {
				totalSched += st.schedules
				totalPoints += st.points
				for o := range st.outcomes {
					outcomes[sc.Kind+fmt.Sprint(sc.Threads)+o] = struct{}{}
					r.Distinct(sc.Kind, fmt.Sprint(sc.Threads), o)
				}
				if len(st.outcomes) == 1 && sc.Kind == "feequote" {
					singleOutcome++
				}
			}
			if found {
				break
			}
		}
		r.Eval(1)
	}
	r.Note("scenarios", len(scs))
	r.Note("states", len(outcomes))
	r.Note("transitions", totalPoints)
	r.Note("traces_validated_against_impl", totalSched)
	r.Note("schedules_explored_unbounded", totalSched)
	if cappedScenarios == 0 {
		r.Note("preemption_bounds_completed", "0,1,2,unbounded (every scenario explored to completion)")
	} else {
		r.Note("preemption_bounds_completed", fmt.Sprintf("0,1,2 and unbounded up to %d schedules per scenario and bound; %d explorations stopped at that cap", scheduleCap, cappedScenarios))
		r.Incomplete(fmt.Sprintf("%d scenario explorations stopped at the cap of %d schedules", cappedScenarios, scheduleCap))
	}
	r.Note("feequote_scenarios_with_a_single_outcome", singleOutcome)
	r.Sample("schedule", map[string]any{"scenario": scs[13], "schedule": []int{0, 1, 0}})
	r.Sample("schedule", map[string]any{"scenario": scs[len(scs)-2], "note": "engine: Execute has no lock operations; interleavings reduce to start orders, shared-state writes are caught by the happens-before monitor"})
	os.Exit(r.Finish("stateless schedule exploration of the real fees.go / interpreter code (instrumented from the working tree at check time) under a cooperative scheduler: scheduling points before every Lock/RLock (a write lock first announces itself, modelling writer preference), at thread start and end; DFS over choice prefixes with iterative preemption bound 0,1,2 and then unbounded, every scenario explored to completion. Scenarios: every unordered pair of the 13 FeeQuote operations (incl. the lookup of a fee type the quote does not carry, and a transaction's fee being computed from the shared quote by the library) on 2 threads, triples of the 6 core operations on 3 threads, 2x2 combinations, every pair (thorough: triple) of 12 FeeQuotes operations incl. operations on the quote it hands out and lookups of an unregistered miner, failed lookups (of a miner, of a fee type) followed by writes, and 2-3 threads calling Execute on one engine with distinct transactions (P2PKH spends, script-only runs, post-genesis conditionals, scripts running through most opcode families, calls that share one option value, executions that follow one that failed in the post-genesis early-return state, a legacy SIGHASH_SINGLE spend without matching output next to other hashing). Oracles on every schedule: vector-clock happens-before race detection over EVERY access the type-checked instrumentation finds in packages bt, bscript and bscript/interpreter (struct fields reached through a pointer, package-level variables, locals aliasing a map/slice field) plus the harness's own reads of the *Fee values it is handed, deadlock, panics, linearizability against a plain-map sequential model (brute force over orders consistent with real time), every read returns a stored Fee/quote object reading as it was stored and no stored Fee object is modified in place, concurrent verdicts = sequential verdicts = the verdicts the script rules give (stated per case, because state that survives an execution spoils a sequential run of the library just as well); recorded schedules replay deterministically (each finding is re-executed before it is reported)"))
}

// freeRun executes the scenario bodies without the scheduler (real mutexes, real
// goroutines); meant to be built with -race.
func freeRun() {
	iters := 200
	if len(os.Args) > 2 {
		fmt.Sscanf(os.Args[2], "%d", &iters)
	}
	ops := fqOps()
	n := 0
	for _, sc := range scenarios(false) {
		for it := 0; it < iters; it++ {
			var wg sync.WaitGroup
			switch sc.Kind {
			case "feequote":
				w := newWorld()
				for ti, th := range sc.Threads {
					wg.Add(1)
					go func(ti int, th []string) {
						defer wg.Done()
						for i, o := range th {
							w.record(ti, i, ops[o])
						}
					}(ti, th)
				}
			case "engine":
				cases := buildEngineCases()
				eng := interpreter.NewEngine()
				shared := newSharedOption()
				for _, th := range sc.Threads {
					wg.Add(1)
					go func(th []string) {
						defer wg.Done()
						for _, o := range th {
							var idx int
							fmt.Sscanf(o, "exec%d", &idx)
							_ = eng.Execute(cases[idx].options(shared)...)
						}
					}(th)
				}
			case "feequotes":
				bodies := feeQuotesBodies(sc)
				for _, b := range bodies {
					wg.Add(1)
					go func(b func()) {
						defer wg.Done()
						b()
					}(b)
				}
			default:
				continue
			}
			wg.Wait()
			n++
		}
	}
	fmt.Println("free-running executions:", n)
}
