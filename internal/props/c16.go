package props

import (
	"bytes"
	"encoding/json"
	"fmt"

	"github.com/libsv/go-bt/v2"
	"github.com/libsv/go-bt/v2/bscript"

	"verif/internal/rep"
)

type c16Amt struct {
	Sats uint64 `json:"sats"`
}

func c16AmtCheck(c c16Amt) (fs []rep.Finding) {
	script := bscript.NewFromBytes(refP2PKH(fill(20, 9)))
	if c.Sats%997 == 0 {
		// objects decoded with an EMPTY script own that script: it is built up in place by its owner,
		// and the next object decoded from the same document still has an empty one
		e := &bt.Output{Satoshis: c.Sats, LockingScript: &bscript.Script{}}
		eu := &bt.UTXO{TxID: txid32(4), Vout: 1, Satoshis: c.Sats, LockingScript: &bscript.Script{}}
		d1, _ := json.Marshal(e)
		d2, _ := json.Marshal(e.NodeJSON())
		d3, _ := json.Marshal(eu)
		d4, _ := json.Marshal(eu.NodeJSON())
		grow := func(s *bscript.Script) {
			if s != nil {
				_ = s.AppendOpcodes(bscript.OpFALSE, bscript.OpRETURN)
				_ = s.AppendPushData([]byte("hello"))
			}
		}
		for round := 0; round < 2; round++ {
			var o1, o2 bt.Output
			var u1, u2 bt.UTXO
			errs := []error{json.Unmarshal(d1, &o1), json.Unmarshal(d2, o2.NodeJSON()), json.Unmarshal(d3, &u1), json.Unmarshal(d4, u2.NodeJSON())}
			for i, sc := range []*bscript.Script{o1.LockingScript, o2.LockingScript, u1.LockingScript, u2.LockingScript} {
				if errs[i] == nil && len(scriptBytes(sc)) != 0 {
					fs = append(fs, rep.F("empty-script|shared-between-decoded-objects|"+[]string{"Output.json", "Output.node", "UTXO.json", "UTXO.node"}[i], fmt.Sprintf("an object decoded from a document with an empty script carries %x after another decoded object's script was built up in place", scriptBytes(sc))))
				}
				grow(sc)
			}
		}
	}
	// Output, library dialect
	o := &bt.Output{Satoshis: c.Sats, LockingScript: script}
	if b, err := json.Marshal(o); err != nil {
		fs = append(fs, rep.F("Output.json|marshal", err.Error()))
	} else {
		var back bt.Output
		if err := json.Unmarshal(b, &back); err != nil || back.Satoshis != c.Sats || !bytes.Equal(scriptBytes(back.LockingScript), *script) {
			fs = append(fs, rep.F("Output.json|amount-or-script-lost", fmt.Sprintf("err=%v got %d", err, back.Satoshis)))
		}
	}
	// Output, node dialect
	if b, err := json.Marshal(o.NodeJSON()); err != nil {
		fs = append(fs, rep.F("Output.node|marshal", err.Error()))
	} else {
		var back bt.Output
		if err := json.Unmarshal(b, back.NodeJSON()); err != nil || back.Satoshis != c.Sats || !bytes.Equal(scriptBytes(back.LockingScript), *script) {
			fs = append(fs, rep.F("Output.node|amount-lost", fmt.Sprintf("err=%v %d satoshis came back as %d", err, c.Sats, back.Satoshis)))
		}
	}
	// UTXO both dialects
	u := &bt.UTXO{TxID: txid32(4), Vout: 3, Satoshis: c.Sats, LockingScript: script}
	if b, err := json.Marshal(u); err != nil {
		fs = append(fs, rep.F("UTXO.json|marshal", err.Error()))
	} else {
		var back bt.UTXO
		if err := json.Unmarshal(b, &back); err != nil || back.Satoshis != c.Sats || back.Vout != 3 || !bytes.Equal(back.TxID, u.TxID) || !bytes.Equal(scriptBytes(back.LockingScript), *script) {
			fs = append(fs, rep.F("UTXO.json|field-lost", fmt.Sprintf("err=%v got %d", err, back.Satoshis)))
		}
	}
	// decoding into a target that already holds another UTXO must not disturb objects decoded earlier
	{
		u2 := &bt.UTXO{TxID: txid32(8), Vout: 9, Satoshis: c.Sats + 1, LockingScript: bscript.NewFromBytes([]byte{0x51})}
		b1, e1 := json.Marshal(u.NodeJSON())
		b2, e2 := json.Marshal(u2.NodeJSON())
		if e1 == nil && e2 == nil {
			var target bt.UTXO
			if json.Unmarshal(b1, target.NodeJSON()) == nil {
				first := target // struct copy keeps the slices it was given
				if json.Unmarshal(b2, target.NodeJSON()) == nil {
					if !bytes.Equal(first.TxID, u.TxID) || !bytes.Equal(scriptBytes(first.LockingScript), *script) {
						fs = append(fs, rep.F("UTXO.node|decode-reuses-buffers", "decoding a second UTXO into the same target changed the first one's txid/script bytes"))
					}
					if !bytes.Equal(target.TxID, u2.TxID) || target.Vout != 9 || target.Satoshis != c.Sats+1 {
						fs = append(fs, rep.F("UTXO.node|second-decode-wrong", "second decode into a used target is wrong"))
					}
				}
			}
		}
	}
	if b, err := json.Marshal(u.NodeJSON()); err != nil {
		fs = append(fs, rep.F("UTXO.node|marshal", err.Error()))
	} else {
		var back bt.UTXO
		if err := json.Unmarshal(b, back.NodeJSON()); err != nil || back.Satoshis != c.Sats || back.Vout != 3 || !bytes.Equal(back.TxID, u.TxID) || !bytes.Equal(scriptBytes(back.LockingScript), *script) {
			fs = append(fs, rep.F("UTXO.node|amount-lost", fmt.Sprintf("err=%v %d satoshis came back as %d", err, c.Sats, back.Satoshis)))
		}
	}
	return
}

type c16Tx struct {
	R      txRecipe `json:"tx"`
	Signed int      `json:"signed"` // 0 none (nil unlocking scripts), 1 first input only, 2 all, 3 empty non-nil scripts, 4 none and no record of the spent outputs, 5 first only, the others empty and without record
	Script int      `json:"out_script_kind"`
	Amt    uint64   `json:"amt"`
}

var c16ScriptKinds = 14 + len(c16ExtraScripts())

func c16OutScript(kind int) []byte {
	switch kind {
	case 0:
		return refP2PKH(fill(20, 1))
	case 1:
		return []byte{}
	case 2:
		return []byte{0x6a, 0x02, 0x01, 0x02}
	case 3:
		return []byte{0x4c} // undecodable
	case 4:
		return c14Templates()["ms2of3"]
	case 5:
		return c14Templates()["inscription"]
	case 6:
		return []byte{0x00, 0x6a, 0x4c, 0x00, 0xff}
	case 7:
		return fill(300, 0x99)
	case 8, 9, 10, 11, 12:
		// data scripts whose first push has 1..5 bytes and is followed by more script
		n := kind - 7
		sc := []byte{0x00, 0x6a, byte(n)}
		sc = append(sc, fill(n, 0x61)...)
		return append(sc, 0x0b, 0x68, 0x65, 0x6c, 0x6c, 0x6f, 0x20, 0x77, 0x6f, 0x72, 0x6c, 0x64)
	case 13:
		return []byte{0x6a, 0x03, 0x61, 0x62, 0x63, 0x51}
	}
	if ex := c16ExtraScripts(); kind-14 < len(ex) {
		return ex[kind-14]
	}
	return fill(300, 0x99)
}

var c16Extra [][]byte

// c16ExtraScripts: scripts that end inside a push (every partial length field and short
// payloads), and the inscription template with each of its tokens replaced by an empty push.
func c16ExtraScripts() [][]byte {
	if c16Extra != nil {
		return c16Extra
	}
	out := [][]byte{{0x4d}, {0x4d, 0x01}, {0x4e}, {0x4e, 0x01}, {0x4e, 0x01, 0x02}, {0x4e, 0x01, 0x02, 0x03}, {0x6a, 0x4e, 0x01, 0x02, 0x03},
		{0x05, 0x01}, {0x4c, 0x05, 0x01}, {0x4d, 0x05, 0x00, 0x01}, {0x4e, 0x05, 0x00, 0x00, 0x00, 0x01}, {0x00, 0x6a, 0x4d, 0x01}}
	// multisig-shaped scripts whose counts do not match the keys present
	k33 := append([]byte{0x21, 0x02}, bytes.Repeat([]byte{0x11}, 32)...)
	out = append(out, []byte{0x00, 0x00, 0xae}, []byte{0x51, 0x60, 0xae}, []byte{0x51, 0x51, 0xae}, bytesJoin([]byte{0x51}, k33, []byte{0x55, 0xae}),
		bytesJoin([]byte{0x52}, k33, []byte{0x51, 0xae}), bytesJoin([]byte{0x60}, k33, k33, []byte{0x60, 0xae}), bytesJoin([]byte{0x00}, k33, []byte{0x51, 0xae}))
	t := c14Templates()["inscription"]
	toks, _ := refTokenize(t)
	for _, tk := range toks {
		for _, rp := range [][]byte{{0x4c, 0x00}, {0x4e, 0, 0, 0, 0}} {
			out = append(out, bytesJoin(t[:tk.Off], rp, t[tk.End:]))
		}
	}
	c16Extra = out
	return out
}

func c16Build(c c16Tx) *bt.Tx {
	ref := c.R.build()
	for i := range ref.Outs {
		ref.Outs[i].Script = c16OutScript((c.Script + i) % c16ScriptKinds)
		ref.Outs[i].Sats = c.Amt + uint64(i)
	}
	tx := toLib(ref)
	for i, in := range tx.Inputs {
		switch {
		case c.Signed == 0, c.Signed == 1 && i > 0:
			in.UnlockingScript = nil
		case c.Signed == 3:
			in.UnlockingScript = &bscript.Script{}
		case c.Signed == 4, c.Signed == 5 && i > 0:
			// still to be signed AND without a record of the output it spends (a transaction that came
			// from raw bytes or from a node document)
			in.UnlockingScript = nil
			if c.Signed == 5 {
				in.UnlockingScript = &bscript.Script{}
			}
			in.PreviousTxScript, in.PreviousTxSatoshis = nil, 0
		default:
			in.UnlockingScript = bscript.NewFromBytes(append([]byte{0x47}, fill(0x47, byte(i))...))
		}
	}
	return tx
}

func sameTx(a, b *bt.Tx) string {
	if a == nil || b == nil {
		return "nil transaction"
	}
	if !bytes.Equal(a.Bytes(), b.Bytes()) {
		return fmt.Sprintf("serialisation differs: %x vs %x", a.Bytes(), b.Bytes())
	}
	if a.TxID() != b.TxID() {
		return "txid differs"
	}
	return ""
}

func c16TxCheck(c c16Tx) (fs []rep.Finding) {
	tx := c16Build(c)
	pristine := c16Build(c) // an independent copy: marshalling must not change the object being marshalled
	// another transaction with one input and one output fewer, fully signed (always marshallable)
	sr := c.R
	if sr.NIn > 1 {
		sr.NIn--
	}
	if sr.NOut > 0 {
		sr.NOut--
	}
	smaller := c16Build(c16Tx{R: sr, Signed: 2, Script: 0, Amt: c.Amt + 3})
	// and one of the same shape that spends other outpoints
	or := c.R
	or.Vout, or.Seq, or.LT = or.Vout+5, or.Seq-9, or.LT^0x55
	other := c16Build(c16Tx{R: or, Signed: 2, Script: 0, Amt: c.Amt + 7})
	defer func() {
		if !bytes.Equal(tx.Bytes(), pristine.Bytes()) {
			fs = append(fs, rep.F("marshal-mutates-transaction", fmt.Sprintf("the transaction changed while being marshalled: %x -> %x", pristine.Bytes(), tx.Bytes())))
		}
	}()
	q := func(name string, fn func()) {
		if f := rep.Guard(fn); f != nil {
			f.Key = "panic|" + name + "|" + f.Key[len("panic|"):]
			fs = append(fs, *f)
		}
	}
	q("Tx.json", func() {
		b, err := json.Marshal(tx)
		if err != nil {
			return // an error is allowed
		}
		var back bt.Tx
		if err := json.Unmarshal(b, &back); err != nil {
			fs = append(fs, rep.F("Tx.json|unmarshal-own", err.Error()))
		} else if d := sameTx(pristine, &back); d != "" {
			fs = append(fs, rep.F("Tx.json|roundtrip", d))
		} else {
			// the same variable decodes other transactions: same shape, then a smaller one
			for _, nx := range []*bt.Tx{other, smaller} {
				b2, err := json.Marshal(nx)
				if err != nil {
					continue
				}
				if err := json.Unmarshal(b2, &back); err != nil {
					fs = append(fs, rep.F("Tx.json|decode-into-used-tx", err.Error()))
				} else if d := sameTx(nx, &back); d != "" {
					fs = append(fs, rep.F("Tx.json|decode-into-used-tx", d))
				}
			}
			// and a list variable that already holds transactions
			lst := []*bt.Tx{pristine.Clone(), pristine.Clone()}
			if b3, err := json.Marshal([]*bt.Tx{other, smaller}); err == nil {
				if err := json.Unmarshal(b3, &lst); err != nil || len(lst) != 2 {
					fs = append(fs, rep.F("[]Tx.json|decode-into-used-list", fmt.Sprint(err, len(lst))))
				} else if d := sameTx(other, lst[0]) + sameTx(smaller, lst[1]); d != "" {
					fs = append(fs, rep.F("[]Tx.json|decode-into-used-list", d))
				}
			}
		}
	})
	q("Tx.node", func() {
		b, err := json.Marshal(tx.NodeJSON())
		if err != nil {
			return
		}
		back := bt.NewTx()
		if err := json.Unmarshal(b, back.NodeJSON()); err != nil {
			fs = append(fs, rep.F("Tx.node|unmarshal-own", err.Error()))
		} else if d := sameTx(pristine, back); d != "" {
			fs = append(fs, rep.F("Tx.node|roundtrip", d))
		} else {
			for _, nx := range []*bt.Tx{other, smaller} {
				b2, err := json.Marshal(nx.NodeJSON())
				if err != nil {
					continue
				}
				if err := json.Unmarshal(b2, back.NodeJSON()); err != nil {
					fs = append(fs, rep.F("Tx.node|decode-into-used-tx", err.Error()))
				} else if d := sameTx(nx, back); d != "" {
					fs = append(fs, rep.F("Tx.node|decode-into-used-tx", d))
				}
			}
		}
	})
	// a wrapper value that is KEPT: marshal through it, edit the transaction in place (counts
	// unchanged), marshal through the same wrapper again - the second document is the edited transaction
	q("kept-wrapper", func() {
		t2 := c16Build(c)
		w := t2.NodeJSON()
		lst2 := bt.Txs{t2}
		lw := lst2.NodeJSON()
		if _, err := json.Marshal(w); err != nil {
			return
		}
		_, _ = json.Marshal(lw)
		t2.Version ^= 0x0100
		t2.LockTime++
		if len(t2.Outputs) > 0 {
			t2.Outputs[0].Satoshis += 3
		}
		for _, in := range t2.Inputs {
			in.UnlockingScript = bscript.NewFromBytes(append([]byte{0x46}, fill(0x46, 0x77)...))
		}
		if b, err := json.Marshal(w); err == nil {
			back := bt.NewTx()
			if err := json.Unmarshal(b, back.NodeJSON()); err != nil || sameTx(t2, back) != "" {
				fs = append(fs, rep.F("Tx.node|kept-wrapper-stale", "a NodeJSON() wrapper marshalled a second time, after the transaction was edited in place, does not give the edited transaction"))
			}
		}
		if b, err := json.Marshal(lw); err == nil {
			var back bt.Txs
			if err := json.Unmarshal(b, back.NodeJSON()); err != nil || len(back) != 1 || sameTx(t2, back[0]) != "" {
				fs = append(fs, rep.F("Txs.node|kept-wrapper-stale", "a list wrapper marshalled a second time, after an element was edited in place, does not give the edited transaction"))
			}
		}
		if len(t2.Outputs) > 0 {
			o := t2.Outputs[0]
			ow := o.NodeJSON()
			if _, err := json.Marshal(ow); err == nil {
				o.Satoshis += 5
				if b, err := json.Marshal(ow); err == nil {
					var back bt.Output
					if err := json.Unmarshal(b, back.NodeJSON()); err != nil || back.Satoshis != o.Satoshis {
						fs = append(fs, rep.F("Output.node|kept-wrapper-stale", "an output wrapper marshalled again after the amount changed gives the old amount"))
					}
				}
			}
			u := &bt.UTXO{TxID: txid32(0x31), Vout: 2, Satoshis: o.Satoshis, LockingScript: o.LockingScript}
			uw := u.NodeJSON()
			if _, err := json.Marshal(uw); err == nil {
				u.Satoshis += 5
				u.Vout++
				if b, err := json.Marshal(uw); err == nil {
					var back bt.UTXO
					if err := json.Unmarshal(b, back.NodeJSON()); err != nil || back.Satoshis != u.Satoshis || back.Vout != u.Vout {
						fs = append(fs, rep.F("UTXO.node|kept-wrapper-stale", "a UTXO wrapper marshalled again after the UTXO changed gives the old values"))
					}
				}
			}
		}
	})
	q("Txs.node", func() {
		tx2 := c16Build(c16Tx{R: c.R, Signed: (c.Signed + 1) % 4, Script: c.Script + 1, Amt: c.Amt + 1})
		list := bt.Txs{tx, tx2}
		b, err := json.Marshal(list.NodeJSON())
		if err != nil {
			return
		}
		var back bt.Txs
		if err := json.Unmarshal(b, back.NodeJSON()); err != nil || len(back) != 2 {
			fs = append(fs, rep.F("Txs.node|unmarshal-own", fmt.Sprint(err, len(back))))
			return
		}
		for i := range list {
			if d := sameTx(list[i], back[i]); d != "" {
				fs = append(fs, rep.F("Txs.node|roundtrip", d))
			}
		}
		// the same destination decoded into again: a shorter list, then a longer one
		for _, again := range []bt.Txs{{tx2}, {tx2, tx, tx2}, {}} {
			b, err := json.Marshal(again.NodeJSON())
			if err != nil {
				continue
			}
			if err := json.Unmarshal(b, back.NodeJSON()); err != nil || len(back) != len(again) {
				fs = append(fs, rep.F("Txs.node|decode-into-used-list", fmt.Sprintf("a list of %d transactions decoded into a list variable used before: err=%v, %d elements", len(again), err, len(back))))
				break
			}
			for i := range again {
				if d := sameTx(again[i], back[i]); d != "" {
					fs = append(fs, rep.F("Txs.node|decode-into-used-list", d))
				}
			}
		}
		// plain list, library dialect
		b, err = json.Marshal([]*bt.Tx{tx, tx2})
		if err != nil {
			return
		}
		var back2 []*bt.Tx
		if err := json.Unmarshal(b, &back2); err != nil || len(back2) != 2 {
			fs = append(fs, rep.F("[]Tx.json|unmarshal-own", fmt.Sprint(err, len(back2))))
			return
		}
		for i := range list {
			if d := sameTx(list[i], back2[i]); d != "" {
				fs = append(fs, rep.F("[]Tx.json|roundtrip", d))
			}
		}
	})
	// outputs and utxos of this tx individually (node dialect output by output; lists)
	q("Outputs", func() {
		for i, o := range tx.Outputs {
			for _, node := range []bool{false, true} {
				var b []byte
				var err error
				var back bt.Output
				if node {
					b, err = json.Marshal(o.NodeJSON())
				} else {
					b, err = json.Marshal(o)
				}
				if err != nil {
					continue
				}
				if node {
					err = json.Unmarshal(b, back.NodeJSON())
				} else {
					err = json.Unmarshal(b, &back)
				}
				if err != nil || back.Satoshis != o.Satoshis || !bytes.Equal(scriptBytes(back.LockingScript), scriptBytes(o.LockingScript)) {
					fs = append(fs, rep.F(fmt.Sprintf("Output|roundtrip|node=%v", node), fmt.Sprintf("output %d err=%v sats %d->%d", i, err, o.Satoshis, back.Satoshis)))
				}
			}
		}
	})
	q("UTXOs", func() {
		var us bt.UTXOs
		for i, o := range tx.Outputs {
			id := tx.TxIDBytes()
			id[0] ^= byte(i * 17) // every element has its own txid
			id[31] ^= byte(i + 1)
			us = append(us, &bt.UTXO{TxID: id, Vout: uint32(i), Satoshis: o.Satoshis, LockingScript: o.LockingScript})
		}
		if len(us) == 0 {
			return
		}
		b, err := json.Marshal(us.NodeJSON())
		if err == nil {
			var back bt.UTXOs
			if err := json.Unmarshal(b, back.NodeJSON()); err != nil || len(back) != len(us) {
				fs = append(fs, rep.F("UTXOs.node|unmarshal-own", fmt.Sprint(err)))
			} else {
				for i := range us {
					if back[i].Satoshis != us[i].Satoshis || back[i].Vout != us[i].Vout || !bytes.Equal(back[i].TxID, us[i].TxID) || !bytes.Equal(scriptBytes(back[i].LockingScript), scriptBytes(us[i].LockingScript)) {
						fs = append(fs, rep.F("UTXOs.node|roundtrip", fmt.Sprintf("utxo %d", i)))
					}
				}
				// the same destination decoded into again, with a shorter list
				short := us[len(us)-1:]
				if b, err := json.Marshal(short.NodeJSON()); err == nil {
					if err := json.Unmarshal(b, back.NodeJSON()); err != nil || len(back) != 1 || back[0].Vout != short[0].Vout || !bytes.Equal(back[0].TxID, short[0].TxID) {
						fs = append(fs, rep.F("UTXOs.node|decode-into-used-list", fmt.Sprintf("a list of 1 decoded into a list variable used before: err=%v, %d elements", err, len(back))))
					}
				}
			}
		}
		// a list may name an outpoint more than once (the same element twice, or again with another amount):
		// the list that comes back is the list that went in
		{
			rep2 := append(append(bt.UTXOs{}, us...), us[0], &bt.UTXO{TxID: append([]byte(nil), us[0].TxID...), Vout: us[0].Vout, Satoshis: us[0].Satoshis + 11, LockingScript: us[0].LockingScript})
			if b, err := json.Marshal(rep2.NodeJSON()); err == nil {
				var back bt.UTXOs
				if err := json.Unmarshal(b, back.NodeJSON()); err != nil || len(back) != len(rep2) {
					fs = append(fs, rep.F("UTXOs.node|repeated-outpoint", fmt.Sprintf("a list of %d entries naming one outpoint three times came back with %d entries (err=%v)", len(rep2), len(back), err)))
				} else {
					for i := range rep2 {
						if back[i].Satoshis != rep2[i].Satoshis || back[i].Vout != rep2[i].Vout || !bytes.Equal(back[i].TxID, rep2[i].TxID) {
							fs = append(fs, rep.F("UTXOs.node|repeated-outpoint", fmt.Sprintf("utxo %d", i)))
							break
						}
					}
				}
			}
			if b, err := json.Marshal([]*bt.UTXO(rep2)); err == nil {
				var back []*bt.UTXO
				if err := json.Unmarshal(b, &back); err != nil || len(back) != len(rep2) {
					fs = append(fs, rep.F("[]UTXO.json|repeated-outpoint", fmt.Sprintf("%d entries came back as %d (err=%v)", len(rep2), len(back), err)))
				}
			}
		}
		b, err = json.Marshal([]*bt.UTXO(us))
		if err == nil {
			var back []*bt.UTXO
			if err := json.Unmarshal(b, &back); err != nil || len(back) != len(us) {
				fs = append(fs, rep.F("[]UTXO.json|unmarshal-own", fmt.Sprint(err)))
			} else {
				for i := range us {
					if back[i].Satoshis != us[i].Satoshis || back[i].Vout != us[i].Vout || !bytes.Equal(back[i].TxID, us[i].TxID) || !bytes.Equal(scriptBytes(back[i].LockingScript), scriptBytes(us[i].LockingScript)) {
						fs = append(fs, rep.F("[]UTXO.json|roundtrip", fmt.Sprintf("utxo %d", i)))
					}
				}
			}
		}
	})
	return
}

func c16Boundary() []uint64 {
	var out []uint64
	p := uint64(1)
	for k := 0; k <= 15; k++ {
		out = append(out, p-1, p, p+1)
		for _, m := range []uint64{2, 3, 5, 7, 9} {
			out = append(out, m*p-1, m*p+1, m*p)
		}
		p *= 10
	}
	out = append(out, 2100000000000000-1, 2100000000000000, 2100000000000000+1)
	in := out[:0]
	for _, a := range out {
		if a <= 2100000000000001 { // the property ranges over 0..21e14 satoshis
			in = append(in, a)
		}
	}
	out = in
	for k := uint64(1); k <= 2000; k++ {
		out = append(out, k*100000000-1, k*100000000+1, k*100000000+29, k*12345678901+57)
	}
	return out
}

// c16List: lists of N distinct transactions / UTXOs through the list encoders and decoders.
type c16List struct {
	N int `json:"n"`
}

func c16ListCheck(c c16List) (fs []rep.Finding) {
	var txs bt.Txs
	var us bt.UTXOs
	for i := 0; i < c.N; i++ {
		t := c16Build(c16Tx{R: txRecipe{V: 1, LT: uint32(i), NIn: 1 + i%2, NOut: 1 + i%3, Vout: uint32(i), Seq: 0xffffffff, SLen: 2, PrevSats: 5, PrevLen: 25, OLen: 1}, Signed: 2, Script: i % 3, Amt: uint64(1000 + i)})
		txs = append(txs, t)
		id := txid32(byte(i))
		id[5] = byte(i >> 8)
		us = append(us, &bt.UTXO{TxID: id, Vout: uint32(i), Satoshis: uint64(7 + i), LockingScript: bscript.NewFromBytes(refP2PKH(fill(20, byte(i))))})
	}
	f := rep.Guard(func() {
		cmpT := func(name string, back []*bt.Tx, err error) {
			if err != nil || len(back) != len(txs) {
				fs = append(fs, rep.F(name+"|list-length", fmt.Sprintf("%d transactions came back as %d (err=%v)", len(txs), len(back), err)))
				return
			}
			for i := range txs {
				if back[i] == nil || sameTx(txs[i], back[i]) != "" {
					fs = append(fs, rep.F(name+"|list-element", fmt.Sprintf("element %d of %d differs after the round trip", i, len(txs))))
					return
				}
			}
		}
		if b, err := json.Marshal(txs.NodeJSON()); err == nil {
			var back bt.Txs
			err := json.Unmarshal(b, back.NodeJSON())
			cmpT("Txs.node", back, err)
		}
		if b, err := json.Marshal([]*bt.Tx(txs)); err == nil {
			var back []*bt.Tx
			err := json.Unmarshal(b, &back)
			cmpT("[]Tx.json", back, err)
		}
		cmpU := func(name string, back []*bt.UTXO, err error) {
			if err != nil || len(back) != len(us) {
				fs = append(fs, rep.F(name+"|list-length", fmt.Sprintf("%d UTXOs came back as %d (err=%v)", len(us), len(back), err)))
				return
			}
			for i := range us {
				if back[i] == nil || back[i].Satoshis != us[i].Satoshis || back[i].Vout != us[i].Vout || !bytes.Equal(back[i].TxID, us[i].TxID) || !bytes.Equal(scriptBytes(back[i].LockingScript), scriptBytes(us[i].LockingScript)) {
					fs = append(fs, rep.F(name+"|list-element", fmt.Sprintf("element %d of %d differs after the round trip", i, len(us))))
					return
				}
			}
		}
		if b, err := json.Marshal(us.NodeJSON()); err == nil {
			var back bt.UTXOs
			err := json.Unmarshal(b, back.NodeJSON())
			cmpU("UTXOs.node", back, err)
		}
		if b, err := json.Marshal([]*bt.UTXO(us)); err == nil {
			var back []*bt.UTXO
			err := json.Unmarshal(b, &back)
			cmpU("[]UTXO.json", back, err)
		}
	})
	if f != nil {
		fs = append(fs, *f)
	}
	return
}

func init() {
	p := register(&Prop{ID: "C16", Level: "exploration",
		Rule: "exhaustive: (amounts) every amount 0..2,000,000 (quick) / 0..100,000,000 (thorough) and ~8,300 decimal-boundary amounts up to 21e14 through Output and UTXO in both JSON dialects (marshal -> unmarshal -> equal satoshis/script/txid/vout; for every 997th amount: objects decoded with an EMPTY script, that script built up in place by its owner, the same documents decoded again); (transactions) product of shapes nIn 0..3 x nOut 0..3 x signing state {unsigned(nil scripts), first input only, all, empty scripts; and unsigned / partially signed without any record of the spent outputs, as after decoding raw bytes} x 59 output-script kinds (7 multisig-shaped scripts whose counts do not match their keys, P2PKH, empty, data with pushes of 1..5 bytes, multisig, inscription, odd pushes, 300 bytes, 12 scripts that end inside a push: every partial PUSHDATA1/2/4 length field and short payloads, and the inscription template with each token replaced by an empty PUSHDATA1 / PUSHDATA4 push) x boundary amounts x version/locktime values, plus coinbase-shaped transactions (null outpoint) in every signing state, each marshalled as Tx (library and node dialect), Txs list (node), []*Tx, per-output Output (both), UTXOs list (node) and []*UTXO (also with one outpoint named three times), a Tx variable decoded into twice (both dialects), the node-dialect lists also decoded into a list variable that was decoded into before (shorter, longer and empty lists): wrapper values (tx, list, output, UTXO) kept across an in-place edit and marshalled again; lists of 0..1000 distinct transactions / UTXOs (27 lengths around powers of two) through all four list forms; marshal must return (value or error, no panic) and the unmarshalled object must have identical Bytes()/TxID/scripts/satoshis. distinct_nontrivial = distinct amounts + distinct transaction serialisations round-tripped",
	})
	sA := NewSpace(p, "amounts", c16AmtCheck)
	sT := NewSpace(p, "transactions", c16TxCheck)
	sL := NewSpace(p, "lists", c16ListCheck)
	p.Run = func(r *rep.Run, thorough bool) {
		n := uint64(2_000_001)
		if thorough {
			n = 100_000_001
		}
		sa := &Space[c16Amt]{P: p, Name: sA.Name, Check: c16AmtCheck}
		sa.Indexed(r, n, func(i uint64) c16Amt { return c16Amt{i} })
		bd := c16Boundary()
		var bc []c16Amt
		for _, a := range bd {
			bc = append(bc, c16Amt{a})
			r.Distinct("amt", a)
		}
		sa.Slice(r, bc)
		r.Note("exhaustive_amount_range", fmt.Sprintf("0..%d", n-1))
		r.Note("boundary_amounts", len(bd))
		r.Sample("amounts", c16Amt{29})
		r.Sample("amounts", c16Amt{2100000000000000 - 1})
		var cases []c16Tx
		amts := []uint64{0, 1, 29, 57, 100000000 - 1, 2099999999999999, 123456789}
		for nin := 0; nin <= 3; nin++ {
			for nout := 0; nout <= 3; nout++ {
				for signed := 0; signed < 4; signed++ {
					for sk := 0; sk < c16ScriptKinds; sk++ {
						for ai, a := range amts {
							for _, v := range []uint32{1, 0xffffffff} {
								if nin == 0 && nout == 0 {
									continue
								}
								cases = append(cases, c16Tx{R: txRecipe{V: v, LT: v ^ uint32(ai), NIn: nin, NOut: nout, Vout: uint32(ai), Seq: 0xffffffff - uint32(sk), SLen: 2, PrevSats: 5, PrevLen: 25, OLen: 1}, Signed: signed, Script: sk, Amt: a})
							}
						}
					}
				}
			}
		}
		// unsigned / partially signed transactions whose unsigned inputs carry no record of the outputs they spend
		for nin := 1; nin <= 3; nin++ {
			for nout := 0; nout <= 2; nout++ {
				for signed := 4; signed <= 5; signed++ {
					for sk := 0; sk < 4; sk++ {
						cases = append(cases, c16Tx{R: txRecipe{V: 1, LT: 7, NIn: nin, NOut: nout, Vout: 2, Seq: 0xffffffff - uint32(sk), SLen: 2, PrevSats: 5, PrevLen: 25, OLen: 1}, Signed: signed, Script: sk, Amt: 1000})
					}
				}
			}
		}
		// coinbase-shaped transactions (one input spending the null outpoint), in every signing state
		for nout := 0; nout <= 2; nout++ {
			for signed := 0; signed < 4; signed++ {
				for _, seq := range []uint32{0xffffffff, 0, 5} {
					for sk := 0; sk < 2; sk++ {
						cases = append(cases, c16Tx{R: txRecipe{V: 1, LT: 0, NIn: 1, NOut: nout, Vout: 0, Seq: seq, SLen: 2, PrevSats: 5, PrevLen: 25, OLen: 1, NullIn0: true}, Signed: signed, Script: sk, Amt: 50_0000_0000})
					}
				}
			}
		}
		(&Space[c16Tx]{P: p, Name: sT.Name, Check: func(c c16Tx) []rep.Finding {
			fs := c16TxCheck(c)
			if len(fs) == 0 {
				r.Distinct("tx", c16Build(c).Bytes())
			}
			return fs
		}}).Slice(r, cases)
		var lcs []c16List
		for _, n := range []int{0, 1, 2, 3, 7, 8, 9, 15, 16, 17, 31, 32, 33, 63, 64, 65, 67, 71, 100, 127, 128, 129, 250, 255, 256, 257, 1000} {
			lcs = append(lcs, c16List{n})
		}
		sL.Slice(r, lcs)
		r.Note("transaction_cases", len(cases))
		r.Sample("transactions", cases[len(cases)/2])
	}
}
