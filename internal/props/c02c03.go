package props

import (
	"bytes"
	"encoding/json"
	"errors"
	"fmt"
	"sync"

	"github.com/libsv/go-bt/v2"
	"github.com/libsv/go-bt/v2/bscript"
	"github.com/libsv/go-bt/v2/sighash"

	"verif/internal/enum"
	"verif/internal/ref/sighashref"
	"verif/internal/rep"
)

type shCase struct {
	R          txRecipe `json:"tx"`
	ScriptKind int      `json:"script_kind"` // previous script of the signed input: 0 empty,1 one byte,2 contains OP_CODESEPARATOR,3 253 bytes,4 P2PKH, 5 missing(nil)
	Idx        uint32   `json:"idx"`
	HT         uint8    `json:"hash_type"`
	NoTxID     bool     `json:"no_txid"`
	// OtherNoTxID: ANOTHER input is a placeholder without a previous txid (a partially built
	// ANYONECANPAY transaction); used with ANYONECANPAY types only, whose digest does not look at it
	OtherNoTxID bool `json:"another_input_without_txid,omitempty"`
	// ViaJSON (with NoTxID): the input was decoded from a JSON document without a txid, which
	// leaves an empty, non-nil txid behind instead of a nil one
	ViaJSON bool `json:"no_txid_via_json,omitempty"`
}

func shScript(kind int) []byte {
	switch kind {
	case 0:
		return []byte{}
	case 1:
		return []byte{0x51}
	case 2:
		return []byte{0x51, 0xab, 0x02, 0xab, 0xab, 0x76, 0xab}
	case 3:
		return fill(253, 0x60)
	case 4:
		return append(append([]byte{0x76, 0xa9, 0x14}, fill(20, 3)...), 0x88, 0xac)
	case 6: // script codes that look like data carriers: the digest is defined for any script code
		return []byte{0x6a}
	case 7:
		return []byte{0x00, 0x6a, 0x02, 0x01, 0x02}
	case 8:
		return []byte{0x6a, 0x4c}
	}
	return nil
}

var anchorOnce sync.Once
var anchorErr error
var anchorN int

func requireSighashAnchor(r *rep.Run) bool {
	anchorOnce.Do(func() { anchorN, anchorErr = sighashref.Anchor(vectorsDir()) })
	if anchorErr != nil {
		r.HarnessError("sighash reference failed its anchor (node vectors): " + anchorErr.Error())
		return false
	}
	r.Note("reference_anchor_vectors_matched", anchorN)
	return true
}

func shBuild(c shCase) (*bt.Tx, []byte) {
	ref := c.R.build()
	tx := toLib(ref)
	var sc []byte
	if int(c.Idx) < len(tx.Inputs) && c.Idx < 1<<31 {
		in := tx.Inputs[c.Idx]
		sc = shScript(c.ScriptKind)
		if sc == nil {
			in.PreviousTxScript = nil
		} else {
			in.PreviousTxScript = bscript.NewFromBytes(append([]byte(nil), sc...))
		}
		if c.NoTxID {
			// an input that never had its previous txid set
			ni := &bt.Input{PreviousTxOutIndex: in.PreviousTxOutIndex, SequenceNumber: in.SequenceNumber,
				PreviousTxSatoshis: in.PreviousTxSatoshis, PreviousTxScript: in.PreviousTxScript, UnlockingScript: in.UnlockingScript}
			if c.ViaJSON {
				var ji bt.Input
				us := ""
				if in.UnlockingScript != nil {
					us = in.UnlockingScript.String()
				}
				if err := json.Unmarshal([]byte(fmt.Sprintf(`{"unlockingScript":"%s","vout":%d,"sequence":%d}`, us, in.PreviousTxOutIndex, in.SequenceNumber)), &ji); err == nil {
					ji.PreviousTxSatoshis, ji.PreviousTxScript = in.PreviousTxSatoshis, in.PreviousTxScript
					ni = &ji
				}
			}
			tx.Inputs[c.Idx] = ni
		}
		if c.OtherNoTxID && len(tx.Inputs) >= 2 {
			j := (int(c.Idx) + 1) % len(tx.Inputs)
			o := tx.Inputs[j]
			tx.Inputs[j] = &bt.Input{PreviousTxOutIndex: o.PreviousTxOutIndex, SequenceNumber: o.SequenceNumber, PreviousTxSatoshis: o.PreviousTxSatoshis,
				PreviousTxScript: o.PreviousTxScript, UnlockingScript: o.UnlockingScript}
		}
	}
	return tx, sc
}

// ownedByCaller: what a hash call returned is the caller's. The caller overwrites the returned slices,
// asks again, and must get the same answer as before; the original bytes are then put back, so
// that a library that handed out shared memory is disturbed only for the duration of this case.
func ownedByCaller(kind string, pre, dig []byte, again func() ([]byte, []byte)) (fs []rep.Finding) {
	keepPre, keepDig := append([]byte(nil), pre...), append([]byte(nil), dig...)
	for i := range pre {
		pre[i] = 0xa5
	}
	for i := range dig {
		dig[i] = 0xa5
	}
	pre2, dig2 := again()
	if !bytes.Equal(pre2, keepPre) || !bytes.Equal(dig2, keepDig) {
		fs = append(fs, rep.F(kind+"|result-shares-memory-with-an-earlier-result", "after the caller overwrote the slices an earlier call had returned, the same call gives a different preimage / hash",
			"preimage_before", fmt.Sprintf("%x", keepPre), "preimage_after", fmt.Sprintf("%x", pre2), "hash_before", fmt.Sprintf("%x", keepDig), "hash_after", fmt.Sprintf("%x", dig2)))
	}
	copy(pre, keepPre)
	copy(dig, keepDig)
	return fs
}

func c02Check(c shCase) (fs []rep.Finding) {
	ref := c.R.build()
	tx, sc := shBuild(c)
	packScripts(tx)
	var before []byte
	if !c.NoTxID {
		before = tx.ExtendedBytes()
	}
	flag := sighash.Flag(c.HT)
	pre, err := tx.CalcInputPreimage(c.Idx, flag)
	dig, err2 := tx.CalcInputSignatureHash(c.Idx, flag)
	if !c.NoTxID && !bytes.Equal(before, tx.ExtendedBytes()) {
		fs = append(fs, rep.F("forkid|tx-modified", "computing the hash changed the transaction"))
	}
	inRange := int64(c.Idx) < int64(len(ref.Ins))
	wantErr := !inRange || c.NoTxID || sc == nil
	if wantErr {
		if err == nil || err2 == nil {
			fs = append(fs, rep.F(fmt.Sprintf("forkid|missing-not-reported|range=%v,txid=%v,script=%v", inRange, !c.NoTxID, sc != nil), "no error for a missing input / txid / previous script"))
		}
		if inRange && err != nil {
			switch {
			case c.NoTxID && !errors.Is(err, bt.ErrEmptyPreviousTxID):
			case !c.NoTxID && sc == nil && !errors.Is(err, bt.ErrEmptyPreviousTxScript):
			}
		}
		return
	}
	if err != nil || err2 != nil {
		fs = append(fs, rep.F("forkid|unexpected-error", fmt.Sprintf("%v / %v", err, err2)))
		return
	}
	want := sighashref.ForkIDPreimage(ref, int(c.Idx), sc, ref.Ins[c.Idx].PrevSats, uint32(c.HT))
	// the returned preimage belongs to the caller: later hashing must not change it
	held := append([]byte(nil), pre...)
	for i := 0; i < 6 && bytes.Equal(pre, held); i++ {
		_, _ = tx.CalcInputPreimage(c.Idx, flag^sighash.Flag(1+i))
		_, _ = tx.CalcInputSignatureHash(c.Idx, flag^sighash.Flag(0x80))
	}
	if !bytes.Equal(pre, held) {
		fs = append(fs, rep.F("forkid|returned-preimage-changes-later", "a preimage returned earlier changed when further hashes were computed"))
		pre = held
	}
	fs = append(fs, ownedByCaller("forkid", pre, dig, func() ([]byte, []byte) {
		a, _ := tx.CalcInputPreimage(c.Idx, flag)
		b, _ := tx.CalcInputSignatureHash(c.Idx, flag)
		return a, b
	})...)
	if !bytes.Equal(pre, want) {
		fs = append(fs, rep.F(fmt.Sprintf("forkid|preimage|base=%d,acp=%v", c.HT&0x1f&3, c.HT&0x80 != 0), "preimage differs from the BSV replay-protected digest preimage",
			"got", fmt.Sprintf("%x", pre), "want", fmt.Sprintf("%x", want)))
	}
	if !bytes.Equal(dig, sighashref.Sha256d(want)) {
		fs = append(fs, rep.F("forkid|digest", "signature hash is not sha256d(reference preimage)"))
	}
	return
}

type c03Case struct {
	shCase
	Filled bool `json:"filled"`
}

func c03Check(c c03Case) (fs []rep.Finding) {
	ref := c.R.build()
	if !c.Filled {
		for i := range ref.Ins {
			ref.Ins[i].Script = nil
		}
	}
	cc := c.shCase
	tx, sc := shBuild(cc)
	if !c.Filled {
		for _, in := range tx.Inputs {
			in.UnlockingScript = nil
		}
	}
	packScripts(tx)
	before := tx.ExtendedBytes()
	snapshot := toLib(ref) // independent copy for field comparison
	flag := sighash.Flag(c.HT)
	pre, err := tx.CalcInputPreimageLegacy(c.Idx, flag)
	dig, err2 := tx.CalcInputSignatureHash(c.Idx, flag)
	if !bytes.Equal(before, tx.ExtendedBytes()) {
		fs = append(fs, rep.F("legacy|tx-modified", "computing the hash changed the transaction"))
	}
	for i, in := range tx.Inputs {
		if i != int(c.Idx) && !bytes.Equal(scriptBytes(in.PreviousTxScript), scriptBytes(snapshot.Inputs[i].PreviousTxScript)) {
			fs = append(fs, rep.F("legacy|tx-modified", "previous script of another input changed"))
		}
		if (in.UnlockingScript == nil) != (snapshot.Inputs[i].UnlockingScript == nil) {
			fs = append(fs, rep.F("legacy|tx-modified", "unlocking script nil-ness changed"))
		}
	}
	if err != nil || err2 != nil {
		fs = append(fs, rep.F("legacy|unexpected-error", fmt.Sprintf("%v / %v", err, err2)))
		return
	}
	// the returned preimage belongs to the caller: later hashing must not change it
	held := append([]byte(nil), pre...)
	for i := 0; i < 6 && bytes.Equal(pre, held); i++ {
		_, _ = tx.CalcInputPreimageLegacy(uint32(i%len(tx.Inputs)), flag^sighash.Flag(1+i))
		_, _ = tx.CalcInputSignatureHash(c.Idx, flag^sighash.Flag(0x80))
	}
	if !bytes.Equal(pre, held) {
		fs = append(fs, rep.F("legacy|returned-preimage-changes-later", "a preimage returned earlier changed when further hashes were computed"))
		pre = held
	}
	fs = append(fs, ownedByCaller("legacy", pre, dig, func() ([]byte, []byte) {
		a, _ := tx.CalcInputPreimageLegacy(c.Idx, flag)
		b, _ := tx.CalcInputSignatureHash(c.Idx, flag)
		return a, b
	})...)
	want, single := sighashref.LegacyPreimage(ref, int(c.Idx), sc, uint32(c.HT))
	if single {
		if !bytes.Equal(dig, sighashref.One) {
			fs = append(fs, rep.F("legacy|single-bug-digest", "SIGHASH_SINGLE without matching output must hash to 1", "got", fmt.Sprintf("%x", dig)))
		}
		return
	}
	if !bytes.Equal(pre, want) {
		fs = append(fs, rep.F(fmt.Sprintf("legacy|preimage|base=%d,acp=%v", c.HT&0x1f&3, c.HT&0x80 != 0), "preimage differs from the original algorithm",
			"got", fmt.Sprintf("%x", pre), "want", fmt.Sprintf("%x", want)))
	}
	if !bytes.Equal(dig, sighashref.Sha256d(want)) {
		fs = append(fs, rep.F("legacy|digest", "signature hash is not sha256d(reference preimage)"))
	}
	return
}

func shShapes(thorough bool) []txRecipe {
	out := shShapes0(thorough)
	// coinbase-like transactions: input 0 spends the null outpoint, with final and non-final sequence
	for _, nin := range []int{1, 2} {
		for _, seq := range []uint32{0xffffffff, 0} {
			out = append(out, txRecipe{V: 1, LT: 0, NIn: nin, NOut: 1, Vout: 1, Seq: seq, SLen: 3, PrevSats: 50, PrevLen: 2, Sats: 49, OLen: 25, NullIn0: true})
		}
	}
	return out
}

func shShapes0(thorough bool) []txRecipe {
	var out []txRecipe
	vals := []struct {
		u uint32
		s uint64
	}{{0, 0}, {1, 1}, {0xffffffff, ^uint64(0)}, {0x7fffffff, 1 << 63}, {0x80000000, 21e14}, {0xfffffffe, 0xffffffff}}
	maxIn, maxOut := 3, 3
	olens := []int{0, 25, 253}
	if !thorough {
		vals = vals[:3]
	} else {
		maxIn, maxOut = 4, 4
		olens = []int{0, 1, 25, 252, 253}
	}
	for nin := 1; nin <= maxIn; nin++ {
		for nout := 0; nout <= maxOut; nout++ {
			for _, v := range vals {
				for _, ol := range olens {
					if nout == 0 && ol != 0 {
						continue
					}
					if !thorough && ol == 253 && nin != 2 {
						continue
					}
					out = append(out, txRecipe{V: v.u, LT: v.u ^ 1, NIn: nin, NOut: nout, Vout: v.u, Seq: v.u ^ 0xff, SLen: 3, PrevSats: v.s, PrevLen: 2, Sats: v.s ^ 0xabc, OLen: ol})
				}
			}
		}
	}
	return out
}

func init() {
	p2 := register(&Prop{ID: "C02", Level: "exploration",
		Rule: "exhaustive product: tx shapes nIn 1..3 x nOut 0..3 (thorough: 1..4 x 0..4) x 3/6 boundary value sets (version, locktime, vout, sequence, spent value, output values in {0,1,max,mid}; plus coinbase-like transactions whose first input spends the null outpoint) x output script length {0,25,253} (thorough: {0,1,25,252,253}) x previous script of the signed input in {empty, 1 byte, contains 0xab, 253 bytes, P2PKH, missing, and (defined hash types) three that read as data carriers: `6a`, `00 6a <push>`, `6a 4c`} x previous txid {present, never set, empty after decoding the input from JSON} x input index in {0..nIn-1, nIn, nIn+1, 2^32-1} x all 128 hash types with bit 0x40 (ANYONECANPAY types also with ANOTHER input that has no previous txid yet: the digest is defined and unaffected; every result slice is overwritten by the caller and the call repeated); oracle: preimage byte-identical to the reference FORKID preimage (reference certified on the node's 500 bip143 + 500 legacy vectors at the start of the run), digest = sha256d, errors exactly for missing input/txid/script, ExtendedBytes unchanged; plus hash -> in-place edit -> hash sequences (3/4 shapes x hash-type pairs x index pairs x 23 single edits incl. script bytes rewritten or grown in place through the same Script object, pointer replacement, swaps, append/remove) whose second hash must be that of the edited transaction. distinct_nontrivial = distinct reference preimages compared",
	})
	s2 := NewSpace(p2, "forkid", c02Check)
	NewSpace(p2, "forkid-seq", shSeqCheck)
	p2.Run = func(r *rep.Run, thorough bool) {
		if !requireSighashAnchor(r) {
			return
		}
		shapes := shShapes(thorough)
		chk := func(c shCase) []rep.Finding {
			fs := c02Check(c)
			if len(fs) == 0 && int(c.Idx) < c.R.NIn && !c.NoTxID && c.ScriptKind != 5 {
				r.Distinct(sighashref.ForkIDPreimage(c.R.build(), int(c.Idx), shScript(c.ScriptKind), c.R.build().Ins[c.Idx].PrevSats, uint32(c.HT)))
			}
			return fs
		}
		(&Space[shCase]{P: p2, Name: s2.Name, Check: chk}).Each(r, func(yield func(shCase)) {
			for _, sh := range shapes {
				idxs := []uint32{}
				for i := 0; i < sh.NIn; i++ {
					idxs = append(idxs, uint32(i))
				}
				idxs = append(idxs, uint32(sh.NIn), uint32(sh.NIn+1), 0xffffffff)
				for _, idx := range idxs {
					for sk := 0; sk <= 8; sk++ {
						for _, notx := range []bool{false, true} {
							for ht := 0; ht < 256; ht++ {
								if ht&0x40 == 0 {
									continue
								}
								if sk >= 6 && (ht&0x1c != 0 || notx) {
									continue
								}
								if notx && ht&0x1c != 0 { // the error path does not depend on undefined base types
									continue
								}
								yield(shCase{R: sh, ScriptKind: sk, Idx: idx, HT: uint8(ht), NoTxID: notx})
								if notx && ht&0x03 == 1 {
									yield(shCase{R: sh, ScriptKind: sk, Idx: idx, HT: uint8(ht), NoTxID: true, ViaJSON: true})
								}
								if !notx && ht&0x80 != 0 && sh.NIn >= 2 && int(idx) < sh.NIn && ht&0x1c == 0 {
									yield(shCase{R: sh, ScriptKind: sk, Idx: idx, HT: uint8(ht), OtherNoTxID: true})
								}
							}
						}
					}
				}
			}
		})
		seq := shSeqCases(true, thorough)
		(&Space[shSeqCase]{P: p2, Name: "forkid-seq", Check: func(c shSeqCase) []rep.Finding {
			fs := shSeqCheck(c)
			if len(fs) == 0 {
				r.Distinct("seq", fmt.Sprint(c))
			}
			return fs
		}}).Slice(r, seq)
		r.Note("hash_edit_hash_sequences", len(seq))
		r.Sample("forkid-seq", seq[len(seq)/3])
		r.Sample("forkid", shCase{R: shapes[len(shapes)/2], ScriptKind: 2, Idx: 1, HT: 0xc3})
		r.Note("shapes", len(shapes))
	}

	p3 := register(&Prop{ID: "C03", Level: "exploration",
		Rule: "exhaustive product: same tx shapes/value sets as C02 x script code of the signed input in {empty, 1 byte, contains OP_CODESEPARATOR bytes (taken verbatim), 253 bytes, P2PKH, three data-carrier look-alikes} x every in-range input index x unlocking scripts {absent, filled} x all 128 hash types without bit 0x40 (incl. base 0 and 4..31, SINGLE with index >= nOut); oracle: preimage byte-identical to the reference original-algorithm serialisation (certified on the node's 500 legacy vectors), digest = sha256d, SINGLE-bug digest = 01 00..00 without error, transaction unchanged; plus the same hash -> in-place edit -> hash sequences as C02 with legacy hash types. distinct_nontrivial = distinct reference preimages compared",
	})
	s3 := NewSpace(p3, "legacy", c03Check)
	NewSpace(p3, "legacy-seq", shSeqCheck)
	p3.Run = func(r *rep.Run, thorough bool) {
		if !requireSighashAnchor(r) {
			return
		}
		shapes := shShapes(thorough)
		chk := func(c c03Case) []rep.Finding {
			fs := c03Check(c)
			if len(fs) == 0 {
				ref := c.R.build()
				if !c.Filled {
					for i := range ref.Ins {
						ref.Ins[i].Script = nil
					}
				}
				pre, single := sighashref.LegacyPreimage(ref, int(c.Idx), shScript(c.ScriptKind), uint32(c.HT))
				if single {
					r.Distinct("single-bug", fmt.Sprint(c.R.NIn, c.R.NOut, c.Idx))
				} else {
					r.Distinct(pre)
				}
			}
			return fs
		}
		(&Space[c03Case]{P: p3, Name: s3.Name, Check: chk}).Each(r, func(yield func(c03Case)) {
			for _, sh := range shapes {
				for idx := 0; idx < sh.NIn; idx++ {
					for _, sk := range []int{0, 1, 2, 3, 4, 6, 7, 8} {
						for _, filled := range []bool{false, true} {
							for ht := 0; ht < 256; ht++ {
								if ht&0x40 != 0 {
									continue
								}
								if sk >= 6 && ht&0x1c != 0 {
									continue
								}
								yield(c03Case{shCase{R: sh, ScriptKind: sk, Idx: uint32(idx), HT: uint8(ht)}, filled})
							}
						}
					}
				}
			}
		})
		seq := shSeqCases(false, thorough)
		(&Space[shSeqCase]{P: p3, Name: "legacy-seq", Check: func(c shSeqCase) []rep.Finding {
			fs := shSeqCheck(c)
			if len(fs) == 0 {
				r.Distinct("seq", fmt.Sprint(c))
			}
			return fs
		}}).Slice(r, seq)
		r.Note("hash_edit_hash_sequences", len(seq))
		r.Sample("legacy-seq", seq[len(seq)/3])
		r.Sample("legacy", c03Case{shCase{R: shapes[len(shapes)/2], ScriptKind: 2, Idx: 1, HT: 0x83}, true})
		r.Note("shapes", len(shapes))
	}
	_ = enum.Workers
}
