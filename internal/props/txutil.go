package props

import (
	"bytes"
	"crypto/sha256"
	"fmt"
	"golang.org/x/crypto/ripemd160"
	"math/big"

	"github.com/libsv/go-bt/v2"
	"github.com/libsv/go-bt/v2/bscript"

	"verif/internal/ref/txref"
)

// toLib builds a library transaction from the reference structure through the
// public fields/setters only.
func toLib(t *txref.Tx) *bt.Tx {
	tx := &bt.Tx{Version: t.Version, LockTime: t.LockTime}
	for _, in := range t.Ins {
		li := &bt.Input{PreviousTxOutIndex: in.Vout, SequenceNumber: in.Seq, PreviousTxSatoshis: in.PrevSats}
		if err := li.PreviousTxIDAdd(append([]byte(nil), in.TxID...)); err != nil {
			panic("harness: bad txid length in reference tx")
		}
		if in.Script != nil {
			li.UnlockingScript = bscript.NewFromBytes(append([]byte(nil), in.Script...))
		}
		if in.PrevScript != nil {
			li.PreviousTxScript = bscript.NewFromBytes(append([]byte(nil), in.PrevScript...))
		}
		tx.Inputs = append(tx.Inputs, li)
	}
	for _, o := range t.Outs {
		tx.Outputs = append(tx.Outputs, &bt.Output{Satoshis: o.Sats, LockingScript: bscript.NewFromBytes(append([]byte(nil), o.Script...))})
	}
	// all scripts live side by side in one buffer: a library function that appends to a script
	// it should only read then corrupts the neighbouring scripts, which every check that
	// compares the transaction with the reference afterwards sees
	packScripts(tx)
	return tx
}

func scriptBytes(s *bscript.Script) []byte {
	if s == nil {
		return nil
	}
	return []byte(*s)
}

// cmpTx compares a library tx with the reference field by field (nil and empty
// scripts are the same script). withPrev also compares previous value/script.
func cmpTx(l *bt.Tx, r *txref.Tx, withPrev bool) string {
	if l == nil {
		return "nil tx"
	}
	if l.Version != r.Version {
		return fmt.Sprintf("version %d != %d", l.Version, r.Version)
	}
	if l.LockTime != r.LockTime {
		return fmt.Sprintf("locktime %d != %d", l.LockTime, r.LockTime)
	}
	if len(l.Inputs) != len(r.Ins) {
		return fmt.Sprintf("input count %d != %d", len(l.Inputs), len(r.Ins))
	}
	if len(l.Outputs) != len(r.Outs) {
		return fmt.Sprintf("output count %d != %d", len(l.Outputs), len(r.Outs))
	}
	for i, in := range r.Ins {
		li := l.Inputs[i]
		if li == nil {
			return fmt.Sprintf("input %d nil", i)
		}
		if !bytes.Equal(li.PreviousTxID(), in.TxID) {
			return fmt.Sprintf("input %d txid %x != %x", i, li.PreviousTxID(), in.TxID)
		}
		if li.PreviousTxOutIndex != in.Vout {
			return fmt.Sprintf("input %d vout", i)
		}
		if li.SequenceNumber != in.Seq {
			return fmt.Sprintf("input %d sequence", i)
		}
		if !bytes.Equal(scriptBytes(li.UnlockingScript), in.Script) {
			return fmt.Sprintf("input %d unlocking script", i)
		}
		if withPrev {
			if li.PreviousTxSatoshis != in.PrevSats {
				return fmt.Sprintf("input %d previous satoshis %d != %d", i, li.PreviousTxSatoshis, in.PrevSats)
			}
			if !bytes.Equal(scriptBytes(li.PreviousTxScript), in.PrevScript) {
				return fmt.Sprintf("input %d previous script", i)
			}
		}
	}
	for i, o := range r.Outs {
		lo := l.Outputs[i]
		if lo == nil {
			return fmt.Sprintf("output %d nil", i)
		}
		if lo.Satoshis != o.Sats {
			return fmt.Sprintf("output %d satoshis", i)
		}
		if !bytes.Equal(scriptBytes(lo.LockingScript), o.Script) {
			return fmt.Sprintf("output %d script", i)
		}
	}
	return ""
}

func fill(n int, seed byte) []byte {
	b := make([]byte, n)
	for i := range b {
		b[i] = seed + byte(i*7)
	}
	return b
}

func txid32(seed byte) []byte {
	b := make([]byte, 32)
	for i := range b {
		b[i] = seed ^ byte(i*3+1)
	}
	return b
}

func refHash160(b []byte) []byte {
	h := sha256.Sum256(b)
	r := ripemd160.New()
	r.Write(h[:])
	return r.Sum(nil)
}

func libScriptNoCopy(b []byte) *bscript.Script {
	s := bscript.Script(b)
	return &s
}

// minimalPush returns the push instruction MINIMALDATA demands for d.
func minimalPush(d []byte) []byte {
	switch {
	case len(d) == 0:
		return []byte{0x00}
	case len(d) == 1 && d[0] >= 1 && d[0] <= 16:
		return []byte{0x50 + d[0]}
	case len(d) == 1 && d[0] == 0x81:
		return []byte{0x4f}
	case len(d) <= 75:
		return append([]byte{byte(len(d))}, d...)
	case len(d) <= 255:
		return append([]byte{0x4c, byte(len(d))}, d...)
	case len(d) <= 65535:
		return append([]byte{0x4d, byte(len(d)), byte(len(d) >> 8)}, d...)
	}
	return append([]byte{0x4e, byte(len(d)), byte(len(d) >> 8), byte(len(d) >> 16), byte(len(d) >> 24)}, d...)
}

func bigInt(v int64) *big.Int { return big.NewInt(v) }

// packScripts re-homes every script of the transaction (unlocking, previous and locking
// scripts, in order) as adjacent windows of ONE buffer: each script's spare capacity is the
// bytes of the scripts that follow it, so a library function that appends to a script it
// was only meant to read overwrites its neighbours - which the callers' before/after
// comparison of the serialisation then shows.
func packScripts(tx *bt.Tx) {
	var all []*bscript.Script
	for _, in := range tx.Inputs {
		all = append(all, in.UnlockingScript, in.PreviousTxScript)
	}
	for _, o := range tx.Outputs {
		all = append(all, o.LockingScript)
	}
	total := 0
	for _, s := range all {
		if s != nil {
			total += len(*s)
		}
	}
	buf := make([]byte, 0, total+64)
	for i := 0; i < 64; i++ {
		buf = append(buf, 0xA5)
	}
	buf = buf[:0]
	for _, s := range all {
		if s == nil {
			continue
		}
		start := len(buf)
		buf = append(buf, *s...)
		*s = bscript.Script(buf[start:len(buf)])
	}
}
