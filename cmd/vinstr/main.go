// vinstr generates, from the CURRENT working tree of the library, the
// instrumented sources and the build overlay the C18 schedule explorer is
// built with:
//
//   - fees.go: package sync -> the vsync shim (scheduling points at every lock
//     operation), time.Now -> vsync.Now, and a vsync.Access call in front of
//     every statement that mentions a field of a mutex-guarded struct (all
//     fields, other than the mutex itself, of any struct that contains a
//     sync.Mutex/RWMutex; write = assignment target, map element assignment
//     or delete, read otherwise);
//   - bscript/interpreter/*.go (non-test): a vsync.Access call in front of every
//     statement that mentions a field of the engine value through a method
//     receiver, or that assigns to a package-level variable.
//
// usage: vinstr <repo> <workdir>   (writes <workdir>/overlay.json)
package main

import (
	"bytes"
	"encoding/json"
	"fmt"
	"go/ast"
	"go/format"
	"go/parser"
	"go/token"
	"os"
	"path/filepath"
	"strconv"
	"strings"
)

const shimPath = "github.com/libsv/go-bt/v2/zzverif/vsync"

type tracked struct {
	refFields map[string]bool            // "Struct.field" whose type is a map, slice, pointer or channel (aliasable)
	structs   map[string]map[string]bool // struct name -> guarded field names
	pkgVars   map[string]bool
	engine    string // struct name whose every field is tracked (interpreter)
}

func main() {
	if len(os.Args) != 3 {
		fmt.Println("usage: vinstr <repo> <workdir>")
		os.Exit(2)
	}
	repo, work := os.Args[1], os.Args[2]
	_ = os.MkdirAll(work, 0o755)
	overlay := map[string]string{}
	shim, _ := filepath.Abs(filepath.Join(filepath.Dir(os.Args[0]), "..", "internal", "sched", "shim", "vsync.go"))
	if v := os.Getenv("VERIF_ROOT"); v != "" {
		shim = filepath.Join(v, "internal", "sched", "shim", "vsync.go")
	}
	overlay[filepath.Join(repo, "zzverif", "vsync", "vsync.go")] = shim

	// ---- fees.go
	out, n, err := instrumentFile(filepath.Join(repo, "fees.go"), true, nil)
	if err != nil {
		fmt.Println("vinstr: fees.go:", err)
		os.Exit(1)
	}
	dst := filepath.Join(work, "fees_instr.go")
	must(os.WriteFile(dst, out, 0o644))
	overlay[filepath.Join(repo, "fees.go")] = dst
	fmt.Printf("vinstr: fees.go: %d access probes\n", n)

	// ---- interpreter package: engine fields and package-level variables
	idir := filepath.Join(repo, "bscript", "interpreter")
	files, _ := filepath.Glob(filepath.Join(idir, "*.go"))
	tr := &tracked{structs: map[string]map[string]bool{}, pkgVars: map[string]bool{}, engine: "engine", refFields: map[string]bool{}}
	fset := token.NewFileSet()
	var parsed []*ast.File
	var names []string
	for _, f := range files {
		if strings.HasSuffix(f, "_test.go") {
			continue
		}
		af, err := parser.ParseFile(fset, f, nil, parser.ParseComments)
		if err != nil {
			fmt.Println("vinstr:", err)
			os.Exit(1)
		}
		parsed = append(parsed, af)
		names = append(names, f)
		for _, d := range af.Decls {
			gd, ok := d.(*ast.GenDecl)
			if !ok {
				continue
			}
			for _, sp := range gd.Specs {
				switch s := sp.(type) {
				case *ast.ValueSpec:
					if gd.Tok == token.VAR {
						for _, id := range s.Names {
							tr.pkgVars[id.Name] = true
						}
					}
				case *ast.TypeSpec:
					if st, ok := s.Type.(*ast.StructType); ok && s.Name.Name == tr.engine {
						fs := map[string]bool{}
						for _, fl := range st.Fields.List {
							for _, id := range fl.Names {
								fs[id.Name] = true
							}
						}
						tr.structs[tr.engine] = fs
					}
				}
			}
		}
	}
	total := 0
	for i, af := range parsed {
		n := instrumentAST(fset, af, tr, false)
		if n == 0 {
			continue
		}
		total += n
		addImport(af, shimPath)
		var buf bytes.Buffer
		must(format.Node(&buf, fset, af))
		dst := filepath.Join(work, "interp_"+filepath.Base(names[i]))
		must(os.WriteFile(dst, buf.Bytes(), 0o644))
		overlay[names[i]] = dst
	}
	fmt.Printf("vinstr: interpreter: %d access probes (engine fields: %d, package vars: %d)\n", total, len(tr.structs[tr.engine]), len(tr.pkgVars))
	b, _ := json.MarshalIndent(map[string]any{"Replace": overlay}, "", " ")
	must(os.WriteFile(filepath.Join(work, "overlay.json"), b, 0o644))
}

func must(err error) {
	if err != nil {
		fmt.Println("vinstr:", err)
		os.Exit(1)
	}
}

// instrumentFile handles a file that uses package sync itself (fees.go).
func instrumentFile(path string, swapSync bool, tr *tracked) ([]byte, int, error) {
	fset := token.NewFileSet()
	af, err := parser.ParseFile(fset, path, nil, parser.ParseComments)
	if err != nil {
		return nil, 0, err
	}
	if tr == nil {
		tr = &tracked{structs: map[string]map[string]bool{}, pkgVars: map[string]bool{}, refFields: map[string]bool{}}
		// every struct that holds a sync mutex: all its other fields are guarded
		for _, d := range af.Decls {
			gd, ok := d.(*ast.GenDecl)
			if !ok {
				continue
			}
			for _, sp := range gd.Specs {
				ts, ok := sp.(*ast.TypeSpec)
				if !ok {
					continue
				}
				st, ok := ts.Type.(*ast.StructType)
				if !ok {
					continue
				}
				hasMu := false
				fields := map[string]bool{}
				for _, fl := range st.Fields.List {
					isMu := false
					if se, ok := fl.Type.(*ast.SelectorExpr); ok {
						if x, ok := se.X.(*ast.Ident); ok && x.Name == "sync" && strings.HasSuffix(se.Sel.Name, "Mutex") {
							isMu = true
						}
					}
					if isMu {
						hasMu = true
						continue
					}
					for _, id := range fl.Names {
						fields[id.Name] = true
						switch t := fl.Type.(type) {
						case *ast.MapType, *ast.StarExpr, *ast.ChanType:
							tr.refFields[ts.Name.Name+"."+id.Name] = true
						case *ast.ArrayType:
							if t.Len == nil {
								tr.refFields[ts.Name.Name+"."+id.Name] = true
							}
						}
					}
				}
				if hasMu {
					tr.structs[ts.Name.Name] = fields
				}
			}
		}
	}
	n := instrumentAST(fset, af, tr, true)
	if swapSync {
		for _, im := range af.Imports {
			p, _ := strconv.Unquote(im.Path.Value)
			if p == "sync" {
				im.Path.Value = strconv.Quote(shimPath)
				im.Name = ast.NewIdent("sync")
			}
		}
		// time.Now -> sync.Now (the shim is imported under the name sync)
		ast.Inspect(af, func(nd ast.Node) bool {
			if se, ok := nd.(*ast.SelectorExpr); ok {
				if x, ok := se.X.(*ast.Ident); ok && x.Name == "time" && se.Sel.Name == "Now" {
					x.Name = "sync"
				}
			}
			return true
		})
	}
	var buf bytes.Buffer
	if err := format.Node(&buf, fset, af); err != nil {
		return nil, 0, err
	}
	return buf.Bytes(), n, nil
}

func addImport(af *ast.File, path string) {
	for _, im := range af.Imports {
		if p, _ := strconv.Unquote(im.Path.Value); p == path {
			return
		}
	}
	spec := &ast.ImportSpec{Path: &ast.BasicLit{Kind: token.STRING, Value: strconv.Quote(path)}, Name: ast.NewIdent("vsync")}
	for _, d := range af.Decls {
		if gd, ok := d.(*ast.GenDecl); ok && gd.Tok == token.IMPORT {
			gd.Specs = append(gd.Specs, spec)
			af.Imports = append(af.Imports, spec)
			return
		}
	}
	gd := &ast.GenDecl{Tok: token.IMPORT, Specs: []ast.Spec{spec}}
	af.Decls = append([]ast.Decl{gd}, af.Decls...)
	af.Imports = append(af.Imports, spec)
}

type probe struct {
	recv  string // expression text of the object (receiver identifier) or "" for package vars
	field string
	write bool
}

// instrumentAST inserts Access probes; shimAsSync says the shim is imported as "sync".
func instrumentAST(fset *token.FileSet, af *ast.File, tr *tracked, shimAsSync bool) int {
	pkg := "vsync"
	if shimAsSync {
		pkg = "sync"
	}
	count := 0
	for _, d := range af.Decls {
		fd, ok := d.(*ast.FuncDecl)
		if !ok || fd.Body == nil {
			continue
		}
		// receiver of a tracked struct?
		recvName, recvStruct := "", ""
		if fd.Recv != nil && len(fd.Recv.List) == 1 && len(fd.Recv.List[0].Names) == 1 {
			t := fd.Recv.List[0].Type
			if st, ok := t.(*ast.StarExpr); ok {
				t = st.X
			}
			if id, ok := t.(*ast.Ident); ok {
				if _, ok := tr.structs[id.Name]; ok {
					recvName, recvStruct = fd.Recv.List[0].Names[0].Name, id.Name
				}
			}
		}
		// aliases: local variables bound to a tracked reference-typed field (fees := f.fees);
		// using the local later is an access to the same location
		aliases := map[string]probe{}
		locals := map[string]bool{}
		if fd.Type.Params != nil {
			for _, p := range fd.Type.Params.List {
				for _, id := range p.Names {
					locals[id.Name] = true
				}
			}
		}
		fn := fd.Name.Name
		var instrBlock func(b *ast.BlockStmt)
		collect := func(s ast.Stmt) []probe {
			var ps []probe
			seen := map[string]bool{}
			add := func(p probe) {
				k := fmt.Sprint(p)
				if !seen[k] {
					seen[k] = true
					ps = append(ps, p)
				}
			}
			writes := map[ast.Expr]bool{}
			defining := map[*ast.Ident]bool{}
			if as, ok := s.(*ast.AssignStmt); ok && len(as.Lhs) == 1 && len(as.Rhs) == 1 {
				if id, ok := as.Lhs[0].(*ast.Ident); ok {
					defining[id] = true
					delete(aliases, id.Name) // rebound
					if se, ok := as.Rhs[0].(*ast.SelectorExpr); ok && recvName != "" {
						if x, ok := se.X.(*ast.Ident); ok && x.Name == recvName && tr.structs[recvStruct][se.Sel.Name] && tr.refFields[recvStruct+"."+se.Sel.Name] {
							defer func(name string, p probe) { aliases[name] = p }(id.Name, probe{recv: recvName, field: se.Sel.Name})
						}
					}
				}
			}
			markWrite := func(e ast.Expr) {
				for {
					switch x := e.(type) {
					case *ast.IndexExpr:
						e = x.X
						continue
					case *ast.ParenExpr:
						e = x.X
						continue
					case *ast.StarExpr:
						e = x.X
						continue
					}
					break
				}
				writes[e] = true
			}
			// find write targets first (shallow: this statement only)
			switch st := s.(type) {
			case *ast.AssignStmt:
				for _, l := range st.Lhs {
					markWrite(l)
				}
			case *ast.IncDecStmt:
				markWrite(st.X)
			case *ast.ExprStmt:
				if c, ok := st.X.(*ast.CallExpr); ok {
					if id, ok := c.Fun.(*ast.Ident); ok && id.Name == "delete" && len(c.Args) > 0 {
						markWrite(c.Args[0])
					}
				}
			}
			var walk func(n ast.Node, topWrite bool)
			walk = func(n ast.Node, _ bool) {
				ast.Inspect(n, func(nd ast.Node) bool {
					switch x := nd.(type) {
					case *ast.BlockStmt:
						return false // nested blocks are instrumented on their own
					case *ast.FuncLit:
						return false
					case *ast.SelectorExpr:
						if recvName != "" {
							// innermost selector rooted at the receiver
							root := x
							path := []string{}
							var e ast.Expr = x
							for {
								se, ok := e.(*ast.SelectorExpr)
								if !ok {
									break
								}
								path = append([]string{se.Sel.Name}, path...)
								root = se
								e = se.X
							}
							if id, ok := e.(*ast.Ident); ok && id.Name == recvName && len(path) > 0 && tr.structs[recvStruct][path[0]] {
								_ = root
								add(probe{recv: recvName, field: strings.Join(path, "."), write: writes[x]})
								return false
							}
						}
					case *ast.CallExpr:
						// a method call on a package-level variable may mutate it (shared hasher, cache, pool)
						if se, ok := x.Fun.(*ast.SelectorExpr); ok {
							if id, ok := se.X.(*ast.Ident); ok && tr.pkgVars[id.Name] && !locals[id.Name] {
								add(probe{field: id.Name, write: true})
							}
						}
					case *ast.Ident:
						if tr.pkgVars[x.Name] && !locals[x.Name] && writes[ast.Expr(x)] {
							add(probe{field: x.Name, write: true})
						}
						if a, ok := aliases[x.Name]; ok && !defining[x] {
							add(probe{recv: a.recv, field: a.field, write: writes[ast.Expr(x)]})
						}
					}
					return true
				})
			}
			switch st := s.(type) {
			case *ast.IfStmt:
				if st.Init != nil {
					walk(st.Init, false)
				}
				walk(st.Cond, false)
			case *ast.ForStmt:
				if st.Cond != nil {
					walk(st.Cond, false)
				}
			case *ast.RangeStmt:
				walk(st.X, false)
			case *ast.SwitchStmt:
				if st.Tag != nil {
					walk(st.Tag, false)
				}
			case *ast.BlockStmt:
			default:
				walk(s, false)
			}
			return ps
		}
		var nested func(s ast.Stmt)
		nested = func(s ast.Stmt) {
			switch st := s.(type) {
			case *ast.BlockStmt:
				instrBlock(st)
			case *ast.IfStmt:
				instrBlock(st.Body)
				if st.Else != nil {
					nested(st.Else)
				}
			case *ast.ForStmt:
				instrBlock(st.Body)
			case *ast.RangeStmt:
				instrBlock(st.Body)
			case *ast.SwitchStmt:
				for _, c := range st.Body.List {
					cc := c.(*ast.CaseClause)
					b := &ast.BlockStmt{List: cc.Body}
					instrBlock(b)
					cc.Body = b.List
				}
			case *ast.TypeSwitchStmt:
				for _, c := range st.Body.List {
					cc := c.(*ast.CaseClause)
					b := &ast.BlockStmt{List: cc.Body}
					instrBlock(b)
					cc.Body = b.List
				}
			}
		}
		instrBlock = func(b *ast.BlockStmt) {
			var out []ast.Stmt
			for _, s := range b.List {
				// track simple local declarations so that a local shadowing a package var is not probed
				if as, ok := s.(*ast.AssignStmt); ok && as.Tok == token.DEFINE {
					for _, l := range as.Lhs {
						if id, ok := l.(*ast.Ident); ok {
							locals[id.Name] = true
						}
					}
				}
				for _, p := range collect(s) {
					count++
					obj := ast.Expr(ast.NewIdent(p.recv))
					if p.recv == "" {
						obj = &ast.BasicLit{Kind: token.STRING, Value: strconv.Quote("package-var")}
					}
					w := "false"
					if p.write {
						w = "true"
					}
					pos := fset.Position(s.Pos())
					call := &ast.ExprStmt{X: &ast.CallExpr{
						Fun: &ast.SelectorExpr{X: ast.NewIdent(pkg), Sel: ast.NewIdent("Access")},
						Args: []ast.Expr{obj, &ast.BasicLit{Kind: token.STRING, Value: strconv.Quote(p.field)}, ast.NewIdent(w),
							&ast.BasicLit{Kind: token.STRING, Value: strconv.Quote(fmt.Sprintf("%s:%d %s", filepath.Base(pos.Filename), pos.Line, fn))}},
					}}
					out = append(out, call)
				}
				nested(s)
				out = append(out, s)
			}
			b.List = out
		}
		instrBlock(fd.Body)
	}
	return count
}
