package props

import (
	"bytes"
	"errors"
	"fmt"
	"hash/fnv"

	"github.com/libsv/go-bt/v2"
	"github.com/libsv/go-bt/v2/bscript/interpreter"
	"github.com/libsv/go-bt/v2/bscript/interpreter/errs"
	"github.com/libsv/go-bt/v2/bscript/interpreter/scriptflag"
	"github.com/libsv/go-bt/v2/sighash"

	"verif/internal/ref/scriptref"
	"verif/internal/ref/txref"
	"verif/internal/rep"
)

// scriptCase is one execution: scripts, flags and the transaction context knobs.
type scriptCase struct {
	Unlock   HB     `json:"unlock"`
	Lock     HB     `json:"lock"`
	Flags    uint32 `json:"flags"`
	Version  uint32 `json:"tx_version,omitempty"`
	LockTime uint32 `json:"tx_locktime,omitempty"`
	Sequence uint32 `json:"tx_sequence,omitempty"`
	// Shape of the spending transaction: 0 = 1 input / 1 output, 1 = 1 input / no output,
	// 2 = 2 inputs (checked input last) / 1 output, 3 = 2 inputs (checked first) / 2 outputs
	Shape int `json:"tx_shape,omitempty"`
	// FixedPrev: the spent outpoint is a constant instead of the id of a credit transaction
	// that contains the locking script (needed when a signature sits inside the script it signs)
	FixedPrev bool `json:"fixed_prevout,omitempty"`
	// PrevStale: the checked input of the transaction handed to Execute already records a spent
	// output - another script and another value, as left by FromUTXOs or by an earlier Execute
	// against another output; only the output handed to WithTx counts
	PrevStale bool `json:"stale_prev_on_input,omitempty"`
	// PreHashed: the transaction OBJECT handed to Execute went through signature hashing earlier,
	// while it still differed from what it is now (an output value, the checked input's sequence
	// number and the lock time were edited in place afterwards, counts unchanged): only what it is
	// now counts
	PreHashed bool `json:"tx_object_hashed_before_in_place_edits,omitempty"`
}

func (c scriptCase) idx() int {
	if c.Shape == 2 {
		return 1
	}
	return 0
}

func (c scriptCase) ctx() (*txref.Tx, uint64) {
	const amount = 12345
	tx := scriptref.SpendingTx(c.Unlock, c.Lock, amount)
	if c.Version != 0 || c.LockTime != 0 || c.Sequence != 0 {
		tx.Version, tx.LockTime, tx.Ins[0].Seq = c.Version, c.LockTime, c.Sequence
	}
	if c.FixedPrev {
		tx.Ins[0].TxID = txid32(0x77)
	}
	other := txref.In{TxID: txid32(0x3c), Vout: 7, Seq: 0xfffffff0, Script: []byte{0x51}, PrevSats: 999, PrevScript: []byte{0x51}}
	switch c.Shape {
	case 1:
		tx.Outs = nil
	case 2:
		tx.Ins = []txref.In{other, tx.Ins[0]}
	case 3:
		tx.Ins = append(tx.Ins, other)
		tx.Outs = append(tx.Outs, txref.Out{Sats: 5, Script: []byte{0x52}})
	}
	return tx, amount
}

const staleDelta = 4321

type libSnap struct {
	Stack, Alt [][]byte
}

// recorder is a Debugger that records every AfterStep snapshot and the
// callback sequence (for the lifecycle automaton of C19).
type recorder struct {
	steps    []libSnap
	trace    []byte // one letter per callback
	scribble bool
	states   int
	badState string // first snapshot whose indices are inconsistent
	// stack items of the snapshots handed to the first callbacks, kept as handed (held) and as
	// copied at that moment (was): a snapshot a debugger keeps must not change afterwards
	held, was [][]byte
	// the saved copy of the first stack (P2SH), as first seen: it must never change afterwards
	savedFirst [][]byte
	// stack depth (data + alt) at BeforeStep and the pushes / pops announced since then
	depth0, pushes, pops int
	popD, popA           int // stack depths at the last BeforeStackPop
	popSeen              bool
	inStep               bool
	stepOp               byte
	scriptChanged        bool // the alt stack is dropped and P2SH restores the saved stack at a script change
	// digests: one per State handed to a callback, taken as it arrives (before any scribbling):
	// what a callback is shown does not depend on what an earlier callback did to ITS snapshot
	digests []uint64
}

func stateDigest(s *interpreter.State) uint64 {
	h := fnv.New64a()
	fmt.Fprintf(h, "%x|%x|%x|%x|%v|%d|%d|%d", s.DataStack, s.AltStack, s.ElseStack, s.SavedFirstStack, s.CondStack, s.NumOps, s.ScriptIdx, s.OpcodeIdx)
	return h.Sum64()
}

// retainedChanged reports a kept snapshot item that no longer has the bytes it was handed over with.
func (r *recorder) retainedChanged() string {
	for i := range r.held {
		if !bytes.Equal(r.held[i], r.was[i]) {
			return fmt.Sprintf("stack item %x of an earlier snapshot now reads %x", r.was[i], r.held[i])
		}
	}
	return ""
}

func (r *recorder) see(s *interpreter.State) {
	r.states++
	if s != nil {
		r.digests = append(r.digests, stateDigest(s))
	}
	if s != nil && r.badState == "" && len(s.Scripts) == 0 {
		r.badState = "no scripts at all (an empty State was handed to the callback)"
	}
	if s != nil && r.badState == "" && len(s.Scripts) > 0 {
		switch {
		case s.ScriptIdx < 0 || s.ScriptIdx >= len(s.Scripts):
			r.badState = fmt.Sprintf("ScriptIdx %d with %d scripts", s.ScriptIdx, len(s.Scripts))
		case s.OpcodeIdx < -1 || s.OpcodeIdx >= len(s.Scripts[s.ScriptIdx]) || (s.OpcodeIdx == -1 && len(s.Scripts[s.ScriptIdx]) > 0):
			r.badState = fmt.Sprintf("OpcodeIdx %d in a script of %d opcodes", s.OpcodeIdx, len(s.Scripts[s.ScriptIdx]))
		default:
			if s.OpcodeIdx >= 0 {
				_ = s.Opcode().Name()
				_ = len(s.RemainingScript())
			}
		}
	}
	if s != nil && !r.scribble && r.badState == "" {
		if r.savedFirst == nil && len(s.SavedFirstStack) > 0 {
			for _, v := range s.SavedFirstStack {
				r.savedFirst = append(r.savedFirst, append([]byte{}, v...))
			}
		} else if r.savedFirst != nil && !eqStack(r.savedFirst, s.SavedFirstStack) {
			r.badState = fmt.Sprintf("a saved first stack reading %s although it was saved as %s", fmtStack(s.SavedFirstStack), fmtStack(r.savedFirst))
		}
	}
	if !r.scribble && s != nil && r.states <= 96 && len(s.DataStack)+len(s.AltStack) <= 32 {
		for _, st := range [][][]byte{s.DataStack, s.AltStack} {
			for _, v := range st {
				if len(v) <= 64 {
					r.held = append(r.held, v)
					r.was = append(r.was, append([]byte(nil), v...))
				}
			}
		}
	}
	if !r.scribble || s == nil {
		return
	}
	for _, st := range [][][]byte{s.DataStack, s.AltStack, s.ElseStack, s.SavedFirstStack} {
		for i := range st {
			for k := range st[i] {
				st[i][k] ^= 0xff
			}
		}
	}
	for i := range s.CondStack {
		s.CondStack[i] = 7
	}
	s.DataStack = append(s.DataStack, []byte{0xde, 0xad})
	s.AltStack = nil
	s.NumOps += 1000
	s.ScriptIdx, s.OpcodeIdx = 99, 99
}

func (r *recorder) BeforeExecute(s *interpreter.State) { r.trace = append(r.trace, 'E'); r.see(s) }
func (r *recorder) AfterExecute(s *interpreter.State)  { r.trace = append(r.trace, 'e'); r.see(s) }
func (r *recorder) BeforeStep(s *interpreter.State) {
	r.trace = append(r.trace, 'S')
	if s != nil {
		r.depth0, r.pushes, r.pops, r.inStep = len(s.DataStack)+len(s.AltStack), 0, 0, true
		r.stepOp = 0xff
		if len(s.Scripts) > 0 && s.ScriptIdx >= 0 && s.ScriptIdx < len(s.Scripts) && s.OpcodeIdx >= 0 && s.OpcodeIdx < len(s.Scripts[s.ScriptIdx]) {
			r.stepOp = s.Opcode().Value()
		}
	}
	r.see(s)
}
func (r *recorder) AfterStep(s *interpreter.State) {
	r.trace = append(r.trace, 's')
	snap := libSnap{}
	for _, v := range s.DataStack {
		snap.Stack = append(snap.Stack, append([]byte{}, v...))
	}
	for _, v := range s.AltStack {
		snap.Alt = append(snap.Alt, append([]byte{}, v...))
	}
	r.steps = append(r.steps, snap)
	// a push opcode that grew the stack announces its push (not every depth change is announced:
	// OP_NIP and friends remove items silently on the unchanged tree, so only pushes are demanded)
	if r.inStep && !r.scribble && r.badState == "" && !r.scriptChanged && r.stepOp <= 0x60 && r.stepOp != 0x50 {
		if d := len(s.DataStack) + len(s.AltStack) - r.depth0; d == 1 && r.pushes == 0 {
			r.badState = fmt.Sprintf("a stack that grew by one item in the step of push opcode 0x%02x although no push callback fired", r.stepOp)
		}
	}
	r.inStep, r.scriptChanged = false, false
	r.see(s)
}
func (r *recorder) BeforeExecuteOpcode(s *interpreter.State) {
	r.trace = append(r.trace, 'O')
	r.see(s)
}
func (r *recorder) AfterExecuteOpcode(s *interpreter.State) { r.trace = append(r.trace, 'o'); r.see(s) }
func (r *recorder) BeforeScriptChange(s *interpreter.State) {
	r.trace = append(r.trace, 'C')
	r.scriptChanged = true
	r.see(s)
}
func (r *recorder) AfterScriptChange(s *interpreter.State) {
	r.trace = append(r.trace, 'c')
	if s != nil && len(s.AltStack) != 0 && r.badState == "" {
		r.badState = fmt.Sprintf("%d alt-stack item(s) in the snapshot handed to AfterScriptChange (the alt stack does not survive a script boundary)", len(s.AltStack))
	}
	r.see(s)
}
func (r *recorder) AfterSuccess(s *interpreter.State) { r.trace = append(r.trace, 'Y'); r.see(s) }
func (r *recorder) AfterError(s *interpreter.State, e error) {
	r.trace = append(r.trace, 'N')
	r.see(s)
}
func (r *recorder) BeforeStackPush(s *interpreter.State, b []byte) {
	r.trace = append(r.trace, 'P')
	r.pushes++
	r.see(s)
}
func (r *recorder) AfterStackPush(s *interpreter.State, b []byte) {
	r.trace = append(r.trace, 'p')
	r.see(s)
}
func (r *recorder) BeforeStackPop(s *interpreter.State) {
	r.trace = append(r.trace, 'Q')
	if s != nil {
		r.popD, r.popA, r.popSeen = len(s.DataStack), len(s.AltStack), true
	}
	r.see(s)
}
func (r *recorder) AfterStackPop(s *interpreter.State, b []byte) {
	r.trace = append(r.trace, 'q')
	r.pops++
	// a pop that is reported took an item off one of the stacks
	if s != nil && r.popSeen && !r.scribble && r.badState == "" && len(s.DataStack)+len(s.AltStack) != r.popD+r.popA-1 {
		r.badState = fmt.Sprintf("AfterStackPop although no item left a stack (depths %d+%d before, %d+%d after)", r.popD, r.popA, len(s.DataStack), len(s.AltStack))
	}
	r.popSeen = false
	r.see(s)
}

// libRun executes the case on the library. dbg may be nil.
func libRun(c scriptCase, dbg interpreter.Debugger) (err error, unlockAfter, lockAfter []byte, txBefore, txAfter []byte) {
	rt, amount := c.ctx()
	tx := toLib(rt)
	ix := c.idx()
	tx.Inputs[ix].PreviousTxScript = nil
	tx.Inputs[ix].PreviousTxSatoshis = 0
	if c.PrevStale {
		tx.Inputs[ix].PreviousTxScript = libScript([]byte{0x51})
		tx.Inputs[ix].PreviousTxSatoshis = amount + staleDelta
	}
	// caller-owned buffers
	lockBuf := make([]byte, len(c.Lock)) // exactly as long as the script: nothing behind its last push
	copy(lockBuf, c.Lock)
	unlockBuf := make([]byte, len(c.Unlock))
	copy(unlockBuf, c.Unlock)
	tx.Inputs[ix].UnlockingScript = libScriptNoCopy(unlockBuf)
	prev := &bt.Output{Satoshis: amount, LockingScript: libScriptNoCopy(lockBuf)}
	if c.PreHashed {
		edit := func() {
			tx.LockTime ^= 0x40
			tx.Inputs[ix].SequenceNumber ^= 0x20
			tx.Inputs[ix].PreviousTxOutIndex ^= 1
			if len(tx.Outputs) > 0 {
				tx.Outputs[0].Satoshis ^= 0x10
			}
		}
		edit()
		keepS, keepV := tx.Inputs[ix].PreviousTxScript, tx.Inputs[ix].PreviousTxSatoshis
		tx.Inputs[ix].PreviousTxScript, tx.Inputs[ix].PreviousTxSatoshis = libScript(c.Lock), amount
		for _, ht := range []sighash.Flag{0x41, 0x01, 0xc3, 0x83, 0x42} {
			_, _ = tx.CalcInputSignatureHash(uint32(ix), ht)
			_, _ = tx.CalcInputPreimage(uint32(ix), ht)
			_, _ = tx.CalcInputPreimageLegacy(uint32(ix), ht)
		}
		_ = tx.Clone()
		tx.Inputs[ix].PreviousTxScript, tx.Inputs[ix].PreviousTxSatoshis = keepS, keepV
		edit() // back to the transaction the case is about
	}
	txBefore = tx.Bytes()
	opts := []interpreter.ExecutionOptionFunc{interpreter.WithTx(tx, ix, prev), interpreter.WithFlags(scriptflag.Flag(c.Flags))}
	if dbg != nil {
		opts = append(opts, interpreter.WithDebugger(dbg))
	}
	err = interpreter.NewEngine().Execute(opts...)
	return err, unlockBuf, lockBuf, txBefore, tx.Bytes()
}

func errCode(err error) string {
	var e errs.Error
	if errors.As(err, &e) {
		return fmt.Sprintf("code%d", e.ErrorCode)
	}
	if err == nil {
		return "ok"
	}
	return "other"
}

func era(flags uint32) string {
	if flags&scriptref.Genesis != 0 {
		return "post-genesis"
	}
	return "pre-genesis"
}

func eqStack(a, b [][]byte) bool {
	if len(a) != len(b) {
		return false
	}
	for i := range a {
		if !bytes.Equal(a[i], b[i]) {
			return false
		}
	}
	return true
}

func fmtStack(s [][]byte) string {
	out := "["
	for i, v := range s {
		if i > 0 {
			out += " "
		}
		if len(v) > 24 {
			out += fmt.Sprintf("%x…(%d)", v[:24], len(v))
		} else {
			out += fmt.Sprintf("%x", v)
		}
	}
	return out + "]"
}

var opName = func() map[byte]string {
	m := map[byte]string{}
	for n := 0; n < 256; n++ {
		m[byte(n)] = fmt.Sprintf("0x%02x", n)
	}
	return m
}()

// lockstepResult is what one lockstep comparison produced.
type lockstepResult struct {
	fs      []rep.Finding
	ref     *scriptref.Result
	libErr  error
	skipped bool // the reference executed a signature opcode (left to C06)
	steps   int
}

// lockstep runs the library with a recording debugger and the reference with
// tracing on the same case and compares the verdict and every common snapshot.
func lockstep(c scriptCase, sig scriptref.SigCheck) (lr lockstepResult) {
	rt, amount := c.ctx()
	ref := scriptref.Verify(c.Unlock, c.Lock, c.Flags, &scriptref.TxCtx{Tx: rt, Idx: c.idx(), Amount: amount}, sig, true)
	lr.ref = ref
	if (ref.UsedSig && sig == nil) || ref.TooBig {
		lr.skipped = true
		return
	}
	rec := &recorder{}
	err, _, _, _, _ := libRun(c, rec)
	lr.libErr = err
	lr.steps = len(rec.steps)
	e := era(c.Flags)
	n := len(rec.steps)
	if len(ref.Steps) < n {
		n = len(ref.Steps)
	}
	for i := 0; i < n; i++ {
		rs, ls := ref.Steps[i], rec.steps[i]
		if !eqStack(rs.Stack, ls.Stack) {
			lr.fs = append(lr.fs, rep.F(fmt.Sprintf("step|data-stack|op=0x%02x|%s", rs.Op, e),
				fmt.Sprintf("after instruction %d (opcode 0x%02x, script %d) the data stack is %s, BSV rules give %s", i, rs.Op, rs.Script, fmtStack(ls.Stack), fmtStack(rs.Stack))))
			return
		}
		if !rs.AltDead && !eqStack(rs.Alt, ls.Alt) {
			lr.fs = append(lr.fs, rep.F(fmt.Sprintf("step|alt-stack|op=0x%02x|%s", rs.Op, e),
				fmt.Sprintf("after instruction %d (opcode 0x%02x, script %d) the alt stack is %s, BSV rules give %s", i, rs.Op, rs.Script, fmtStack(ls.Alt), fmtStack(rs.Alt))))
			return
		}
	}
	// an instruction the rules fail is never executed to completion: the library must not have
	// gone on past the point where the reference stops (whatever its final verdict is)
	if !ref.OK && len(rec.steps) > len(ref.Steps) {
		lr.fs = append(lr.fs, rep.F(fmt.Sprintf("steps|executes-past-failure|node=%s|%s", ref.Err, e),
			fmt.Sprintf("the BSV rules fail with %s after %d completed instructions; the interpreter completed %d", ref.Err, len(ref.Steps), len(rec.steps))))
		return
	}
	if (err == nil) != ref.OK {
		if err == nil {
			lr.fs = append(lr.fs, rep.F(fmt.Sprintf("verdict|accepts|node=%s|%s", ref.Err, e), "the interpreter accepts a script pair the BSV rules reject with "+ref.Err))
		} else {
			lastOp := "none"
			if len(rec.steps) < len(ref.Steps) {
				lastOp = fmt.Sprintf("0x%02x", ref.Steps[len(rec.steps)].Op)
			}
			lr.fs = append(lr.fs, rep.F(fmt.Sprintf("verdict|rejects|%s|at-op=%s|%s", errCode(err), lastOp, e), "the interpreter rejects a script pair the BSV rules accept: "+err.Error()))
		}
	}
	return
}
