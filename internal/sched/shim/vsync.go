// Package vsync is the controlled-concurrency shim that replaces package sync
// (and time.Now) in instrumented copies of the library source. It contains the
// whole cooperative scheduler, because it is compiled INSIDE the library module
// through a build overlay (import path github.com/libsv/go-bt/v2/zzverif/vsync)
// and may therefore import nothing but the standard library.
//
// Model: virtual threads are goroutines of which exactly one runs at a time.
// A thread yields to the scheduler before every lock acquisition (and, for a
// write lock, once more before announcing itself as a waiting writer, so that
// Go's writer preference is modelled); the scheduler then picks the next
// thread according to a choice sequence supplied by the explorer. Every
// tracked memory access is reported through Access and checked against a
// vector-clock happens-before relation (release->acquire edges of the shim
// mutexes, fork/join): two accesses to the same location from different
// threads, at least one a write, that are unordered are a data race.
package vsync

import (
	"fmt"
	"reflect"
	"sort"
	"strings"
	gosync "sync"
	"time"
)

// ---- public sync-compatible surface ----

// Mutex is a drop-in for sync.Mutex.
type Mutex struct{ rw RWMutex }

func (m *Mutex) Lock()   { m.rw.Lock() }
func (m *Mutex) Unlock() { m.rw.Unlock() }

// Locker mirrors sync.Locker.
// Once and Pool are built on the shim's Mutex, so that the ordering they guarantee (the
// function passed to Do happens before any Do returns; a Put happens before the Get that
// returns the item) is known to the happens-before monitor. WaitGroup and Map are the real
// ones (code using them builds, but orderings established only through them are not seen).
type Once struct {
	m    Mutex
	done bool
}

func (o *Once) Do(f func()) {
	o.m.Lock()
	defer o.m.Unlock()
	if !o.done {
		f()
		o.done = true
	}
}

type Pool struct {
	New   func() interface{}
	mu    Mutex
	items []interface{}
}

func (p *Pool) Get() interface{} {
	p.mu.Lock()
	defer p.mu.Unlock()
	if n := len(p.items); n > 0 {
		x := p.items[n-1]
		p.items = p.items[:n-1]
		return x
	}
	if p.New != nil {
		return p.New()
	}
	return nil
}

func (p *Pool) Put(x interface{}) {
	p.mu.Lock()
	p.items = append(p.items, x)
	p.mu.Unlock()
}

type (
	WaitGroup = gosync.WaitGroup
	Map       = gosync.Map
)

type Locker interface {
	Lock()
	Unlock()
}

// RWMutex is a drop-in for sync.RWMutex (zero value ready).
type RWMutex struct {
	real gosync.RWMutex // used when no exploration is active

	id       int
	writer   int // thread id holding the write lock, 0 = none (ids start at 1)
	readers  map[int]int
	waitingW int
	relW     vclock // clock of the last write-unlock
	relR     vclock // join of read-unlocks since
}

// Now replaces time.Now: a logical clock owned by the harness.
func Now() time.Time {
	if s := active(); s != nil {
		return s.now
	}
	return time.Now()
}

// SetNow sets the logical time for subsequent executions.
func SetNow(t time.Time) { baseNow = t }

var baseNow = time.Date(2030, 1, 1, 0, 0, 0, 0, time.UTC)

// ---- scheduler ----

type vclock map[int]int

func (v vclock) copy() vclock {
	o := vclock{}
	for k, x := range v {
		o[k] = x
	}
	return o
}

func (v vclock) join(o vclock) {
	for k, x := range o {
		if x > v[k] {
			v[k] = x
		}
	}
}

type opKind int

const (
	opStart opKind = iota
	opAnnounceW
	opLock
	opRLock
	opEnd
)

func (k opKind) String() string {
	return [...]string{"start", "announce-writer", "Lock", "RLock", "end"}[k]
}

type thread struct {
	id      int
	fn      func()
	resume  chan struct{}
	pending opKind
	mu      *RWMutex
	done    bool
	started bool
	vc      vclock
	panicV  interface{}
}

// Point describes one scheduling decision of an execution.
type Point struct {
	Enabled []int // thread ids that could run, canonical order: running thread first if enabled, then ascending
	Chosen  int   // index into Enabled
	Running int   // thread that ran before this point (0 at the beginning)
	Desc    string
}

// Race is an unordered conflicting access pair.
type Race struct {
	Object, Field  string
	A, B           string // "T1 write" etc.
	WhereA, WhereB string
}

// Result of one controlled execution.
type Result struct {
	Points    []Point
	Deadlock  bool
	Blocked   []string
	Races     []Race
	Panics    []string
	Diverged  bool // a prefix choice was out of range
	StateKeys []string
	// WatchedWrites: writes to objects registered with Watch; Accesses: probes seen
	WatchedWrites []WatchedWrite
	Accesses      int
}

// WatchedWrite is one write to a watched object.
type WatchedWrite struct {
	Object, Field, Where string
}

type access struct {
	tid   int
	clock int
	write bool
	where string
}

type sched struct {
	threads  []*thread
	current  *thread
	yielded  chan *thread
	prefix   []int
	points   []Point
	now      time.Time
	mutexes  int
	lastW    map[string]access
	lastR    map[string]map[int]access
	res      *Result
	objNames map[interface{}]string
	watched  map[interface{}]string          // object -> label: writes to it are reported
	allowed  map[interface{}]map[string]bool // object -> fields that may be written
	accesses int
}

var (
	globalMu gosync.Mutex
	cur      *sched
)

func active() *sched { return cur }

// Run executes the thread bodies under the scheduler following prefix (then
// always choice 0) and returns what happened. Not re-entrant.
func Run(prefix []int, bodies []func()) *Result {
	globalMu.Lock()
	defer globalMu.Unlock()
	s := &sched{yielded: make(chan *thread), prefix: prefix, now: baseNow, lastW: map[string]access{}, lastR: map[string]map[int]access{}, res: &Result{}, objNames: map[interface{}]string{}, watched: map[interface{}]string{}, allowed: map[interface{}]map[string]bool{}}
	root := vclock{0: 1}
	for i, b := range bodies {
		t := &thread{id: i + 1, fn: b, resume: make(chan struct{}), pending: opStart, vc: root.copy()}
		t.vc[t.id] = 1
		s.threads = append(s.threads, t)
	}
	cur = s
	defer func() { cur = nil }()
	running := 0
	for {
		var en []*thread
		all := true
		for _, t := range s.threads {
			if t.done {
				continue
			}
			all = false
			if s.enabled(t) {
				en = append(en, t)
			}
		}
		if all {
			break
		}
		if len(en) == 0 {
			s.res.Deadlock = true
			for _, t := range s.threads {
				if !t.done {
					s.res.Blocked = append(s.res.Blocked, fmt.Sprintf("T%d waiting for %s on mutex %d", t.id, t.pending, t.mu.id))
				}
			}
			break
		}
		// canonical order: the running thread first if still enabled, then ascending ids
		sort.Slice(en, func(i, j int) bool {
			if (en[i].id == running) != (en[j].id == running) {
				return en[i].id == running
			}
			return en[i].id < en[j].id
		})
		choice := 0
		if len(s.points) < len(s.prefix) {
			choice = s.prefix[len(s.points)]
			if choice >= len(en) {
				s.res.Diverged = true
				choice = 0
			}
		}
		ids := make([]int, len(en))
		for i, t := range en {
			ids[i] = t.id
		}
		t := en[choice]
		s.points = append(s.points, Point{Enabled: ids, Chosen: choice, Running: running, Desc: fmt.Sprintf("T%d %s", t.id, t.pending)})
		running = t.id
		s.grant(t)
		s.current = t
		if !t.started {
			t.started = true
			go s.body(t)
		} else {
			t.resume <- struct{}{}
		}
		<-s.yielded // the thread reached its next point or ended
		s.current = nil
	}
	s.res.Points = s.points
	return s.res
}

func (s *sched) body(t *thread) {
	defer func() {
		if v := recover(); v != nil {
			t.panicV = v
			s.res.Panics = append(s.res.Panics, fmt.Sprintf("T%d: %v", t.id, v))
		}
		t.done = true
		t.pending = opEnd
		s.yielded <- t
	}()
	t.fn()
}

func (s *sched) enabled(t *thread) bool {
	switch t.pending {
	case opStart, opAnnounceW:
		return true
	case opLock:
		return t.mu.writer == 0 && len(t.mu.readers) == 0
	case opRLock:
		// Go's RWMutex makes new readers wait behind a waiting writer
		return t.mu.writer == 0 && t.mu.waitingW == 0
	}
	return false
}

// grant applies the effect of the pending operation of t.
func (s *sched) grant(t *thread) {
	m := t.mu
	switch t.pending {
	case opAnnounceW:
		m.waitingW++
	case opLock:
		m.waitingW--
		m.writer = t.id
		t.vc.join(m.relW)
		t.vc.join(m.relR)
	case opRLock:
		if m.readers == nil {
			m.readers = map[int]int{}
		}
		m.readers[t.id]++
		t.vc.join(m.relW)
	}
}

// yield parks the calling virtual thread until the scheduler grants op.
func (s *sched) yield(op opKind, m *RWMutex) {
	t := s.current
	if t == nil {
		panic("vsync: lock operation from a goroutine the scheduler does not own")
	}
	t.pending, t.mu = op, m
	s.yielded <- t
	<-t.resume
}

func (m *RWMutex) ensure(s *sched) {
	if m.id == 0 {
		s.mutexes++
		m.id = s.mutexes
		m.relW, m.relR = vclock{}, vclock{}
	}
}

func (m *RWMutex) Lock() {
	s := active()
	if s == nil {
		m.real.Lock()
		return
	}
	m.ensure(s)
	s.yield(opAnnounceW, m)
	s.yield(opLock, m)
}

func (m *RWMutex) Unlock() {
	s := active()
	if s == nil {
		m.real.Unlock()
		return
	}
	t := s.current
	if m.writer != t.id {
		panic("vsync: Unlock of a mutex not write-locked by this thread")
	}
	m.writer = 0
	m.relW = t.vc.copy()
	m.relR = vclock{}
	t.vc[t.id]++
}

func (m *RWMutex) RLock() {
	s := active()
	if s == nil {
		m.real.RLock()
		return
	}
	m.ensure(s)
	s.yield(opRLock, m)
}

func (m *RWMutex) RUnlock() {
	s := active()
	if s == nil {
		m.real.RUnlock()
		return
	}
	t := s.current
	if m.readers[t.id] == 0 {
		panic("vsync: RUnlock of a mutex not read-locked by this thread")
	}
	m.readers[t.id]--
	if m.readers[t.id] == 0 {
		delete(m.readers, t.id)
	}
	m.relR.join(t.vc)
	t.vc[t.id]++
}

// RLocker mirrors sync.RWMutex.RLocker.
func (m *RWMutex) RLocker() Locker { return rlocker{m} }

type rlocker struct{ m *RWMutex }

func (r rlocker) Lock()   { r.m.RLock() }
func (r rlocker) Unlock() { r.m.RUnlock() }

// Watch makes every later write access to obj (a pointer the instrumented code may reach) a
// reported event: the frame condition "this call does not modify its argument", checked on
// the writes themselves, whether or not they are undone before the call returns. allow names
// fields that may be written. To be called from inside a thread body.
func Watch(obj interface{}, label string, allow ...string) {
	s := active()
	if s == nil || obj == nil {
		return
	}
	s.watched[obj] = label
	if len(allow) > 0 {
		m := map[string]bool{}
		for _, a := range allow {
			m[a] = true
		}
		s.allowed[obj] = m
	}
}

// Access reports a read or write of obj.field by the running thread.
func Access(obj interface{}, field string, write bool, where string) {
	s := active()
	if s == nil || s.current == nil {
		return
	}
	s.accesses++
	s.res.Accesses = s.accesses
	if write {
		if label, ok := s.watched[obj]; ok {
			root := field
			if i := strings.IndexAny(root, ".["); i > 0 {
				root = root[:i]
			}
			if !s.allowed[obj][root] {
				s.res.WatchedWrites = append(s.res.WatchedWrites, WatchedWrite{Object: label, Field: field, Where: where})
			}
		}
	}
	t := s.current
	name, ok := s.objNames[obj]
	if !ok {
		name = fmt.Sprintf("obj%d(%T)", len(s.objNames)+1, obj)
		s.objNames[obj] = name
	}
	key := name + "." + field
	kind := "read"
	if write {
		kind = "write"
	}
	me := access{tid: t.id, clock: t.vc[t.id], write: write, where: where}
	report := func(o access) {
		ok := "read"
		if o.write {
			ok = "write"
		}
		s.res.Races = append(s.res.Races, Race{Object: name, Field: field,
			A: fmt.Sprintf("T%d %s", o.tid, ok), B: fmt.Sprintf("T%d %s", t.id, kind), WhereA: o.where, WhereB: where})
	}
	if w, ok := s.lastW[key]; ok && w.tid != t.id && w.clock > t.vc[w.tid] {
		report(w)
	}
	if write {
		for tid, r := range s.lastR[key] {
			if tid != t.id && r.clock > t.vc[tid] {
				report(r)
			}
		}
		s.lastW[key] = me
		s.lastR[key] = nil
	} else {
		if s.lastR[key] == nil {
			s.lastR[key] = map[int]access{}
		}
		s.lastR[key][t.id] = me
	}
}

// AccessF is Access with the object computed lazily: the generated probes sit in front of
// statements whose own evaluation may be guarded (a nil check in the same condition), so a
// panic while computing the object means "nothing accessed". A nil getter names a package variable.
func AccessF(get func() interface{}, field string, write bool, where string) {
	s := active()
	if s == nil || s.current == nil {
		return
	}
	var obj interface{} = "package-var"
	if get != nil {
		ok := false
		func() {
			defer func() { _ = recover() }()
			obj = get()
			ok = true
		}()
		if !ok || obj == nil {
			return
		}
		if v := reflect.ValueOf(obj); v.Kind() != reflect.Ptr || v.IsNil() {
			return
		}
	}
	Access(obj, field, write, where)
}

// Active reports whether an exploration is running (harness helper).
func Active() bool { return active() != nil }
