#!/bin/bash
# Offline setup: resolve the module from the local cache and warm the build cache.
set -e
cd "$(dirname "$0")"
export GOFLAGS=-mod=mod GOPROXY=off GOSUMDB=off GOTOOLCHAIN=local
mkdir -p bin evidence
go build -o bin/vcheck ./cmd/vcheck
echo setup ok
