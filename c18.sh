#!/bin/bash
# c18.sh <quick|thorough|replay file>: instrument the CURRENT /repo sources, build the
# schedule explorer with the overlay, and run it.
set -u
cd "$(dirname "$0")"
export GOFLAGS=-mod=mod GOPROXY=off GOSUMDB=off GOTOOLCHAIN=local
export VERIF_ROOT="$PWD"
TIER="${1:-quick}"
mkdir -p bin .work evidence
go build -o bin/vinstr ./cmd/vinstr || { echo "BUILD-FAILED vinstr"; exit 2; }
./bin/vinstr /repo "$PWD/.work" || { echo "INSTRUMENTATION-FAILED (the tree does not parse; no verdict)"; exit 2; }
if ! go build -tags verif -overlay "$PWD/.work/overlay.json" -o bin/vsched ./cmd/vsched 2> bin/build18.err; then
  echo "BUILD-FAILED (instrumented tree does not compile; no verdict)"; cat bin/build18.err; exit 2
fi
if [ "$TIER" = "replay" ]; then exec ./bin/vsched replay "$2"; fi
./bin/vsched explore "$TIER"
rc=$?
if [ "$TIER" = "thorough" ] && [ $rc -eq 0 ]; then
  # supplementary, not the deciding step: the same bodies free-running under the race detector
  if go build -race -tags verif -overlay "$PWD/.work/overlay.json" -o bin/vsched-race ./cmd/vsched 2> bin/build18r.err; then
    for p in 2 16; do
      GOMAXPROCS=$p ./bin/vsched-race free 300 > bin/race_$p.out 2>&1
      if grep -q "DATA RACE" bin/race_$p.out; then
        mkdir -p violations/C18; cp bin/race_$p.out violations/C18/free_running_race_$p.txt
        echo "VIOLATION property=C18 replay=$PWD/violations/C18/free_running_race_$p.txt"
        echo "  key=free-running|race-detector (an instrumentation gap: the explorer did not see this race)"
        rc=1
      fi
    done
  fi
fi
exit $rc
