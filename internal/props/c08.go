package props

import (
	"bytes"
	"encoding/json"
	"fmt"
	"strings"
	"sync"

	"github.com/libsv/go-bt/v2"
	"github.com/libsv/go-bt/v2/bscript/interpreter"
	"github.com/libsv/go-bt/v2/bscript/interpreter/scriptflag"

	"verif/internal/ref/scriptref"
	"verif/internal/rep"
)

// c08Check: (1) value semantics of every stack item after every step (lockstep
// with the reference, stack content only), (2) caller-owned script buffers
// unchanged, (3) transaction serialisation unchanged and only the spent output
// recorded on the checked input.
func c08Check(c scriptCase) []rep.Finding {
	fs, _ := c08Run(c)
	return fs
}

func c08Run(c scriptCase) (fs []rep.Finding, lr lockstepResult) {
	lr = lockstep(c, scriptref.ECDSACheck)
	for _, f := range lr.fs {
		if strings.HasPrefix(f.Key, "step|") || strings.HasPrefix(f.Key, "panic|") {
			f.Key = "aliasing-or-wrong-value|" + f.Key
			fs = append(fs, f)
		}
	}
	if lr.ref != nil && lr.ref.TooBig {
		return nil, lr
	}
	for form := 0; form < 3; form++ {
		// form 0: WithTx; form 1: WithTx and a debugger; form 2: WithTx for a transaction whose
		// checked input carries no unlocking script yet, the scripts handed over through WithScripts
		withDbg := form == 1
		rt, amount := c.ctx()
		tx := toLib(rt)
		tx.Inputs[0].PreviousTxScript = nil
		tx.Inputs[0].PreviousTxSatoshis = 0
		// the caller's buffers are exactly as long as the scripts (no spare capacity behind the last push)
		lockBuf := make([]byte, len(c.Lock))
		copy(lockBuf, c.Lock)
		unlockBuf := make([]byte, len(c.Unlock))
		copy(unlockBuf, c.Unlock)
		tx.Inputs[0].UnlockingScript = libScriptNoCopy(unlockBuf)
		prev := &bt.Output{Satoshis: amount, LockingScript: libScriptNoCopy(lockBuf)}
		opts := []interpreter.ExecutionOptionFunc{interpreter.WithTx(tx, 0, prev), interpreter.WithFlags(scriptflag.Flag(c.Flags))}
		if withDbg {
			opts = append(opts, interpreter.WithDebugger(&recorder{}))
		}
		tag := fmt.Sprintf("debugger=%v", withDbg)
		if form == 2 {
			tx.Inputs[0].UnlockingScript = nil
			opts = append(opts, interpreter.WithScripts(libScriptNoCopy(lockBuf), libScriptNoCopy(unlockBuf)))
			tag = "scripts-given-separately"
		}
		before := tx.Bytes()
		_ = interpreter.NewEngine().Execute(opts...)
		if form == 2 && tx.Inputs[0].UnlockingScript != nil {
			fs = append(fs, rep.F("transaction-serialisation-changed|"+tag, "Execute stored an unlocking script in the caller's transaction"))
		}
		if !bytes.Equal(lockBuf, c.Lock) {
			fs = append(fs, rep.F("locking-script-bytes-changed|"+tag, fmt.Sprintf("the caller's locking script changed from %x to %x", []byte(c.Lock), lockBuf)))
		}
		if !bytes.Equal(unlockBuf, c.Unlock) {
			fs = append(fs, rep.F("unlocking-script-bytes-changed|"+tag, fmt.Sprintf("the caller's unlocking script changed from %x to %x", []byte(c.Unlock), unlockBuf)))
		}
		if !bytes.Equal(before, tx.Bytes()) {
			fs = append(fs, rep.F("transaction-serialisation-changed|"+tag, "tx.Bytes() differs after execution"))
		}
		if prev.Satoshis != amount || !bytes.Equal(*prev.LockingScript, c.Lock) {
			fs = append(fs, rep.F("spent-output-changed|"+tag, "the previous output handed to WithTx changed"))
		}
		in := tx.Inputs[0]
		if in.PreviousTxScript != nil && !bytes.Equal(*in.PreviousTxScript, c.Lock) || in.PreviousTxSatoshis != 0 && in.PreviousTxSatoshis != amount {
			fs = append(fs, rep.F("checked-input-records-something-else|"+tag, "the checked input carries a previous script/value that is not the spent output's"))
		}
		if len(tx.Inputs) != 1 || len(tx.Outputs) != 1 || tx.Version != rt.Version || tx.LockTime != rt.LockTime || in.SequenceNumber != rt.Ins[0].Seq {
			fs = append(fs, rep.F("transaction-fields-changed|"+tag, "transaction fields changed"))
		}
	}
	return
}

// provenance fragments: each leaves (at least) two stack items backed by the
// same pushed value V, the transformer then works on the top one.
type provenance struct {
	name string
	pre  func(v []byte) []byte // locking-script prefix given V already pushed by the unlocking script
}

func provenances() []provenance {
	op := func(b ...byte) func([]byte) []byte { return func([]byte) []byte { return b } }
	return []provenance{
		{"direct-push", op()},
		{"DUP", op(0x76)},
		{"2DUP", op(0x76, 0x6e)},                    // V V V V
		{"3DUP", op(0x76, 0x76, 0x6f)},              // six copies
		{"OVER", op(0x51, 0x78)},                    // V 1 -> V 1 V'
		{"2OVER", op(0x51, 0x51, 0x51, 0x70, 0x75)}, // V 1 1 1 -> V 1 1 1 V' 1 -> drop
		{"PICK", op(0x51, 0x51, 0x79)},              // V 1 <1> PICK -> V 1 V'
		{"TUCK", op(0x51, 0x7c, 0x7d)},              // 1 V -> V' 1 V
		{"IFDUP", op(0x73)},
		{"SPLIT-right", func(v []byte) []byte { return append(minimalPush(scriptref.NumEncode(bigInt(int64(len(v)/2)))), 0x7f) }},
		{"SPLIT-left", func(v []byte) []byte {
			return append(append(minimalPush(scriptref.NumEncode(bigInt(int64(len(v)/2)))), 0x7f), 0x7c)
		}},
		{"SPLIT-0", func(v []byte) []byte { return []byte{0x00, 0x7f} }},
		{"ALT-roundtrip", op(0x76, 0x6b, 0x6c)},
		{"DUP-SWAP", op(0x76, 0x7c)},
		{"DUP-ROT", op(0x76, 0x76, 0x7b)},
		{"DUP-TOALT", op(0x76, 0x6b)}, // twin lives on the alt stack
		{"CAT-with-empty", op(0x76, 0x00, 0x7e)},
		{"DUP-2SWAP", op(0x76, 0x76, 0x76, 0x72)},
		{"DUP-ROLL", op(0x76, 0x51, 0x7a)},
	}
}

// twoStageCases: a value pushed or COMPUTED, duplicated, and then BOTH views transformed one after the
// other by every opcode with different operands (family A2 of C08; C05 runs it too).
func twoStageCases(vals [][]byte, yield func(scriptCase)) {
	type origin struct {
		name string
		mk   func(v []byte) (unlock, lockPre []byte)
	}
	origins := []origin{
		{"pushed", func(v []byte) ([]byte, []byte) { return minimalPush(v), nil }},
		{"CAT", func(v []byte) ([]byte, []byte) {
			h := len(v) / 2
			return append(minimalPush(v[:h]), minimalPush(v[h:])...), []byte{0x7e}
		}},
		{"INVERT-INVERT", func(v []byte) ([]byte, []byte) { return minimalPush(v), []byte{0x83, 0x83} }},
		// computed by the UNLOCKING script: the value crosses the script boundary (whatever storage
		// the interpreter recycles there must not be the value's)
		{"INVERT-INVERT in the unlocking script", func(v []byte) ([]byte, []byte) { return append(minimalPush(v), 0x83, 0x83), nil }},
		{"XOR in the unlocking script", func(v []byte) ([]byte, []byte) {
			return bytesJoin(minimalPush(v), minimalPush(make([]byte, len(v))), []byte{0x86}), nil
		}},
	}
	dups := [][]byte{{0x76}, {0x76, 0x6b, 0x76, 0x6c}, {0x76, 0x76, 0x6b}} // DUP; a third view to the alt stack and back; a third view parked on the alt stack
	xs := [][]byte{{0x01}, {0x09}, {0x01, 0x80}, {0xf0, 0x0f}}
	for _, og := range origins {
		for _, v := range vals {
			unlock, pre := og.mk(v)
			for _, dp := range dups {
				for op := 0x4f; op < 256; op++ {
					for _, f := range []uint32{0, fGenesis} {
						head := bytesJoin(pre, dp)
						// unary use
						yield(scriptCase{Unlock: unlock, Lock: bytesJoin(head, []byte{byte(op), 0x7c, byte(op)}), Flags: f})
						for i, x := range xs {
							y := xs[(i+1)%len(xs)]
							yield(scriptCase{Unlock: unlock, Lock: bytesJoin(head, minimalPush(x), []byte{byte(op), 0x7c}, minimalPush(y), []byte{byte(op)}), Flags: f})
							// the computed value as the right-hand operand
							yield(scriptCase{Unlock: unlock, Lock: bytesJoin(head, minimalPush(x), []byte{0x7c, byte(op), 0x7c}, minimalPush(y), []byte{0x7c, byte(op)}), Flags: f})
						}
					}
				}
			}
		}
	}

}

func init() {
	p := register(&Prop{ID: "C08", Level: "model_checking",
		Rule: "explicit-state exploration of the real interpreter with value-semantics lockstep: (A) provenance x transformer grid: 19 ways of obtaining two stack items backed by the same bytes (direct push from the caller's script, DUP, 2DUP, 3DUP, OVER, 2OVER, PICK, TUCK, IFDUP, SPLIT left/right/at 0, alt-stack round trip, SWAP/ROT/2SWAP/ROLL of a copy, twin parked on the alt stack, CAT with empty) x EVERY opcode byte 0x4f..0xff as transformer x extra operand lists of length 0..2 over 4/6 edge operands x 6 (quick) / 16 (thorough) values V x both eras; (A2) a value pushed / computed by OP_CAT / computed by two OP_INVERTs (in the locking script, and in the UNLOCKING script so that it crosses the script boundary) / by OP_XOR in the unlocking script, duplicated (DUP; third view through the alt stack; third view parked there), then BOTH views transformed one after the other by EVERY opcode 0x4f..0xff with different operands (as left and as right operand); caller script buffers have no spare capacity; (B) the mixed-alphabet program search of C05 (all programs to depth 3/4 from 79 seed stacks) and its P2SH / limit templates; (C) signature runs: valid and invalid P2PKH, P2PK and 2-of-3 multisig spends with real signatures, FORKID and legacy, both eras, with OP_CODESEPARATOR and signature-in-script variants (CHECKSIG and CHECKMULTISIG); (D) a transaction that does not re-parse (31-byte previous txid on another input), checked input last, CHECKSIG and CHECKMULTISIG with every hash-type byte x 4 flag words x 0..3 outputs: every output and the serialisation unchanged. Oracles on every execution: every item of both stacks equals the value-semantics reference after every instruction; the caller's locking and unlocking script buffers are byte-identical afterwards; tx.Bytes() is unchanged and the checked input records nothing but the spent output; with and without a debugger attached, and with the scripts handed over through WithScripts for a transaction whose checked input has no unlocking script yet. states = distinct snapshots, transitions = instructions compared",
	})
	NewSpace(p, "exec", c08Check)
	spOdd := NewSpace(p, "odd-tx", c08OddCheck)
	NewSpace(p, "templates", c08Check)
	p.Run = func(r *rep.Run, thorough bool) {
		n, err := scriptref.Anchor(vectorsDir() + "/script_tests.json")
		if err != nil {
			r.HarnessError("script reference failed its anchor: " + err.Error())
			return
		}
		r.Note("reference_anchor_vectors_matched", n)
		var mu sync.Mutex
		transitions, traces := 0, 0
		chk := func(c scriptCase) []rep.Finding {
			fs, lr := c08Run(c)
			mu.Lock()
			traces++
			transitions += lr.steps
			mu.Unlock()
			if len(fs) == 0 && lr.ref != nil {
				for _, s := range lr.ref.Steps {
					r.Distinct(c.Flags, s.Op, fmtStack(s.Stack), fmtStack(s.Alt))
				}
			}
			return fs
		}
		sp := &Space[scriptCase]{P: p, Name: "exec", Check: chk}
		E := edgeOperands(thorough)
		vals := [][]byte{{0x01, 0x80}, {0x81}, {0x01, 0x02}, {0x00, 0x80}, {0x01, 0x02, 0x03, 0x80}, fill(8, 0x81)}
		if thorough {
			vals = append(vals, []byte{0x01}, []byte{0xff, 0x00}, []byte{0xff, 0xff, 0xff, 0x7f}, fill(20, 0x11), []byte{}, []byte{0x80}, []byte{0x00, 0x00, 0x01, 0x00}, fill(33, 0x02), fill(75, 0x40), fill(300, 0x7f))
		}
		extras := [][]byte{{}, {0x01}, {0x09}, {0x01, 0x80}}
		if thorough {
			extras = [][]byte{{}, {0x01}, {0x02}, {0x09}, {0x81}, {0x01, 0x80}}
		}
		_ = E
		sp.Each(r, func(yield func(scriptCase)) {
			for _, pv := range provenances() {
				for _, v := range vals {
					pre := pv.pre(v)
					for op := 0x4f; op < 256; op++ {
						for _, f := range []uint32{0, fGenesis} {
							// not a minimal push on purpose for 'direct-push': the value is the caller's bytes
							unlock := append([]byte{byte(len(v))}, v...)
							if len(v) > 75 {
								unlock = minimalPush(v)
							}
							if len(v) == 0 {
								unlock = []byte{0x00}
							}
							base := append([]byte(nil), pre...)
							yield(scriptCase{Unlock: unlock, Lock: append(append([]byte(nil), base...), byte(op)), Flags: f})
							for _, a := range extras {
								l1 := append(append([]byte(nil), base...), minimalPush(a)...)
								yield(scriptCase{Unlock: unlock, Lock: append(append([]byte(nil), l1...), byte(op)), Flags: f})
								for _, b := range extras {
									l2 := append(append([]byte(nil), l1...), minimalPush(b)...)
									yield(scriptCase{Unlock: unlock, Lock: append(l2, byte(op)), Flags: f})
								}
							}
						}
					}
				}
			}
		})
		// (A2) the value is COMPUTED (by OP_CAT, by two OP_INVERTs) or pushed, duplicated, and then
		// BOTH views are transformed one after the other with different operands: an opcode that
		// recognises "its own" buffer, or judges an operand unshared, shows here
		sp.Each(r, func(yield func(scriptCase)) { twoStageCases(vals, yield) })
		r.Sample("exec", scriptCase{Unlock: HB{0x02, 0x01, 0x80}, Lock: HB{0x76, 0x81}, Flags: 0})
		// (B) mixed program search
		c05BFSJob(r, p, "exec", chk, thorough, true)
		// (B') P2SH / limit templates (pre-genesis P2SH keeps a saved copy of the first stack)
		c05Templates(r, p, chk, thorough)
		// (C) signature runs
		sigCases := c08SigCases()
		sp.Slice(r, sigCases)
		r.Note("signature_runs", len(sigCases))
		var odd []c08Odd
		for ht := 0; ht < 256; ht++ {
			for _, f := range []uint32{0, fGenesis, scriptref.ForkID, scriptref.ForkID | fGenesis} {
				for nout := 0; nout <= 3; nout++ {
					odd = append(odd, c08Odd{HT: uint8(ht), Flags: f, NOut: nout}, c08Odd{HT: uint8(ht), Flags: f, NOut: nout, Multi: true})
				}
			}
		}
		spOdd.Slice(r, odd)
		r.Note("odd_transaction_runs", len(odd))
		r.Note("states", r.DistinctCount())
		r.Note("transitions", transitions)
		r.Note("traces_validated_against_impl", traces)
	}
}

// c08SigCases builds real signature spends (valid and invalid).
func c08SigCases() []scriptCase {
	var out []scriptCase
	k0, k1, k2 := keyOf(0), keyOf(2), keyOf(3)
	const amount = 12345
	mk := func(lock []byte, build func(sign func(k keyPair, ht byte, forkid bool) []byte) []byte, flags uint32) {
		tx := scriptref.SpendingTx(nil, lock, amount)
		sign := func(k keyPair, ht byte, forkid bool) []byte {
			return refSign(k.priv, tx, 0, lock, amount, ht, forkid)
		}
		out = append(out, scriptCase{Unlock: build(sign), Lock: lock, Flags: flags})
	}
	p2pkh := refP2PKH(refHash160(k0.comp))
	p2pk := append(minimalPush(k0.comp), 0xac)
	ms := bytesJoin([]byte{0x52}, minimalPush(k0.comp), minimalPush(k1.comp), minimalPush(k2.unc), []byte{0x53, 0xae})
	sepLock := bytesJoin([]byte{0x51, 0xab, 0x75}, minimalPush(k0.comp), []byte{0xab, 0xac})
	for _, era := range []uint32{0, fGenesis} {
		for _, fk := range []bool{true, false} {
			flags := era
			ht := byte(0x01)
			if fk {
				flags |= scriptref.ForkID
				ht = 0x41
			}
			for _, h := range []byte{ht, ht | 0x80, ht + 1, ht + 2} {
				h := h
				mk(p2pkh, func(s func(keyPair, byte, bool) []byte) []byte { return pushAll(s(k0, h, fk), k0.comp) }, flags)
				mk(p2pkh, func(s func(keyPair, byte, bool) []byte) []byte { return pushAll(s(k1, h, fk), k0.comp) }, flags) // wrong key
				mk(p2pk, func(s func(keyPair, byte, bool) []byte) []byte { return pushAll(s(k0, h, fk)) }, flags)
				mk(ms, func(s func(keyPair, byte, bool) []byte) []byte { return pushAll([]byte{}, s(k0, h, fk), s(k2, h, fk)) }, flags)
				mk(ms, func(s func(keyPair, byte, bool) []byte) []byte { return pushAll([]byte{}, s(k2, h, fk), s(k0, h, fk)) }, flags) // wrong order
				mk(ms, func(s func(keyPair, byte, bool) []byte) []byte { return pushAll([]byte{}, s(k1, h, fk), []byte{}) }, flags)
			}
			// code separator: the signature covers the code after the last executed separator
			tx := scriptref.SpendingTx(nil, sepLock, amount)
			sig := refSign(k0.priv, tx, 0, sepLock[len(sepLock)-1:], amount, ht, fk)
			out = append(out, scriptCase{Unlock: pushAll(sig), Lock: sepLock, Flags: flags})
			// the same for CHECKMULTISIG: code separator in front of the multisig part
			sepMs := bytesJoin([]byte{0x51, 0xab, 0x75}, ms)
			txm := scriptref.SpendingTx(nil, sepMs, amount)
			codeMs := sepMs[2:]
			out = append(out, scriptCase{Unlock: pushAll([]byte{}, refSign(k0.priv, txm, 0, codeMs, amount, ht, fk), refSign(k2.priv, txm, 0, codeMs, amount, ht, fk)), Lock: sepMs, Flags: flags})
			out = append(out, scriptCase{Unlock: pushAll([]byte{}, refSign(k1.priv, txm, 0, codeMs, amount, ht, fk), refSign(k0.priv, txm, 0, codeMs, amount, ht, fk)), Lock: sepMs, Flags: flags}) // wrong order
			// a multisig signature that also appears as a push inside the locking script
			{
				txs := scriptref.SpendingTx(nil, ms, amount)
				sA, sB := refSign(k0.priv, txs, 0, ms, amount, ht, fk), refSign(k1.priv, txs, 0, ms, amount, ht, fk)
				lockS := bytesJoin(minimalPush(sA), []byte{0x75}, ms)
				out = append(out, scriptCase{Unlock: pushAll([]byte{}, sA, sB), Lock: lockS, Flags: flags})
			}
			// the signature also appears as a push inside the locking script (legacy FindAndDelete territory)
			sig2 := refSign(k0.priv, scriptref.SpendingTx(nil, p2pk, amount), 0, p2pk, amount, ht, fk)
			lock2 := bytesJoin(minimalPush(sig2), []byte{0x75}, p2pk)
			out = append(out, scriptCase{Unlock: pushAll(sig2), Lock: lock2, Flags: flags})
		}
	}
	return out
}

func bytesJoin(parts ...[]byte) []byte { return bytes.Join(parts, nil) }

// c08Odd: a transaction that does not survive a serialisation round trip (another input's
// previous txid has 31 bytes, as the JSON API lets one build), so the interpreter's internal
// copies take their fallback path; the checked input is the LAST one.
type c08Odd struct {
	HT    uint8  `json:"hash_type"`
	Flags uint32 `json:"flags"`
	NOut  int    `json:"nout"`
	Multi bool   `json:"multisig"`
}

func c08OddCheck(c c08Odd) (fs []rep.Finding) {
	k := keyOf(0)
	lock := bytesJoin(minimalPush(k.comp), []byte{0xac})
	sig := append([]byte{0x30, 0x06, 0x02, 0x01, 0x01, 0x02, 0x01, 0x01}, c.HT)
	unlock := pushAll(sig)
	if c.Multi {
		lock = bytesJoin([]byte{0x51}, minimalPush(k.comp), []byte{0x51, 0xae})
		unlock = pushAll([]byte{}, sig)
	}
	tx := &bt.Tx{Version: 1, LockTime: 7}
	var odd bt.Input
	doc := fmt.Sprintf(`{"unlockingScript":"51","txid":"%x","vout":3,"sequence":9}`, txid32(7)[:31])
	if err := json.Unmarshal([]byte(doc), &odd); err != nil {
		return nil
	}
	tx.Inputs = append(tx.Inputs, &odd)
	in := &bt.Input{PreviousTxOutIndex: 1, SequenceNumber: 0xfffffffe, UnlockingScript: libScript(unlock)}
	_ = in.PreviousTxIDAdd(txid32(9))
	tx.Inputs = append(tx.Inputs, in)
	for i := 0; i < c.NOut; i++ {
		tx.Outputs = append(tx.Outputs, &bt.Output{Satoshis: uint64(1000 + i), LockingScript: libScript(refP2PKH(fill(20, byte(i+1))))})
	}
	before := tx.Bytes()
	var outsBefore [][]byte
	for _, o := range tx.Outputs {
		outsBefore = append(outsBefore, o.Bytes())
	}
	prev := &bt.Output{Satoshis: 5000, LockingScript: libScript(lock)}
	if f := rep.Guard(func() {
		_ = interpreter.NewEngine().Execute(interpreter.WithTx(tx, 1, prev), interpreter.WithFlags(scriptflag.Flag(c.Flags)))
	}); f != nil {
		return append(fs, *f)
	}
	for i, o := range tx.Outputs {
		if !bytes.Equal(o.Bytes(), outsBefore[i]) {
			fs = append(fs, rep.F("transaction-serialisation-changed|odd-tx|output", fmt.Sprintf("output %d of the caller's transaction changed from %x to %x", i, outsBefore[i], o.Bytes())))
			return
		}
	}
	if !bytes.Equal(before, tx.Bytes()) {
		fs = append(fs, rep.F("transaction-serialisation-changed|odd-tx", "tx.Bytes() differs after execution"))
	}
	return
}
