package props

import (
	"bytes"
	"encoding/hex"
	"encoding/json"
	"fmt"

	"github.com/libsv/go-bt/v2/bscript"
	"github.com/libsv/go-bt/v2/bscript/interpreter"

	"verif/internal/rep"
)

// refPrefix is the shortest push prefix for n data bytes (spec table).
func refPrefix(n int) []byte {
	switch {
	case n <= 75:
		return []byte{byte(n)}
	case n <= 255:
		return []byte{0x4c, byte(n)}
	case n <= 65535:
		return []byte{0x4d, byte(n), byte(n >> 8)}
	default:
		return []byte{0x4e, byte(n), byte(n >> 8), byte(n >> 16), byte(n >> 24)}
	}
}

type c13Script struct {
	Script HB `json:"script"`
}

// firstReturn reports whether an OP_RETURN token occurs among the tokens the
// reference tokenizer could read (before any truncation).
func hasReturnToken(toks []refTok) bool {
	for _, t := range toks {
		if !t.Push && t.Op == 0x6a {
			return true
		}
	}
	return false
}

// beforeTopLevelReturn tokenises up to the first OP_RETURN met with the IF/NOTIF/ENDIF block
// counter at zero. cut: there is one; wellFormed: every token in front of it is complete.
func beforeTopLevelReturn(b []byte) (wellFormed, cut bool) {
	depth, i := 0, 0
	for i < len(b) {
		op := b[i]
		switch {
		case op == 0x63 || op == 0x64:
			depth++
		case op == 0x68:
			depth--
		case op == 0x6a && depth == 0:
			return true, true
		}
		n := 1
		switch {
		case op >= 1 && op <= 75:
			n = 1 + int(op)
		case op == 0x4c || op == 0x4d || op == 0x4e:
			w := map[byte]int{0x4c: 1, 0x4d: 2, 0x4e: 4}[op]
			if i+1+w > len(b) {
				return false, false
			}
			l := 0
			for k := w - 1; k >= 0; k-- {
				l = l<<8 | int(b[i+1+k])
			}
			n = 1 + w + l
			if l < 0 {
				return false, false
			}
		}
		if i+n > len(b) {
			return false, false
		}
		i += n
	}
	return true, false
}

func c13ScriptCheck(c c13Script) (fs []rep.Finding) {
	raw := []byte(c.Script)
	keep := append([]byte(nil), raw...)
	toks, ok := refTokenize(raw)
	retTok := hasReturnToken(toks)
	s := bscript.NewFromBytes(raw)

	// hex and JSON round trips (any bytes)
	if s2, err := bscript.NewFromHexString(s.String()); err != nil || !bytes.Equal(*s2, raw) {
		fs = append(fs, rep.F("hex|roundtrip", fmt.Sprintf("hex rendering does not convert back (%v)", err)))
	}
	// a rendering obtained from the script's own MarshalJSON is the caller's: it is kept (not copied)
	// while other scripts are rendered, and must still read as this script's hex afterwards
	if held, err := s.MarshalJSON(); err == nil {
		wantJSON := `"` + hex.EncodeToString(raw) + `"`
		for k := 0; k < 6; k++ {
			o := bscript.NewFromBytes(c13Decoy(raw, byte(0x11*(k+1))))
			if ob, err := o.MarshalJSON(); err == nil && k%2 == 0 {
				for i := range ob {
					ob[i] = 'e'
				}
			}
		}
		if string(held) != wantJSON {
			fs = append(fs, rep.F("json|kept-rendering-changed", "the bytes MarshalJSON returned changed while other scripts were rendered"))
		}
	}
	jb, err := json.Marshal(s)
	if err != nil {
		fs = append(fs, rep.F("json|marshal-error", err.Error()))
	} else {
		var back bscript.Script
		buf := append([]byte(nil), jb...)
		if err := json.Unmarshal(buf, &back); err != nil || !bytes.Equal(back, raw) {
			fs = append(fs, rep.F("json|roundtrip", fmt.Sprintf("JSON rendering does not convert back (%v)", err)))
		} else {
			// the decoded script must own its bytes: recycle the caller's buffer, decode something else
			for i := range buf {
				buf[i] = 'f'
			}
			var other bscript.Script
			_ = json.Unmarshal([]byte(`"00ff00ff"`), &other)
			if !bytes.Equal(back, raw) {
				fs = append(fs, rep.F("json|decoded-script-aliases-input-buffer", "script changed when the JSON input buffer was reused"))
			}
		}
		// several documents through one streaming decoder
		dec := json.NewDecoder(bytes.NewReader(bytes.Join([][]byte{jb, []byte(`"6a"`), jb, []byte(`"51ac"`)}, []byte("\n"))))
		var d1, d2, d3, d4 bscript.Script
		if dec.Decode(&d1) != nil || dec.Decode(&d2) != nil || dec.Decode(&d3) != nil || dec.Decode(&d4) != nil ||
			!bytes.Equal(d1, raw) || !bytes.Equal(d2, []byte{0x6a}) || !bytes.Equal(d3, raw) || !bytes.Equal(d4, []byte{0x51, 0xac}) {
			fs = append(fs, rep.F("json|stream-decode", "scripts decoded from one JSON stream differ from what was encoded"))
		}
		type wrap struct {
			S *bscript.Script `json:"s"`
		}
		wb, err := json.Marshal(wrap{S: s})
		var w2 wrap
		if err != nil || json.Unmarshal(wb, &w2) != nil || w2.S == nil || !bytes.Equal(*w2.S, raw) {
			fs = append(fs, rep.F("json|roundtrip-in-struct", "JSON rendering inside a struct does not convert back"))
		}
	}

	// DecodeParts vs reference tokens
	parts, derr := bscript.DecodeParts(raw)
	if ok {
		if derr != nil {
			fs = append(fs, rep.F("DecodeParts|rejects-wellformed", derr.Error()))
		} else if len(parts) != len(toks) {
			fs = append(fs, rep.F("DecodeParts|token-count", fmt.Sprintf("%d parts, %d tokens", len(parts), len(toks))))
		} else {
			for i, t := range toks {
				want := t.Data
				if !t.Push {
					want = []byte{t.Op}
				}
				if !bytes.Equal(parts[i], want) {
					fs = append(fs, rep.F("DecodeParts|boundary", fmt.Sprintf("part %d is %x, token is %x", i, parts[i], want)))
					break
				}
			}
		}
	} else if derr == nil {
		fs = append(fs, rep.F("DecodeParts|accepts-truncated-push", "a truncated push was not reported"))
	}
	// the hex-string decoder is the same decoder
	sparts, serr := bscript.DecodeStringParts(hex.EncodeToString(raw))
	if (serr == nil) != (derr == nil) || len(sparts) != len(parts) {
		fs = append(fs, rep.F("DecodeStringParts|disagrees-with-DecodeParts", fmt.Sprintf("err %v vs %v, %d vs %d parts", serr, derr, len(sparts), len(parts))))
	} else {
		for i := range parts {
			if !bytes.Equal(parts[i], sparts[i]) {
				fs = append(fs, rep.F("DecodeStringParts|disagrees-with-DecodeParts", fmt.Sprintf("part %d", i)))
				break
			}
		}
	}

	// Parse / Unparse
	p := &interpreter.DefaultOpcodeParser{}
	ps, perr := p.Parse(s)
	if perr == nil {
		// a parsed script is the caller's: other scripts of the same shape (push data differing),
		// and two P2PKH scripts, are parsed - by the same parser object and by another one - before
		// the first result is unparsed
		for k, d := range [][]byte{c13Decoy(raw, 0x11), refP2PKH(fill(20, 0x22)), c13Decoy(raw, 0xee), refP2PKH(fill(20, 0x33))} {
			q := p
			if k >= 2 {
				q = &interpreter.DefaultOpcodeParser{}
			}
			if pd, err := q.Parse(bscript.NewFromBytes(d)); err == nil && k == 0 {
				_, _ = q.Unparse(pd)
			}
		}
		up, uerr := p.Unparse(ps)
		if uerr != nil {
			fs = append(fs, rep.F("Unparse|error", uerr.Error()))
		} else if !bytes.Equal(*up, raw) {
			fs = append(fs, rep.F("Unparse|not-identity", fmt.Sprintf("unparse(parse(s)) = %x", []byte(*up))))
		} else {
			// the same parser object asked again: the first answer is the caller's (extended and
			// overwritten here), the second one is a script of its own with the same bytes; then the
			// parsed opcodes are replaced IN PLACE by those of another script with as many tokens
			_ = up.AppendOpcodes(bscript.OpNOP, bscript.OpDROP)
			for i := range *up {
				(*up)[i] ^= 0xff
			}
			if up2, err := p.Unparse(ps); err != nil || !bytes.Equal(*up2, raw) {
				fs = append(fs, rep.F("Unparse|second-call-differs", "unparsing the same parsed script a second time, after the first result was modified by its owner, does not give the script"))
			}
			if len(ps) > 0 {
				other := bytes.Repeat([]byte{0x51}, len(ps))
				if po, err := p.Parse(bscript.NewFromBytes(other)); err == nil && len(po) == len(ps) {
					orig := append(interpreter.ParsedScript(nil), ps...)
					copy(ps, po)
					if up3, err := p.Unparse(ps); err != nil || !bytes.Equal(*up3, other) {
						fs = append(fs, rep.F("Unparse|ignores-in-place-edit", "after the parsed opcodes were replaced in place the parser still unparses the earlier script"))
					}
					copy(ps, orig)
				}
			}
		}
	}
	if ok && perr != nil {
		fs = append(fs, rep.F("Parse|rejects-wellformed", perr.Error()))
	}
	// the parser configuration the engine uses without a transaction (ErrorOnCheckSig) differs in
	// one thing only: it refuses scripts in which an opcode (not the data after a top-level
	// OP_RETURN) needs a transaction
	if perr == nil {
		needsTx := false
		for i := range ps {
			if ps[i].RequiresTx() && ps[i].Name() != "Unformatted Data" {
				needsTx = true
			}
		}
		pe := &interpreter.DefaultOpcodeParser{ErrorOnCheckSig: true}
		pse, eerr := pe.Parse(s)
		switch {
		case (eerr != nil) != needsTx:
			fs = append(fs, rep.F("Parse|ErrorOnCheckSig-disagrees", fmt.Sprintf("strict parser error=%v, a transaction-dependent opcode present=%v", eerr, needsTx)))
		case eerr == nil:
			if up, uerr := pe.Unparse(pse); uerr != nil || !bytes.Equal(*up, raw) || len(pse) != len(ps) {
				fs = append(fs, rep.F("Parse|ErrorOnCheckSig-disagrees", "the strict parser tokenises the script differently"))
			}
		}
	}
	// the interpreter's parser stops tokenising at an OP_RETURN outside every IF/NOTIF..ENDIF
	// (block counter zero) and keeps the rest as one opaque blob: what comes before must be
	// well-formed, what comes after need not be
	if pre, cut := beforeTopLevelReturn(raw); cut {
		if pre && perr != nil {
			fs = append(fs, rep.F("Parse|rejects-script-with-return-tail", "a script that is well-formed up to its top-level OP_RETURN was rejected: "+perr.Error()))
		}
		if !pre && perr == nil {
			fs = append(fs, rep.F("Parse|accepts-truncated-push", "a truncated push in front of the top-level OP_RETURN was not reported"))
		}
	}
	if !ok && !retTok && perr == nil {
		fs = append(fs, rep.F("Parse|accepts-truncated-push", "a truncated push was not reported"))
	}
	if ok && perr == nil && !retTok {
		// tokenizer agreement on every push boundary
		if len(ps) != len(toks) {
			fs = append(fs, rep.F("Parse|token-count", fmt.Sprintf("%d opcodes, %d tokens", len(ps), len(toks))))
		} else {
			for i, t := range toks {
				if ps[i].Value() != t.Op || !bytes.Equal(ps[i].Data, t.Data) {
					fs = append(fs, rep.F("Parse|boundary", fmt.Sprintf("opcode %d is %02x/%x, token is %02x/%x", i, ps[i].Value(), ps[i].Data, t.Op, t.Data)))
					break
				}
			}
		}
	}
	if !bytes.Equal(raw, keep) {
		fs = append(fs, rep.F("mutated-script", "a codec changed the caller's script bytes"))
	}
	return
}

// c13Decoy is a script of the same shape as b: every opcode and push header as in b, the data of
// every push XORed with x (b itself where it is not well-formed).
func c13Decoy(b []byte, x byte) []byte {
	d := append([]byte(nil), b...)
	toks, _ := refTokenize(b)
	for _, t := range toks {
		if t.Push {
			for i := t.End - len(t.Data); i < t.End; i++ {
				d[i] ^= x
			}
		}
	}
	return d
}

type c13Parts struct {
	Lens []int `json:"lens"`
	Fill byte  `json:"fill"`
}

func c13PartsCheck(c c13Parts) (fs []rep.Finding) {
	var parts [][]byte
	var want []byte
	for i, l := range c.Lens {
		d := bytes.Repeat([]byte{c.Fill + byte(i)}, l)
		if c.Fill == 0xEE { // pattern with structure: bytes that look like push opcodes
			for k := range d {
				d[k] = []byte{0x4c, 0x4d, 0x4e, 0x00, 0x6a, 0x01}[k%6]
			}
		}
		parts = append(parts, d)
		want = append(want, refPrefix(l)...)
		want = append(want, d...)
	}
	enc, err := bscript.EncodeParts(parts)
	if err != nil {
		return append(fs, rep.F("EncodeParts|error", err.Error()))
	}
	if !bytes.Equal(enc, want) {
		fs = append(fs, rep.F("EncodeParts|not-shortest-form", "encoding differs from the shortest-prefix reference", "lens", fmt.Sprint(c.Lens)))
	}
	for i, pt := range parts {
		pf, err := bscript.PushDataPrefix(pt)
		if err != nil || !bytes.Equal(pf, refPrefix(len(pt))) {
			fs = append(fs, rep.F("PushDataPrefix|class", fmt.Sprintf("part %d len %d prefix %x", i, len(pt), pf)))
		}
	}
	dec, err := bscript.DecodeParts(enc)
	if err != nil {
		return append(fs, rep.F("DecodeParts|rejects-own-encoding", err.Error()))
	}
	if len(dec) != len(parts) {
		return append(fs, rep.F("DecodeParts|roundtrip-count", fmt.Sprintf("%d != %d", len(dec), len(parts))))
	}
	for i := range parts {
		if !bytes.Equal(dec[i], parts[i]) {
			fs = append(fs, rep.F("DecodeParts|roundtrip-item", fmt.Sprintf("item %d differs", i)))
		}
	}
	// results belong to the caller: encoding and decoding other items must not change them
	{
		encWas := append([]byte(nil), enc...)
		var other [][]byte
		for _, pt := range parts {
			o := append([]byte(nil), pt...)
			for k := range o {
				o[k] ^= 0xff
			}
			other = append(other, o)
		}
		for i := 0; i < 3; i++ {
			if e2, err := bscript.EncodeParts(other); err == nil {
				_, _ = bscript.DecodeParts(e2)
				s2 := &bscript.Script{}
				_ = s2.AppendPushDataArray(other)
			}
		}
		changed := !bytes.Equal(enc, encWas)
		for i := range parts {
			if !bytes.Equal(dec[i], parts[i]) {
				changed = true
			}
		}
		if changed && len(fs) == 0 {
			fs = append(fs, rep.F("returned-bytes-change-later", "bytes returned by EncodeParts/DecodeParts changed when other items were encoded or decoded"))
		}
	}
	// Script builders use the same encoder
	s := &bscript.Script{}
	if err := s.AppendPushDataArray(parts); err != nil || !bytes.Equal(*s, want) {
		fs = append(fs, rep.F("AppendPushDataArray|differs", "builder output differs from reference"))
	}
	{
		s1, s2, s3, s4 := &bscript.Script{}, &bscript.Script{}, &bscript.Script{}, &bscript.Script{}
		var strs []string
		bad := false
		for _, pt := range parts {
			if s1.AppendPushData(pt) != nil || s2.AppendPushDataHexString(hex.EncodeToString(pt)) != nil || s3.AppendPushDataString(string(pt)) != nil {
				bad = true
			}
			strs = append(strs, string(pt))
		}
		if s4.AppendPushDataStrings(strs) != nil {
			bad = true
		}
		if bad || !bytes.Equal(*s1, want) || !bytes.Equal(*s2, want) || !bytes.Equal(*s3, want) || !bytes.Equal(*s4, want) {
			fs = append(fs, rep.F("AppendPushData*|differs", "a push builder (bytes / hex string / string / strings) differs from the reference encoding"))
		}
	}
	// an item that sits in the script's own spare capacity (a script cut short, the cut-off part
	// pushed back as data) is still the item that gets pushed
	for _, pt := range parts[:1] {
		buf := make([]byte, 0, len(pt)+16)
		buf = append(append(buf, 0x51, 0x52), pt...)
		sc := bscript.Script(buf[:2])
		wantSc := bytesJoin([]byte{0x51, 0x52}, refPrefix(len(pt)), pt)
		if err := sc.AppendPushData(buf[2 : 2+len(pt)]); err != nil || !bytes.Equal(sc, wantSc) {
			fs = append(fs, rep.F("AppendPushData|item-in-own-capacity", "pushing an item that lies in the script's spare capacity pushes other bytes"))
		}
	}
	// and the interpreter's parser agrees
	p := &interpreter.DefaultOpcodeParser{}
	ps, err := p.Parse(bscript.NewFromBytes(enc))
	if err != nil || len(ps) != len(parts) {
		fs = append(fs, rep.F("Parse|parts-disagree", fmt.Sprintf("err=%v n=%d", err, len(ps))))
	} else {
		for i := range parts {
			if !bytes.Equal(ps[i].Data, parts[i]) {
				fs = append(fs, rep.F("Parse|parts-disagree", fmt.Sprintf("item %d", i)))
			}
		}
		if up, err := p.Unparse(ps); err != nil || !bytes.Equal(*up, enc) {
			fs = append(fs, rep.F("Unparse|not-identity", "on encoded parts"))
		}
	}
	return
}

// ASM alphabet: every non-push opcode byte and a few minimal multi-byte pushes.
func asmSymbols() [][]byte {
	var syms [][]byte
	for b := 0; b < 256; b++ {
		if b >= 1 && b <= 0x4e {
			continue
		}
		syms = append(syms, []byte{byte(b)})
	}
	for _, l := range []int{2, 3, 75, 76, 255, 256} {
		d := bytes.Repeat([]byte{0xc1}, l)
		d[0] = 0x6a // data starting with the OP_RETURN byte is still data
		syms = append(syms, append(refPrefix(l), d...))
	}
	// pushes whose hex rendering consists of decimal digits only (a parser that also accepts
	// decimal numbers must not read them as numbers), or looks like an opcode name
	for _, d := range [][]byte{{0x00, 0x10}, {0x00, 0x00}, {0x00, 0x09}, {0x00, 0x00, 0x05}, {0x12, 0x34}, {0x00, 0x16}, {0x10, 0x00}, {0x99, 0x99, 0x99}} {
		syms = append(syms, append(refPrefix(len(d)), d...))
	}
	return syms
}

type c13ASM struct {
	Script HB `json:"script"`
}

func c13ASMCheck(c c13ASM) (fs []rep.Finding) {
	raw := []byte(c.Script)
	s := bscript.NewFromBytes(raw)
	if s.IsData() {
		return nil
	}
	asm, err := s.ToASM()
	if err != nil {
		return append(fs, rep.F("ToASM|error", err.Error()))
	}
	back, err := bscript.NewFromASM(asm)
	if err != nil {
		return append(fs, rep.F("NewFromASM|rejects-own-rendering", err.Error(), "asm", trunc(asm)))
	}
	if !bytes.Equal(*back, raw) {
		fs = append(fs, rep.F("ASM|roundtrip", "assembly rendering does not convert back", "asm", trunc(asm), "got", HB(*back).String()))
	}
	return
}

func trunc(s string) string {
	if len(s) > 120 {
		return s[:120] + "…"
	}
	return s
}

// c13Prefix: a prefix handed out by PushDataPrefix is used the way its documentation shows - the
// data is appended to it - and afterwards every prefix (all lengths around the class boundaries) and
// every encoding is still what the reference says.
type c13Prefix struct {
	Len int `json:"len"`
}

var c13PrefixLens = func() (ls []int) {
	for l := 1; l <= 80; l++ {
		ls = append(ls, l)
	}
	return append(ls, 254, 255, 256, 257, 65535, 65536)
}()

func c13PrefixCheck(c c13Prefix) (fs []rep.Finding) {
	d := fill(c.Len, 0xc3)
	pf, err := bscript.PushDataPrefix(d)
	if err != nil || !bytes.Equal(pf, refPrefix(c.Len)) {
		return append(fs, rep.F("PushDataPrefix|class", fmt.Sprintf("len %d prefix %x", c.Len, pf)))
	}
	script := append(pf, d...) // the documented use
	if !bytes.Equal(script, append(refPrefix(c.Len), d...)) {
		fs = append(fs, rep.F("PushDataPrefix|prefix-plus-data", "prefix followed by the data is not the push"))
	}
	for _, l := range c13PrefixLens {
		e := fill(l, 0x3c)
		if pf2, err := bscript.PushDataPrefix(e); err != nil || !bytes.Equal(pf2, refPrefix(l)) {
			fs = append(fs, rep.F("PushDataPrefix|changes-after-a-returned-prefix-was-appended-to", fmt.Sprintf("after appending %d bytes to the prefix returned for them, the prefix for %d bytes is %x", c.Len, l, pf2)))
			break
		}
		if enc, err := bscript.EncodeParts([][]byte{e}); err != nil || !bytes.Equal(enc, append(refPrefix(l), e...)) {
			fs = append(fs, rep.F("EncodeParts|changes-after-a-returned-prefix-was-appended-to", fmt.Sprintf("after appending %d bytes to the prefix returned for them, a %d-byte item is encoded wrongly", c.Len, l)))
			break
		}
	}
	return
}

func init() {
	p := register(&Prop{ID: "C13", Level: "exploration",
		Rule: "exhaustive: (scripts) every byte string of length<=2 plus length 3 over a 68-symbol alphabet (quick) / every byte string of length<=3 (thorough), every string of length 4 (thorough: 5) over a 14-symbol control-flow / OP_RETURN / push-header alphabet, and every truncation at every position of 40 longer well-formed scripts, through DecodeParts, Parse/Unparse (other scripts of the same shape and P2PKH scripts parsed between Parse and Unparse; unparsed twice by the same parser object with the first result modified in between, and once more after the parsed opcodes were replaced in place), hex and JSON (a rendering returned by MarshalJSON kept while six other scripts are rendered) against the reference tokenizer; (parts) every list of <=3 items with lengths in {1,2,75,76,255,256,65535,65536} x 3 fill patterns through EncodeParts/PushDataPrefix/DecodeParts/AppendPushDataArray/Parse; (prefix) for every length 1..80, 254..257, 65535, 65536: the data appended to the prefix PushDataPrefix returned, then every prefix and encoding of those lengths checked again; (asm) every sequence (the empty one included) of length<=2 (quick) / <=3 (thorough) over {all 178 non-push opcode bytes, minimal pushes of 2,3,75,76,255,256 bytes, 8 pushes whose hex reads as a decimal number} that is not a data script through ToASM/NewFromASM. distinct_nontrivial = distinct (token count, well-formedness, has-return) classes x length for scripts + distinct part-length vectors + distinct asm strings",
	})
	sS := NewSpace(p, "scripts", c13ScriptCheck)
	sP := NewSpace(p, "parts", c13PartsCheck)
	sA := NewSpace(p, "asm", c13ASMCheck)
	sX := NewSpace(p, "prefix", c13PrefixCheck)
	p.Run = func(r *rep.Run, thorough bool) {
		chk := func(c c13Script) []rep.Finding {
			fs := c13ScriptCheck(c)
			if len(fs) == 0 {
				toks, ok := refTokenize(c.Script)
				r.Distinct("s", len(toks), ok, hasReturnToken(toks), len(c.Script))
			}
			return fs
		}
		sp := &Space[c13Script]{P: p, Name: sS.Name, Check: chk}
		for l := 0; l <= 2; l++ {
			n := uint64(1) << (8 * l)
			ll := l
			sp.Indexed(r, n, func(i uint64) c13Script {
				b := make([]byte, ll)
				for k := ll - 1; k >= 0; k-- {
					b[k] = byte(i)
					i >>= 8
				}
				return c13Script{b}
			})
		}
		if thorough {
			sp.Indexed(r, 1<<24, func(i uint64) c13Script { return c13Script{[]byte{byte(i >> 16), byte(i >> 8), byte(i)}} })
		} else {
			var alpha []byte
			for b := 0; b < 256; b++ {
				if b <= 4 || (b >= 0x4a && b <= 0x53) || (b >= 0x63 && b <= 0x68) || b == 0x6a || b == 0xab || b == 0xac || b == 0xff || b%16 == 7 {
					alpha = append(alpha, byte(b))
				}
			}
			na := uint64(len(alpha))
			sp.Indexed(r, na*na*na, func(i uint64) c13Script {
				return c13Script{[]byte{alpha[i/(na*na)], alpha[i/na%na], alpha[i%na]}}
			})
			r.Note("len3_alphabet", len(alpha))
		}
		// length 4 and 5 over the control-flow / OP_RETURN / push-header alphabet
		ctl := []byte{0x00, 0x01, 0x05, 0x4c, 0x4e, 0x51, 0x63, 0x64, 0x65, 0x66, 0x67, 0x68, 0x6a, 0xac}
		for l := 4; l <= 5; l++ {
			if l == 5 && !thorough {
				break
			}
			n := uint64(1)
			for i := 0; i < l; i++ {
				n *= uint64(len(ctl))
			}
			ll := l
			sp.Indexed(r, n, func(i uint64) c13Script {
				b := make([]byte, ll)
				for k := ll - 1; k >= 0; k-- {
					b[k] = ctl[i%uint64(len(ctl))]
					i /= uint64(len(ctl))
				}
				return c13Script{b}
			})
		}
		// truncations of longer well-formed scripts
		var long [][]byte
		for name, t := range c14Templates() {
			_ = name
			long = append(long, t)
		}
		for _, l := range []int{76, 255, 256, 300} {
			d := fill(l, 0x21)
			long = append(long, append(append(refPrefix(l), d...), 0xac))
			long = append(long, bytes.Join([][]byte{{0x63}, refPrefix(l), d, {0x68, 0x6a}, refPrefix(3), {1, 2, 3}}, nil))
		}
		long = append(long,
			[]byte{0x4e, 3, 0, 0, 0, 1, 2, 3, 0x4d, 2, 0, 9, 9, 0x4c, 1, 7, 0x51},
			[]byte{0x00, 0x63, 0x6a, 0x05, 1, 2, 3, 4, 5, 0x68, 0x6a, 0x4c, 0x02, 1, 2},
			[]byte{0x63, 0x64, 0x65, 0x66, 0x67, 0x68, 0x68, 0x68, 0x68, 0x6a, 0x4e},
		)
		var truncs []c13Script
		for _, t := range long {
			for i := 0; i <= len(t); i++ {
				truncs = append(truncs, c13Script{append([]byte(nil), t[:i]...)})
			}
		}
		sp.Slice(r, truncs)
		r.Note("truncation_cases", len(truncs))
		r.Sample("scripts", c13Script{HB{0x4c, 0x02, 0x01}})

		// parts
		lens := []int{1, 2, 75, 76, 255, 256, 65535, 65536}
		var pcs []c13Parts
		for _, fillb := range []byte{0x00, 0x4c, 0xEE} {
			for _, a := range lens {
				pcs = append(pcs, c13Parts{[]int{a}, fillb})
				for _, b := range lens {
					pcs = append(pcs, c13Parts{[]int{a, b}, fillb})
					for _, c := range lens {
						pcs = append(pcs, c13Parts{[]int{a, b, c}, fillb})
					}
				}
			}
		}
		(&Space[c13Parts]{P: p, Name: sP.Name, Check: func(c c13Parts) []rep.Finding {
			fs := c13PartsCheck(c)
			if len(fs) == 0 {
				r.Distinct("p", fmt.Sprint(c.Lens), c.Fill)
			}
			return fs
		}}).Slice(r, pcs)
		r.Sample("parts", pcs[100])

		// prefixes used as documented
		var xcs []c13Prefix
		for _, l := range c13PrefixLens {
			xcs = append(xcs, c13Prefix{l})
		}
		sX.Slice(r, xcs)

		// asm
		syms := asmSymbols()
		ns := uint64(len(syms))
		maxA := 2
		if thorough {
			maxA = 3
		}
		sa := &Space[c13ASM]{P: p, Name: sA.Name, Check: func(c c13ASM) []rep.Finding {
			fs := c13ASMCheck(c)
			if len(fs) == 0 && !bscript.NewFromBytes(c.Script).IsData() {
				r.Distinct("a", []byte(c.Script))
			}
			return fs
		}}
		for l := 0; l <= maxA; l++ { // l = 0: the empty script, whose rendering is the empty string
			n := uint64(1)
			for i := 0; i < l; i++ {
				n *= ns
			}
			ll := l
			sa.Indexed(r, n, func(i uint64) c13ASM {
				var b []byte
				idx := make([]uint64, ll)
				for k := ll - 1; k >= 0; k-- {
					idx[k] = i % ns
					i /= ns
				}
				for _, k := range idx {
					b = append(b, syms[k]...)
				}
				return c13ASM{b}
			})
		}
		r.Note("asm_symbols", len(syms))
		r.Sample("asm", c13ASM{HB{0x76, 0xa9, 0x02, 0x6a, 0xc1, 0x88}})
	}
}
