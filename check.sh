#!/bin/bash
# check.sh <ID> <quick|thorough>: rebuild the checker against /repo's current
# working tree (replace directive => every edit is picked up) and run it.
set -u
cd "$(dirname "$0")"
export GOFLAGS=-mod=mod GOPROXY=off GOSUMDB=off GOTOOLCHAIN=local
export VERIF_ROOT="$PWD"
ID="$1"; TIER="${2:-quick}"
mkdir -p bin evidence
if ! go build -o bin/vcheck ./cmd/vcheck 2> bin/build.err; then
  echo "BUILD-FAILED (the tree does not compile with the checker; no verdict)"; cat bin/build.err; exit 2
fi
case "$ID" in
  C18) exec ./c18.sh "$TIER" ;;
esac
exec ./bin/vcheck "$ID" "$TIER"
