// Package scriptref is the reference model of Bitcoin SV script evaluation
// (VerifyScript/EvalScript of the node, both eras), written independently of
// the library: value-semantics stacks, arbitrary-precision numbers, one
// instruction at a time. It must reproduce every vector of the node's
// script_tests.json (see Anchor in anchor.go) before it judges the library.
package scriptref

import (
	"bytes"
	"crypto/sha1" //nolint:gosec
	"crypto/sha256"
	"math/big"

	"golang.org/x/crypto/ripemd160" //nolint:staticcheck

	"verif/internal/ref/txref"
)

// Flags use the same bit positions as the library's scriptflag package (they
// are the configuration alphabet, not behaviour).
const (
	P2SH uint32 = 1 << iota
	NullDummy
	DiscourageNops
	CLTV
	CSV
	CleanStack
	DERSig
	LowS
	MinimalData
	NullFail
	SigPushOnly
	ForkID
	StrictEnc
	Bip143
	Genesis
	MinimalIf
)

// TxCtx is the transaction context of the evaluation.
type TxCtx struct {
	Tx     *txref.Tx
	Idx    int
	Amount uint64
}

// Snapshot is the machine state after one processed instruction.
type Snapshot struct {
	Script int // 0 unlocking, 1 locking, 2 redeem (P2SH)
	Op     byte
	Stack  [][]byte
	Alt    [][]byte
	// AltDead: this was the last instruction of its script (or a terminating
	// OP_RETURN); the alt stack is discarded here and its content is not observable.
	AltDead bool
}

// Result of a verification.
type Result struct {
	OK      bool
	Err     string
	Steps   []Snapshot
	UsedSig bool // a signature opcode was executed (its outcome came from SigCheck)
	TooBig  bool // the script asks for an element larger than ResourceCap (not explored)
}

type op struct {
	code byte
	data []byte
	pos  int // offset of the opcode byte
	end  int // offset after the instruction
}

// next reads one instruction; ok=false on a truncated push (BAD_OPCODE).
func next(s []byte, pc int) (o op, ok bool) {
	o.pos = pc
	c := s[pc]
	o.code = c
	pc++
	n := -1
	switch {
	case c >= 1 && c <= 75:
		n = int(c)
	case c == 0x4c:
		if pc+1 > len(s) {
			return o, false
		}
		n = int(s[pc])
		pc++
	case c == 0x4d:
		if pc+2 > len(s) {
			return o, false
		}
		n = int(s[pc]) | int(s[pc+1])<<8
		pc += 2
	case c == 0x4e:
		if pc+4 > len(s) {
			return o, false
		}
		n = int(s[pc]) | int(s[pc+1])<<8 | int(s[pc+2])<<16 | int(s[pc+3])<<24
		pc += 4
	}
	if n >= 0 {
		if n > len(s)-pc {
			return o, false
		}
		o.data = s[pc : pc+n]
		pc += n
	}
	o.end = pc
	return o, true
}

// IsPushOnly: every instruction is a push (<= OP_16) and parses.
func IsPushOnly(s []byte) bool {
	pc := 0
	for pc < len(s) {
		o, ok := next(s, pc)
		if !ok || o.code > 0x60 {
			return false
		}
		pc = o.end
	}
	return true
}

func isP2SH(s []byte) bool {
	return len(s) == 23 && s[0] == 0xa9 && s[1] == 0x14 && s[22] == 0x87
}

// CastToBool: any non-zero byte, except negative zero.
func CastToBool(v []byte) bool {
	for i, b := range v {
		if b != 0 {
			return !(i == len(v)-1 && b == 0x80)
		}
	}
	return false
}

// ---- numbers ----

func isMinimal(v []byte) bool {
	if len(v) == 0 {
		return true
	}
	if v[len(v)-1]&0x7f == 0 {
		if len(v) == 1 || v[len(v)-2]&0x80 == 0 {
			return false
		}
	}
	return true
}

// numDecode: little-endian sign-magnitude.
func numDecode(v []byte) *big.Int {
	if len(v) == 0 {
		return new(big.Int)
	}
	be := make([]byte, len(v))
	for i := range v {
		be[len(v)-1-i] = v[i]
	}
	neg := be[0]&0x80 != 0
	be[0] &= 0x7f
	n := new(big.Int).SetBytes(be)
	if neg {
		n.Neg(n)
	}
	return n
}

// NumEncode is the minimal CScriptNum serialisation.
func NumEncode(n *big.Int) []byte {
	if n.Sign() == 0 {
		return []byte{}
	}
	be := new(big.Int).Abs(n).Bytes()
	le := make([]byte, len(be), len(be)+1)
	for i := range be {
		le[len(be)-1-i] = be[i]
	}
	if le[len(le)-1]&0x80 != 0 {
		if n.Sign() < 0 {
			le = append(le, 0x80)
		} else {
			le = append(le, 0x00)
		}
	} else if n.Sign() < 0 {
		le[len(le)-1] |= 0x80
	}
	return le
}

func minimallyEncode(in []byte) []byte {
	return NumEncode(numDecode(in))
}

func checkMinimalPush(data []byte, opc byte) bool {
	switch {
	case len(data) == 0:
		return opc == 0x00
	case len(data) == 1 && data[0] >= 1 && data[0] <= 16:
		return opc == 0x50+data[0]
	case len(data) == 1 && data[0] == 0x81:
		return opc == 0x4f
	case len(data) <= 75:
		return int(opc) == len(data)
	case len(data) <= 255:
		return opc == 0x4c
	case len(data) <= 65535:
		return opc == 0x4d
	}
	return true
}

// ResourceCap bounds the element size the explorer is willing to materialise
// (the post-Genesis rules allow gigabyte elements; the checker does not follow).
const ResourceCap = 70000

// SigCheck decides CHECKSIG for the reference: see sigops.go. nil = scripts that
// execute a signature opcode are reported with UsedSig and a false signature result.
type SigCheck func(sig, pubkey, scriptCode []byte, flags uint32, ctx *TxCtx) bool

type machine struct {
	partial  bool   // explore mode: the locking script is a prefix; keep its end state
	endState string // canonical state at the end of the prefix
	returned bool   // a top-level OP_RETURN ended the script
	flags    uint32
	genesis  bool
	ctx      *TxCtx
	sigchk   SigCheck
	trace    bool
	res      *Result
	maxNum   int
}

func cp(b []byte) []byte { return append([]byte{}, b...) }

func cpStack(s [][]byte) [][]byte {
	o := make([][]byte, len(s))
	for i := range s {
		o[i] = cp(s[i])
	}
	return o
}

var (
	vTrue  = []byte{1}
	vFalse = []byte{}
)

func boolv(b bool) []byte {
	if b {
		return cp(vTrue)
	}
	return cp(vFalse)
}

const (
	maxElemBefore   = 520
	maxOpsBefore    = 500
	maxStackBefore  = 1000
	maxScriptBefore = 10000
	maxKeysBefore   = 20
)

func (m *machine) fail(e string) bool {
	if m.res.Err == "" {
		m.res.Err = e
	}
	return false
}

// eval runs one script on stack; returns false on error (m.res.Err set).
func (m *machine) eval(stack *[][]byte, script []byte, which int) bool {
	if !m.genesis && len(script) > maxScriptBefore {
		return m.fail("SCRIPT_SIZE")
	}
	st := *stack
	defer func() { *stack = st }()
	var alt [][]byte
	var vfExec, vfElse []bool
	nOps := 0
	nonTopLevelReturn := false
	codeHashBegin := 0
	minimal := m.flags&MinimalData != 0
	top := func(i int) []byte { return st[len(st)+i] }
	pop := func() { st = st[:len(st)-1] }
	push := func(v []byte) { st = append(st, v) }
	num := func(v []byte, max int) (*big.Int, bool) {
		if len(v) > max {
			m.fail("SCRIPTNUM_OVERFLOW")
			return nil, false
		}
		if minimal && !isMinimal(v) {
			m.fail("SCRIPTNUM_MINENCODE")
			return nil, false
		}
		return numDecode(v), true
	}
	pc := 0
	for pc < len(script) {
		o, ok := next(script, pc)
		if !ok {
			return m.fail("BAD_OPCODE")
		}
		pc = o.end
		opc := o.code
		fExec := true
		for _, b := range vfExec {
			if !b {
				fExec = false
			}
		}
		fExec = fExec && (!nonTopLevelReturn || opc == 0x6a)
		if !m.genesis && len(o.data) > maxElemBefore {
			return m.fail("PUSH_SIZE")
		}
		if opc > 0x60 {
			nOps++
			if !m.genesis && nOps > maxOpsBefore {
				return m.fail("OP_COUNT")
			}
		}
		if (opc == 0x8d || opc == 0x8e) && (!m.genesis || fExec) {
			return m.fail("DISABLED_OPCODE")
		}
		if fExec && opc <= 0x4e {
			if minimal && !checkMinimalPush(o.data, opc) {
				return m.fail("MINIMALDATA")
			}
			push(cp(o.data))
		} else if fExec || (opc >= 0x63 && opc <= 0x68) {
			switch {
			case opc == 0x4f || (opc >= 0x51 && opc <= 0x60):
				push(NumEncode(big.NewInt(int64(opc) - 0x50)))
			case opc == 0x61: // NOP
			case opc == 0xb1: // CLTV
				if m.flags&CLTV == 0 || m.genesis {
					if m.flags&DiscourageNops != 0 {
						return m.fail("DISCOURAGE_UPGRADABLE_NOPS")
					}
					break
				}
				if len(st) < 1 {
					return m.fail("INVALID_STACK_OPERATION")
				}
				n, ok := num(top(-1), 5)
				if !ok {
					return false
				}
				if n.Sign() < 0 {
					return m.fail("NEGATIVE_LOCKTIME")
				}
				if !m.checkLockTime(n) {
					return m.fail("UNSATISFIED_LOCKTIME")
				}
			case opc == 0xb2: // CSV
				if m.flags&CSV == 0 || m.genesis {
					if m.flags&DiscourageNops != 0 {
						return m.fail("DISCOURAGE_UPGRADABLE_NOPS")
					}
					break
				}
				if len(st) < 1 {
					return m.fail("INVALID_STACK_OPERATION")
				}
				n, ok := num(top(-1), 5)
				if !ok {
					return false
				}
				if n.Sign() < 0 {
					return m.fail("NEGATIVE_LOCKTIME")
				}
				if n.Bit(31) != 0 {
					break
				}
				if !m.checkSequence(n) {
					return m.fail("UNSATISFIED_LOCKTIME")
				}
			case opc == 0xb0 || (opc >= 0xb3 && opc <= 0xb9): // NOP1, NOP4..NOP10
				if m.flags&DiscourageNops != 0 {
					return m.fail("DISCOURAGE_UPGRADABLE_NOPS")
				}
			case opc == 0x63 || opc == 0x64: // IF NOTIF
				v := false
				if fExec {
					if len(st) < 1 {
						return m.fail("UNBALANCED_CONDITIONAL")
					}
					t := top(-1)
					if m.flags&MinimalIf != 0 {
						if len(t) > 1 || (len(t) == 1 && t[0] != 1) {
							return m.fail("MINIMALIF")
						}
					}
					v = CastToBool(t)
					if opc == 0x64 {
						v = !v
					}
					pop()
				}
				vfExec = append(vfExec, v)
				vfElse = append(vfElse, false)
			case opc == 0x65 || opc == 0x66: // VERIF VERNOTIF
				if m.genesis && !fExec {
					break
				}
				return m.fail("BAD_OPCODE")
			case opc == 0x67: // ELSE
				if len(vfExec) == 0 || (vfElse[len(vfElse)-1] && m.genesis) {
					return m.fail("UNBALANCED_CONDITIONAL")
				}
				vfExec[len(vfExec)-1] = !vfExec[len(vfExec)-1]
				vfElse[len(vfElse)-1] = true
			case opc == 0x68: // ENDIF
				if len(vfExec) == 0 {
					return m.fail("UNBALANCED_CONDITIONAL")
				}
				vfExec = vfExec[:len(vfExec)-1]
				vfElse = vfElse[:len(vfElse)-1]
			case opc == 0x69: // VERIFY
				if len(st) < 1 {
					return m.fail("INVALID_STACK_OPERATION")
				}
				if !CastToBool(top(-1)) {
					return m.fail("VERIFY")
				}
				pop()
			case opc == 0x6a: // RETURN
				if !m.genesis {
					return m.fail("OP_RETURN")
				}
				if len(vfExec) == 0 {
					// successful termination; nothing after it matters (the alt stack dies with the script)
					m.snap(which, opc, st, alt)
					if m.trace {
						m.res.Steps[len(m.res.Steps)-1].AltDead = true
					}
					m.returned = true
					return true
				}
				nonTopLevelReturn = true
			case opc == 0x6b: // TOALTSTACK
				if len(st) < 1 {
					return m.fail("INVALID_STACK_OPERATION")
				}
				alt = append(alt, top(-1))
				pop()
			case opc == 0x6c: // FROMALTSTACK
				if len(alt) < 1 {
					return m.fail("INVALID_ALTSTACK_OPERATION")
				}
				push(alt[len(alt)-1])
				alt = alt[:len(alt)-1]
			case opc == 0x6d: // 2DROP
				if len(st) < 2 {
					return m.fail("INVALID_STACK_OPERATION")
				}
				pop()
				pop()
			case opc == 0x6e: // 2DUP
				if len(st) < 2 {
					return m.fail("INVALID_STACK_OPERATION")
				}
				a, b := cp(top(-2)), cp(top(-1))
				push(a)
				push(b)
			case opc == 0x6f: // 3DUP
				if len(st) < 3 {
					return m.fail("INVALID_STACK_OPERATION")
				}
				a, b, c := cp(top(-3)), cp(top(-2)), cp(top(-1))
				push(a)
				push(b)
				push(c)
			case opc == 0x70: // 2OVER
				if len(st) < 4 {
					return m.fail("INVALID_STACK_OPERATION")
				}
				a, b := cp(top(-4)), cp(top(-3))
				push(a)
				push(b)
			case opc == 0x71: // 2ROT
				if len(st) < 6 {
					return m.fail("INVALID_STACK_OPERATION")
				}
				a, b := top(-6), top(-5)
				st = append(st[:len(st)-6], st[len(st)-4:]...)
				push(a)
				push(b)
			case opc == 0x72: // 2SWAP
				if len(st) < 4 {
					return m.fail("INVALID_STACK_OPERATION")
				}
				n := len(st)
				st[n-4], st[n-2] = st[n-2], st[n-4]
				st[n-3], st[n-1] = st[n-1], st[n-3]
			case opc == 0x73: // IFDUP
				if len(st) < 1 {
					return m.fail("INVALID_STACK_OPERATION")
				}
				if CastToBool(top(-1)) {
					push(cp(top(-1)))
				}
			case opc == 0x74: // DEPTH
				push(NumEncode(big.NewInt(int64(len(st)))))
			case opc == 0x75: // DROP
				if len(st) < 1 {
					return m.fail("INVALID_STACK_OPERATION")
				}
				pop()
			case opc == 0x76: // DUP
				if len(st) < 1 {
					return m.fail("INVALID_STACK_OPERATION")
				}
				push(cp(top(-1)))
			case opc == 0x77: // NIP
				if len(st) < 2 {
					return m.fail("INVALID_STACK_OPERATION")
				}
				st = append(st[:len(st)-2], st[len(st)-1])
			case opc == 0x78: // OVER
				if len(st) < 2 {
					return m.fail("INVALID_STACK_OPERATION")
				}
				push(cp(top(-2)))
			case opc == 0x79 || opc == 0x7a: // PICK ROLL
				if len(st) < 2 {
					return m.fail("INVALID_STACK_OPERATION")
				}
				n, ok := num(top(-1), m.maxNum)
				if !ok {
					return false
				}
				pop()
				if n.Sign() < 0 || n.Cmp(big.NewInt(int64(len(st)))) >= 0 {
					return m.fail("INVALID_STACK_OPERATION")
				}
				k := len(st) - 1 - int(n.Int64())
				v := st[k]
				if opc == 0x7a {
					st = append(st[:k], st[k+1:]...)
					push(v)
				} else {
					push(cp(v))
				}
			case opc == 0x7b: // ROT
				if len(st) < 3 {
					return m.fail("INVALID_STACK_OPERATION")
				}
				n := len(st)
				st[n-3], st[n-2], st[n-1] = st[n-2], st[n-1], st[n-3]
			case opc == 0x7c: // SWAP
				if len(st) < 2 {
					return m.fail("INVALID_STACK_OPERATION")
				}
				n := len(st)
				st[n-2], st[n-1] = st[n-1], st[n-2]
			case opc == 0x7d: // TUCK
				if len(st) < 2 {
					return m.fail("INVALID_STACK_OPERATION")
				}
				n := len(st)
				a, b := st[n-2], st[n-1]
				st = append(st[:n-2], cp(b), a, b)
			case opc == 0x7e: // CAT
				if len(st) < 2 {
					return m.fail("INVALID_STACK_OPERATION")
				}
				a, b := top(-2), top(-1)
				if !m.genesis && len(a)+len(b) > maxElemBefore {
					return m.fail("PUSH_SIZE")
				}
				c := append(cp(a), b...)
				pop()
				pop()
				push(c)
			case opc == 0x7f: // SPLIT
				if len(st) < 2 {
					return m.fail("INVALID_STACK_OPERATION")
				}
				data := top(-2)
				n, ok := num(top(-1), m.maxNum)
				if !ok {
					return false
				}
				if n.Sign() < 0 || n.Cmp(big.NewInt(int64(len(data)))) > 0 {
					return m.fail("SPLIT_RANGE")
				}
				k := int(n.Int64())
				a, b := cp(data[:k]), cp(data[k:])
				pop()
				pop()
				push(a)
				push(b)
			case opc == 0x80: // NUM2BIN
				if len(st) < 2 {
					return m.fail("INVALID_STACK_OPERATION")
				}
				n, ok := num(top(-1), m.maxNum)
				if !ok {
					return false
				}
				if n.Sign() < 0 || (!m.genesis && n.Cmp(big.NewInt(maxElemBefore)) > 0) || n.Cmp(big.NewInt(1<<31-1)) > 0 {
					return m.fail("NUMBER_SIZE")
				}
				size := int(n.Int64())
				if size > ResourceCap {
					m.res.TooBig = true
					return m.fail("RESOURCE_CAP")
				}
				pop()
				raw := minimallyEncode(top(-1))
				if len(raw) > size {
					return m.fail("IMPOSSIBLE_ENCODING")
				}
				if len(raw) < size {
					sign := byte(0)
					if len(raw) > 0 {
						sign = raw[len(raw)-1] & 0x80
						raw[len(raw)-1] &= 0x7f
					}
					for len(raw) < size-1 {
						raw = append(raw, 0)
					}
					raw = append(raw, sign)
				}
				pop()
				push(raw)
			case opc == 0x81: // BIN2NUM
				if len(st) < 1 {
					return m.fail("INVALID_STACK_OPERATION")
				}
				v := minimallyEncode(top(-1))
				if len(v) > m.maxNum {
					return m.fail("INVALID_NUMBER_RANGE")
				}
				pop()
				push(v)
			case opc == 0x82: // SIZE
				if len(st) < 1 {
					return m.fail("INVALID_STACK_OPERATION")
				}
				push(NumEncode(big.NewInt(int64(len(top(-1))))))
			case opc == 0x83: // INVERT
				if len(st) < 1 {
					return m.fail("INVALID_STACK_OPERATION")
				}
				v := cp(top(-1))
				for i := range v {
					v[i] = ^v[i]
				}
				pop()
				push(v)
			case opc == 0x84 || opc == 0x85 || opc == 0x86: // AND OR XOR
				if len(st) < 2 {
					return m.fail("INVALID_STACK_OPERATION")
				}
				a, b := top(-2), top(-1)
				if len(a) != len(b) {
					return m.fail("OPERAND_SIZE")
				}
				c := make([]byte, len(a))
				for i := range a {
					switch opc {
					case 0x84:
						c[i] = a[i] & b[i]
					case 0x85:
						c[i] = a[i] | b[i]
					default:
						c[i] = a[i] ^ b[i]
					}
				}
				pop()
				pop()
				push(c)
			case opc == 0x87 || opc == 0x88: // EQUAL EQUALVERIFY
				if len(st) < 2 {
					return m.fail("INVALID_STACK_OPERATION")
				}
				eq := bytes.Equal(top(-2), top(-1))
				pop()
				pop()
				if opc == 0x88 {
					if !eq {
						return m.fail("EQUALVERIFY")
					}
				} else {
					push(boolv(eq))
				}
			case opc == 0x8b || opc == 0x8c || opc == 0x8f || opc == 0x90 || opc == 0x91 || opc == 0x92: // unary numeric
				if len(st) < 1 {
					return m.fail("INVALID_STACK_OPERATION")
				}
				n, ok := num(top(-1), m.maxNum)
				if !ok {
					return false
				}
				r := new(big.Int)
				switch opc {
				case 0x8b:
					r.Add(n, big.NewInt(1))
				case 0x8c:
					r.Sub(n, big.NewInt(1))
				case 0x8f:
					r.Neg(n)
				case 0x90:
					r.Abs(n)
				case 0x91:
					if n.Sign() == 0 {
						r.SetInt64(1)
					}
				case 0x92:
					if n.Sign() != 0 {
						r.SetInt64(1)
					}
				}
				pop()
				push(NumEncode(r))
			case opc == 0x98 || opc == 0x99: // LSHIFT RSHIFT
				if len(st) < 2 {
					return m.fail("INVALID_STACK_OPERATION")
				}
				n, ok := num(top(-1), m.maxNum)
				if !ok {
					return false
				}
				if n.Sign() < 0 {
					return m.fail("INVALID_NUMBER_RANGE")
				}
				v := top(-2)
				r := make([]byte, len(v))
				if n.Cmp(big.NewInt(int64(8*len(v)))) < 0 {
					x := new(big.Int).SetBytes(v)
					k := uint(n.Int64())
					if opc == 0x98 {
						x.Lsh(x, k)
						mask := new(big.Int).Lsh(big.NewInt(1), uint(8*len(v)))
						x.And(x, mask.Sub(mask, big.NewInt(1)))
					} else {
						x.Rsh(x, k)
					}
					x.FillBytes(r)
				}
				pop()
				pop()
				push(r)
			case opc >= 0x93 && opc <= 0xa4 && opc != 0x98 && opc != 0x99: // binary numeric
				if len(st) < 2 {
					return m.fail("INVALID_STACK_OPERATION")
				}
				a, ok := num(top(-2), m.maxNum)
				if !ok {
					return false
				}
				b, ok := num(top(-1), m.maxNum)
				if !ok {
					return false
				}
				r := new(big.Int)
				bl := func(x bool) {
					if x {
						r.SetInt64(1)
					}
				}
				switch opc {
				case 0x93:
					r.Add(a, b)
				case 0x94:
					r.Sub(a, b)
				case 0x95:
					r.Mul(a, b)
				case 0x96:
					if b.Sign() == 0 {
						return m.fail("DIV_BY_ZERO")
					}
					r.Quo(a, b)
				case 0x97:
					if b.Sign() == 0 {
						return m.fail("MOD_BY_ZERO")
					}
					r.Rem(a, b)
				case 0x9a:
					bl(a.Sign() != 0 && b.Sign() != 0)
				case 0x9b:
					bl(a.Sign() != 0 || b.Sign() != 0)
				case 0x9c, 0x9d:
					bl(a.Cmp(b) == 0)
				case 0x9e:
					bl(a.Cmp(b) != 0)
				case 0x9f:
					bl(a.Cmp(b) < 0)
				case 0xa0:
					bl(a.Cmp(b) > 0)
				case 0xa1:
					bl(a.Cmp(b) <= 0)
				case 0xa2:
					bl(a.Cmp(b) >= 0)
				case 0xa3:
					if a.Cmp(b) < 0 {
						r.Set(a)
					} else {
						r.Set(b)
					}
				case 0xa4:
					if a.Cmp(b) > 0 {
						r.Set(a)
					} else {
						r.Set(b)
					}
				}
				pop()
				pop()
				push(NumEncode(r))
				if opc == 0x9d {
					if CastToBool(top(-1)) {
						pop()
					} else {
						return m.fail("NUMEQUALVERIFY")
					}
				}
			case opc == 0xa5: // WITHIN
				if len(st) < 3 {
					return m.fail("INVALID_STACK_OPERATION")
				}
				x, ok := num(top(-3), m.maxNum)
				if !ok {
					return false
				}
				lo, ok := num(top(-2), m.maxNum)
				if !ok {
					return false
				}
				hi, ok := num(top(-1), m.maxNum)
				if !ok {
					return false
				}
				pop()
				pop()
				pop()
				push(boolv(lo.Cmp(x) <= 0 && x.Cmp(hi) < 0))
			case opc >= 0xa6 && opc <= 0xaa: // hashes
				if len(st) < 1 {
					return m.fail("INVALID_STACK_OPERATION")
				}
				v := top(-1)
				var h []byte
				switch opc {
				case 0xa6:
					r := ripemd160.New()
					r.Write(v)
					h = r.Sum(nil)
				case 0xa7:
					x := sha1.Sum(v) //nolint:gosec
					h = x[:]
				case 0xa8:
					x := sha256.Sum256(v)
					h = x[:]
				case 0xa9:
					x := sha256.Sum256(v)
					r := ripemd160.New()
					r.Write(x[:])
					h = r.Sum(nil)
				case 0xaa:
					x := sha256.Sum256(v)
					x = sha256.Sum256(x[:])
					h = x[:]
				}
				pop()
				push(h)
			case opc == 0xab: // CODESEPARATOR
				codeHashBegin = pc
			case opc == 0xac || opc == 0xad: // CHECKSIG(VERIFY)
				if len(st) < 2 {
					return m.fail("INVALID_STACK_OPERATION")
				}
				m.res.UsedSig = true
				sig, key := top(-2), top(-1)
				if e := checkSignatureEncoding(sig, m.flags); e != "" {
					return m.fail(e)
				}
				if e := checkPubKeyEncoding(key, m.flags); e != "" {
					return m.fail(e)
				}
				code := cleanupScriptCode(script[codeHashBegin:], sig, m.flags)
				okSig := m.sigchk != nil && m.sigchk(sig, key, code, m.flags, m.ctx)
				if !okSig && m.flags&NullFail != 0 && len(sig) > 0 {
					return m.fail("NULLFAIL")
				}
				pop()
				pop()
				push(boolv(okSig))
				if opc == 0xad {
					if okSig {
						pop()
					} else {
						return m.fail("CHECKSIGVERIFY")
					}
				}
			case opc == 0xae || opc == 0xaf: // CHECKMULTISIG(VERIFY)
				m.res.UsedSig = true
				i := 1
				if len(st) < i {
					return m.fail("INVALID_STACK_OPERATION")
				}
				nk, ok := num(top(-i), m.maxNum)
				if !ok {
					return false
				}
				if nk.Sign() < 0 || (!m.genesis && nk.Cmp(big.NewInt(maxKeysBefore)) > 0) || !nk.IsInt64() || nk.Int64() > 1<<31-1 {
					return m.fail("PUBKEY_COUNT")
				}
				nKeys := int(nk.Int64())
				nOps += nKeys
				if !m.genesis && nOps > maxOpsBefore {
					return m.fail("OP_COUNT")
				}
				i++
				ikey := i
				ikey2 := nKeys + 2
				i += nKeys
				if len(st) < i {
					return m.fail("INVALID_STACK_OPERATION")
				}
				ns, ok := num(top(-i), m.maxNum)
				if !ok {
					return false
				}
				if ns.Sign() < 0 || ns.Cmp(big.NewInt(int64(nKeys))) > 0 {
					return m.fail("SIG_COUNT")
				}
				nSigs := int(ns.Int64())
				i++
				isig := i
				i += nSigs
				if len(st) < i {
					return m.fail("INVALID_STACK_OPERATION")
				}
				code := script[codeHashBegin:]
				for k := 0; k < nSigs; k++ {
					code = cleanupScriptCode(code, top(-isig-k), m.flags)
				}
				success := true
				for success && nSigs > 0 {
					sig, key := top(-isig), top(-ikey)
					if e := checkSignatureEncoding(sig, m.flags); e != "" {
						return m.fail(e)
					}
					if e := checkPubKeyEncoding(key, m.flags); e != "" {
						return m.fail(e)
					}
					if m.sigchk != nil && m.sigchk(sig, key, code, m.flags, m.ctx) {
						isig++
						nSigs--
					}
					ikey++
					nKeys--
					if nSigs > nKeys {
						success = false
					}
				}
				for ; i > 1; i-- {
					if !success && m.flags&NullFail != 0 && ikey2 == 0 && len(top(-1)) > 0 {
						return m.fail("NULLFAIL")
					}
					if ikey2 > 0 {
						ikey2--
					}
					pop()
				}
				if len(st) < 1 {
					return m.fail("INVALID_STACK_OPERATION")
				}
				if m.flags&NullDummy != 0 && len(top(-1)) > 0 {
					return m.fail("SIG_NULLDUMMY")
				}
				pop()
				push(boolv(success))
				if opc == 0xaf {
					if success {
						pop()
					} else {
						return m.fail("CHECKMULTISIGVERIFY")
					}
				}
			default:
				return m.fail("BAD_OPCODE")
			}
		}
		if !m.genesis && len(st)+len(alt) > maxStackBefore {
			return m.fail("STACK_SIZE")
		}
		m.snap(which, opc, st, alt)
		if pc >= len(script) && m.trace {
			// the alt stack does not survive the script
			m.res.Steps[len(m.res.Steps)-1].AltDead = true
		}
	}
	if m.partial && which == 1 {
		var b bytes.Buffer
		for _, v := range st {
			b.WriteString("s")
			b.Write(v)
			b.WriteByte(0xfe)
		}
		b.WriteString("|")
		for _, v := range alt {
			b.WriteString("a")
			b.Write(v)
			b.WriteByte(0xfe)
		}
		for i := range vfExec {
			if vfExec[i] {
				b.WriteString("T")
			} else {
				b.WriteString("F")
			}
			if vfElse[i] {
				b.WriteString("e")
			}
		}
		if nonTopLevelReturn {
			b.WriteString("|R")
		}
		m.endState = b.String()
		return true
	}
	if len(vfExec) != 0 {
		return m.fail("UNBALANCED_CONDITIONAL")
	}
	return true
}

// Explore evaluates unlock and then lockPrefix as the beginning of a locking
// script. alive=false when the prefix already failed or ended through a
// top-level OP_RETURN; otherwise key is the canonical machine state (data stack,
// alt stack, condition stack with else marks, dead-code flag) from which every
// continuation behaves identically.
func Explore(unlock, lockPrefix []byte, flags uint32, ctx *TxCtx) (key string, alive bool) {
	res := &Result{}
	m := &machine{flags: flags, genesis: flags&Genesis != 0, ctx: ctx, res: res, maxNum: 4, partial: true}
	if m.genesis {
		m.maxNum = 750000
	}
	if flags&SigPushOnly != 0 && !IsPushOnly(unlock) {
		return "", false
	}
	var stack [][]byte
	if !m.eval(&stack, unlock, 0) {
		return "", false
	}
	m.returned = false
	if !m.eval(&stack, lockPrefix, 1) || m.returned || res.UsedSig {
		return "", false
	}
	return m.endState, true
}

func (m *machine) snap(which int, opc byte, st, alt [][]byte) {
	if !m.trace {
		return
	}
	m.res.Steps = append(m.res.Steps, Snapshot{Script: which, Op: opc, Stack: cpStack(st), Alt: cpStack(alt)})
}

const lockTimeThreshold = 500000000

func (m *machine) checkLockTime(n *big.Int) bool {
	if m.ctx == nil {
		return false
	}
	txLT := int64(m.ctx.Tx.LockTime)
	if !n.IsInt64() {
		return false
	}
	lt := n.Int64()
	if !((txLT < lockTimeThreshold && lt < lockTimeThreshold) || (txLT >= lockTimeThreshold && lt >= lockTimeThreshold)) {
		return false
	}
	if lt > txLT {
		return false
	}
	return m.ctx.Tx.Ins[m.ctx.Idx].Seq != 0xffffffff
}

func (m *machine) checkSequence(n *big.Int) bool {
	if m.ctx == nil {
		return false
	}
	seq := n.Int64()
	txSeq := int64(m.ctx.Tx.Ins[m.ctx.Idx].Seq)
	if m.ctx.Tx.Version < 2 {
		return false
	}
	if txSeq&(1<<31) != 0 {
		return false
	}
	const typeFlag, mask = 1 << 22, 0x0000ffff
	a, b := txSeq&(typeFlag|mask), seq&(typeFlag|mask)
	if !((a < typeFlag && b < typeFlag) || (a >= typeFlag && b >= typeFlag)) {
		return false
	}
	return b <= a
}

// Verify is VerifyScript.
func Verify(unlock, lock []byte, flags uint32, ctx *TxCtx, sigchk SigCheck, trace bool) *Result {
	res := &Result{}
	m := &machine{flags: flags, genesis: flags&Genesis != 0, ctx: ctx, sigchk: sigchk, trace: trace, res: res, maxNum: 4}
	if m.genesis {
		m.maxNum = 750000
	}
	if flags&ForkID != 0 {
		m.flags |= StrictEnc
	}
	if flags&SigPushOnly != 0 && !IsPushOnly(unlock) {
		res.Err = "SIG_PUSHONLY"
		return res
	}
	var stack [][]byte
	if !m.eval(&stack, unlock, 0) {
		return res
	}
	var stackCopy [][]byte
	if flags&P2SH != 0 {
		stackCopy = cpStack(stack)
	}
	if !m.eval(&stack, lock, 1) {
		return res
	}
	if len(stack) == 0 || !CastToBool(stack[len(stack)-1]) {
		res.Err = "EVAL_FALSE"
		return res
	}
	if flags&P2SH != 0 && !m.genesis && isP2SH(lock) {
		if !IsPushOnly(unlock) {
			res.Err = "SIG_PUSHONLY"
			return res
		}
		stack = stackCopy
		if len(stack) == 0 {
			res.Err = "EVAL_FALSE" // cannot happen: the lock script needed an item
			return res
		}
		redeem := stack[len(stack)-1]
		stack = stack[:len(stack)-1]
		if m.trace && len(res.Steps) > 0 {
			// the stack is now the saved one without the redeem script
			res.Steps[len(res.Steps)-1].Stack = cpStack(stack)
		}
		if !m.eval(&stack, redeem, 2) {
			return res
		}
		if len(stack) == 0 || !CastToBool(stack[len(stack)-1]) {
			res.Err = "EVAL_FALSE"
			return res
		}
	}
	if flags&CleanStack != 0 {
		if flags&P2SH == 0 {
			res.Err = "INVALID_FLAGS"
			return res
		}
		if len(stack) != 1 {
			res.Err = "CLEANSTACK"
			return res
		}
	}
	res.OK = true
	return res
}
