package props

import (
	"bytes"
	"encoding/hex"
	"encoding/json"
	"fmt"
	"io"
	"runtime"
	"runtime/debug"
	"sync"

	"github.com/libsv/go-bt/v2"

	"verif/internal/ref/txref"
	"verif/internal/rep"
	"verif/internal/worker"
)

// ---- case families (index -> case), built once per process ----

type c09Case struct {
	Kind string `json:"kind"` // "bin" or "json"
	Data HB     `json:"data"`
	Note string `json:"note,omitempty"`
}

type family struct {
	n   uint64
	get func(j uint64) c09Case
}

type c09Table struct {
	fams []family
	n    uint64
}

func (t *c09Table) add(n int, get func(j uint64) c09Case) {
	if n > 0 {
		t.fams = append(t.fams, family{uint64(n), get})
		t.n += uint64(n)
	}
}

func (t *c09Table) at(i uint64) c09Case {
	for _, f := range t.fams {
		if i < f.n {
			return f.get(i)
		}
		i -= f.n
	}
	panic("index out of range")
}

var c09Claims = []uint64{0xfc, 253, 65535, 65536, 1 << 24, 1 << 31, 1<<32 - 1, 1 << 32, 1 << 40, 1 << 63, ^uint64(0)}

func claimBytes(v uint64) []byte {
	// widest natural class for the value
	return txref.VarInt(v)
}

// varint positions of a reference serialisation
func varintOffsets(t *txref.Tx, ext bool) (b []byte, offs []int, widths []int) {
	// serialise twice: once normally, and find offsets by re-walking with the reference parser's structure
	b = t.Bytes(ext)
	i := 4
	if ext {
		i += 6
	}
	vi := func() uint64 {
		offs = append(offs, i)
		w := 1
		var v uint64
		switch b[i] {
		case 0xfd:
			w = 3
			v = uint64(b[i+1]) | uint64(b[i+2])<<8
		case 0xfe:
			w = 5
			v = uint64(b[i+1]) | uint64(b[i+2])<<8 | uint64(b[i+3])<<16 | uint64(b[i+4])<<24
		case 0xff:
			w = 9
		default:
			v = uint64(b[i])
		}
		widths = append(widths, w)
		i += w
		return v
	}
	nin := vi()
	for k := uint64(0); k < nin; k++ {
		i += 36
		l := vi()
		i += int(l) + 4
		if ext {
			i += 8
			l := vi()
			i += int(l)
		}
	}
	nout := vi()
	for k := uint64(0); k < nout; k++ {
		i += 8
		l := vi()
		i += int(l)
	}
	return
}

func c09Seeds(thorough bool) (out [][3]any) {
	var rcs []txRecipe
	for nin := 0; nin <= 2; nin++ {
		for nout := 0; nout <= 2; nout++ {
			rcs = append(rcs, txRecipe{V: 1, LT: 0x11223344, NIn: nin, NOut: nout, Vout: 1, Seq: 0xfffffffe, SLen: 2, PrevSats: 5000, PrevLen: 3, Sats: 1234, OLen: 2})
		}
	}
	rcs = append(rcs,
		txRecipe{V: 2, LT: 0, NIn: 1, NOut: 1, SLen: 0, PrevLen: -1, Sats: 1, OLen: 0, Seq: 0xffffffff},
		txRecipe{V: 1, LT: 0, NIn: 1, NOut: 1, SLen: 253, PrevLen: 25, Sats: 1, OLen: 25, Seq: 0xffffffff},
	)
	if thorough {
		rcs = append(rcs, txRecipe{V: 1, LT: 0, NIn: 3, NOut: 3, SLen: 5, PrevLen: 25, Sats: 9, OLen: 25, Seq: 1},
			txRecipe{V: 1, LT: 0xEF000000, NIn: 1, NOut: 0, SLen: 1, PrevLen: 1, Seq: 1})
	}
	for _, rc := range rcs {
		t := rc.build()
		if t.Ambiguous() {
			continue
		}
		for _, ext := range []bool{false, true} {
			out = append(out, [3]any{t, ext, fmt.Sprintf("nin=%d nout=%d ext=%v", rc.NIn, rc.NOut, ext)})
		}
	}
	return
}

var (
	c09Once [2]sync.Once
	c09Tabs [2]*c09Table
)

func c09Tab(thorough bool) *c09Table {
	ti := 0
	if thorough {
		ti = 1
	}
	c09Once[ti].Do(func() {
		t := &c09Table{}
		for _, sd := range c09Seeds(thorough) {
			rt, ext, note := sd[0].(*txref.Tx), sd[1].(bool), sd[2].(string)
			b, offs, widths := varintOffsets(rt, ext)
			// truncations
			t.add(len(b)+1, func(j uint64) c09Case { return c09Case{"bin", append([]byte(nil), b[:j]...), "trunc " + note} })
			// bit flips
			t.add(len(b)*8, func(j uint64) c09Case {
				m := append([]byte(nil), b...)
				m[j/8] ^= 1 << (j % 8)
				return c09Case{"bin", m, "flip " + note}
			})
			// the complete transaction followed by surplus bytes
			t.add(4, func(j uint64) c09Case {
				extra := [][]byte{{0x00}, {0xff}, {0x01, 0x00, 0x00, 0x00}, b}[j]
				return c09Case{"bin", append(append([]byte(nil), b...), extra...), "surplus " + note}
			})
			// every byte replaced by every value
			t.add(len(b)*255, func(j uint64) c09Case {
				m := append([]byte(nil), b...)
				pos, d := j/255, byte(j%255)+1
				m[pos] ^= d
				return c09Case{"bin", m, "byte " + note}
			})
			// length-field claims: keep tail / cut after field / keep only 1 more byte
			nf := len(offs) * len(c09Claims) * 3
			t.add(nf, func(j uint64) c09Case {
				mode := j % 3
				j /= 3
				cl := c09Claims[j%uint64(len(c09Claims))]
				k := j / uint64(len(c09Claims))
				m := append([]byte(nil), b[:offs[k]]...)
				m = append(m, claimBytes(cl)...)
				switch mode {
				case 0:
					m = append(m, b[offs[k]+widths[k]:]...)
				case 1:
				case 2:
					m = append(m, 0x00)
				}
				return c09Case{"bin", m, fmt.Sprintf("claim %d at field %d %s", cl, k, note)}
			})
			// tx-list with claimed count in front of this tx
			t.add(len(c09Claims)*2, func(j uint64) c09Case {
				cl := c09Claims[j/2]
				m := append([]byte(nil), claimBytes(cl)...)
				if j%2 == 0 {
					m = append(m, b...)
				}
				return c09Case{"bin", m, fmt.Sprintf("list count %d %s", cl, note)}
			})
			// short varints: every prefix of each wide class at the first length field
			t.add(3*9, func(j uint64) c09Case {
				cls := []byte{0xfd, 0xfe, 0xff}[j/9]
				k := int(j % 9)
				m := append([]byte(nil), b[:offs[0]]...)
				m = append(m, cls)
				m = append(m, bytes.Repeat([]byte{0x01}, k)...)
				return c09Case{"bin", m, "short varint " + note}
			})
		}
		// inflated claims followed by K real payload bytes (K around the decoder's chunk sizes, and 1 and 3 MiB: growth that is not geometric shows in the cumulative allocation)
		ks := []int{1, 4095, 4096, 4097, 8192, 8193, 70000, 1 << 20, 3 << 20}
		heads := [][]byte{
			append(append([]byte(nil), txid32(5)...), 1, 0, 0, 0),                                // Input: outpoint, then script length
			{1, 0, 0, 0, 0, 0, 0, 0},                                                             // Output: value, then script length
			append(append([]byte{1, 0, 0, 0, 1}, txid32(5)...), 1, 0, 0, 0),                      // Tx with one input
			append(append([]byte{1, 0, 0, 0, 0, 0, 0, 0, 0, 0xEF, 1}, txid32(5)...), 1, 0, 0, 0), // extended Tx with one input
			{1, 0, 0, 0, 0, 1, 9, 0, 0, 0, 0, 0, 0, 0},                                           // Tx, no inputs, one output
			append(append([]byte{1, 1, 0, 0, 0, 1}, txid32(5)...), 1, 0, 0, 0),                   // tx list of one tx
		}
		t.add(len(heads)*len(ks)*len(c09Claims), func(j uint64) c09Case {
			cl := c09Claims[j%uint64(len(c09Claims))]
			j /= uint64(len(c09Claims))
			k := ks[j%uint64(len(ks))]
			h := heads[j/uint64(len(ks))]
			m := append(append([]byte(nil), h...), claimBytes(cl)...)
			m = append(m, fill(k, 0x51)...)
			return c09Case{"bin", m, fmt.Sprintf("claim %d then %d bytes", cl, k)}
		})
		// restricted-alphabet strings
		alpha := []byte{0x00, 0x01, 0x02, 0xEF, 0xFD, 0xFE, 0xFF}
		maxL := 5
		if thorough {
			maxL = 7
		}
		for _, pre := range [][]byte{{}, {1, 0, 0, 0}, {1, 0, 0, 0, 0, 0, 0, 0, 0, 0xEF}} {
			for l := 0; l <= maxL; l++ {
				n := 1
				for i := 0; i < l; i++ {
					n *= len(alpha)
				}
				ll, pp := l, pre
				t.add(n, func(j uint64) c09Case {
					m := make([]byte, len(pp)+ll)
					copy(m, pp)
					for k := ll - 1; k >= 0; k-- {
						m[len(pp)+k] = alpha[j%uint64(len(alpha))]
						j /= uint64(len(alpha))
					}
					return c09Case{"bin", m, "alphabet"}
				})
			}
		}
		// hex TEXT (not bytes): the text of two valid transactions with, at every position, the
		// character replaced by each of 20 odd ones (neighbours of the digit ranges, upper case, control
		// characters, bytes >= 0x80, multi-byte UTF-8), and every text of <=2 characters over that alphabet
		{
			odd := []string{"g", "G", "Z", " ", "\x00", "\x7f", "\x80", "\xc3", "\xe9", "\xff", "é", "€", "/", ":", "@", "`", "A", "F", "\n", "\xf0\x9f\x98\x80"}
			texts := []string{
				hex.EncodeToString((&txRecipe{V: 1, NIn: 1, NOut: 1, SLen: 2, PrevLen: 3, Sats: 5, OLen: 2, Seq: 1}).build().Bytes(false)),
				hex.EncodeToString((&txRecipe{V: 2, NIn: 1, NOut: 1, SLen: 1, PrevLen: 3, Sats: 7, OLen: 1, Seq: 1}).build().Bytes(true)),
			}
			for _, tx := range texts {
				tx := tx
				t.add(len(tx)*len(odd), func(j uint64) c09Case {
					pos, o := int(j)/len(odd), odd[int(j)%len(odd)]
					return c09Case{"hextext", []byte(tx[:pos] + o + tx[pos+1:]), "hextext"}
				})
			}
			short := append([]string{"0", "a", "f", "9"}, odd...)
			t.add(len(short)*(len(short)+1), func(j uint64) c09Case {
				a, b := int(j)/(len(short)+1), int(j)%(len(short)+1)
				if b == len(short) {
					return c09Case{"hextext", []byte(short[a]), "hextext-short"}
				}
				return c09Case{"hextext", []byte(short[a] + short[b]), "hextext-short"}
			})
		}
		// JSON documents
		docs := c09JSONDocs(thorough)
		t.add(len(docs), func(j uint64) c09Case { return c09Case{"json", []byte(docs[j]), "json"} })
		c09Tabs[ti] = t
	})
	return c09Tabs[ti]
}

type oneByteReader struct{ r io.Reader }

func (o oneByteReader) Read(p []byte) (int, error) {
	if len(p) == 0 {
		return 0, nil
	}
	return o.r.Read(p[:1])
}

func allocated() uint64 {
	var m runtime.MemStats
	runtime.ReadMemStats(&m)
	return m.TotalAlloc
}

// c09Check runs every decoder on the case. It is meant to run in a
// single-threaded child (allocation accounting, death attribution).
func c09Check(c c09Case) (fs []rep.Finding) {
	data := []byte(c.Data)
	budget := uint64(64*len(data)) + 256<<10
	call := func(name string, fn func() (int64, bool)) {
		in := append([]byte(nil), data...)
		_ = in
		a0 := allocated()
		var used int64
		var hasUsed bool
		f := rep.Guard(func() { used, hasUsed = fn() })
		a1 := allocated()
		if f != nil {
			f.Key = "panic|" + name + "|" + f.Key[len("panic|"):]
			fs = append(fs, *f)
			return
		}
		if hasUsed && (used > int64(len(data)) || used < 0) {
			fs = append(fs, rep.F("over-report|"+name, fmt.Sprintf("reported %d bytes consumed of %d supplied", used, len(data))))
		}
		if a1-a0 > 8<<20 {
			runtime.GC()
			debug.FreeOSMemory()
		}
		if a1-a0 > budget {
			fs = append(fs, rep.F("alloc|"+name, fmt.Sprintf("allocated %d bytes decoding %d bytes of input", a1-a0, len(data))))
		}
	}
	if c.Kind == "hextext" {
		text := string(data)
		q, _ := json.Marshal(text)
		budget = uint64(64*len(data)) + 256<<10
		call("NewTxFromString/text", func() (int64, bool) {
			t, err := bt.NewTxFromString(text)
			if t == nil && err == nil {
				fs = append(fs, rep.F("neither-value-nor-error|NewTxFromString", "the decoder returned a nil transaction and a nil error"))
			}
			return 0, false
		})
		hexDoc := []byte(`{"hex":` + string(q) + `}`)
		call("json:Tx/hextext", func() (int64, bool) { var t bt.Tx; _ = json.Unmarshal(hexDoc, &t); return 0, false })
		call("json:Tx.NodeJSON/hextext", func() (int64, bool) { t := bt.NewTx(); _ = json.Unmarshal(hexDoc, t.NodeJSON()); return 0, false })
		call("json:Txs.NodeJSON/hextext", func() (int64, bool) {
			var t bt.Txs
			_ = json.Unmarshal([]byte(`[`+string(hexDoc)+`]`), t.NodeJSON())
			return 0, false
		})
		// the same text in every other member that carries hex
		id := `"` + hex.EncodeToString(txid32(3)) + `"`
		for _, d := range []string{
			`{"satoshis":1,"lockingScript":` + string(q) + `}`,
			`{"value":0.1,"scriptPubKey":{"hex":` + string(q) + `}}`,
			`{"txid":` + string(q) + `,"vout":0,"satoshis":1,"lockingScript":"51"}`,
			`{"txid":` + id + `,"vout":0,"satoshis":1,"lockingScript":` + string(q) + `}`,
			`{"txid":` + string(q) + `,"vout":0,"amount":0.1,"scriptPubKey":"51"}`,
			`{"txid":` + id + `,"vout":0,"amount":0.1,"scriptPubKey":` + string(q) + `}`,
			`{"unlockingScript":` + string(q) + `,"txid":` + id + `,"vout":0,"sequence":1}`,
			`{"unlockingScript":"51","txid":` + string(q) + `,"vout":0,"sequence":1}`,
			`{"version":1,"locktime":0,"vin":[{"txid":` + string(q) + `,"vout":0,"scriptSig":{"hex":"51"},"sequence":1}],"vout":[]}`,
			`{"version":1,"locktime":0,"vin":[{"txid":` + id + `,"vout":0,"scriptSig":{"hex":` + string(q) + `},"sequence":1}],"vout":[{"value":0.1,"n":0,"scriptPubKey":{"hex":` + string(q) + `}}]}`,
			`{"version":1,"locktime":0,"inputs":[{"unlockingScript":` + string(q) + `,"txid":` + id + `,"vout":0,"sequence":1}],"outputs":[{"satoshis":1,"lockingScript":` + string(q) + `}]}`,
		} {
			d := []byte(d)
			call("json:members/hextext", func() (int64, bool) {
				var o bt.Output
				_ = json.Unmarshal(d, &o)
				_ = json.Unmarshal(d, o.NodeJSON())
				var u bt.UTXO
				_ = json.Unmarshal(d, &u)
				_ = json.Unmarshal(d, u.NodeJSON())
				var us bt.UTXOs
				_ = json.Unmarshal([]byte(`[`+string(d)+`]`), us.NodeJSON())
				var i bt.Input
				_ = json.Unmarshal(d, &i)
				var t bt.Tx
				_ = json.Unmarshal(d, &t)
				_ = json.Unmarshal(d, t.NodeJSON())
				return 0, false
			})
		}
		return
	}
	if c.Kind == "bin" {
		neither := func(name string, tx *bt.Tx, err error) {
			if tx == nil && err == nil {
				fs = append(fs, rep.F("neither-value-nor-error|"+name, "the decoder returned a nil transaction and a nil error"))
			}
		}
		call("NewTxFromBytes", func() (int64, bool) {
			t, err := bt.NewTxFromBytes(data)
			neither("NewTxFromBytes", t, err)
			return 0, false
		})
		call("NewTxFromStream", func() (int64, bool) {
			t, u, err := bt.NewTxFromStream(data)
			neither("NewTxFromStream", t, err)
			return int64(u), true
		})
		call("Tx.ReadFrom", func() (int64, bool) { var t bt.Tx; n, _ := t.ReadFrom(bytes.NewReader(data)); return n, true })
		call("Tx.ReadFrom/1byte", func() (int64, bool) {
			var t bt.Tx
			n, _ := t.ReadFrom(oneByteReader{bytes.NewReader(data)})
			return n, true
		})
		call("Txs.ReadFrom", func() (int64, bool) { var t bt.Txs; n, _ := t.ReadFrom(bytes.NewReader(data)); return n, true })
		// list targets that are not fresh: spare capacity, nil slots, and a list that already
		// holds decoded transactions (a shorter one, so that slots beyond its length are nil)
		for _, mode := range []string{"spare-capacity", "nil-slots", "used-list"} {
			mode := mode
			call("Txs.ReadFrom/into-"+mode, func() (int64, bool) {
				var t bt.Txs
				switch mode {
				case "spare-capacity":
					t = make(bt.Txs, 0, 8)
				case "nil-slots":
					t = make(bt.Txs, 8)
				case "used-list":
					_, _ = t.ReadFrom(bytes.NewReader(c09ThreeTxList))
				}
				n, _ := t.ReadFrom(bytes.NewReader(data))
				return n, true
			})
		}
		// sources that offer nothing but Read (a connection, a file, an io.LimitReader)
		for _, mode := range []string{"plain", "1byte"} {
			mode := mode
			call("Txs.ReadFrom/"+mode, func() (int64, bool) {
				under := bytes.NewReader(data)
				var src io.Reader = plainReader{under}
				if mode == "1byte" {
					src = oneByteReader{under}
				}
				var t bt.Txs
				n, err := t.ReadFrom(src)
				if err == nil && int64(len(data)-under.Len()) != n {
					fs = append(fs, rep.F("reads-beyond-reported|Txs.ReadFrom/"+mode, fmt.Sprintf("reported %d bytes consumed, took %d from the source", n, len(data)-under.Len())))
				}
				return n, true
			})
		}
		call("Tx.ReadFrom/plain", func() (int64, bool) {
			under := bytes.NewReader(data)
			var t bt.Tx
			n, err := t.ReadFrom(plainReader{under})
			if err == nil && int64(len(data)-under.Len()) != n {
				fs = append(fs, rep.F("reads-beyond-reported|Tx.ReadFrom/plain", fmt.Sprintf("reported %d bytes consumed, took %d from the source", n, len(data)-under.Len())))
			}
			return n, true
		})
		call("Input.ReadFrom", func() (int64, bool) { var i bt.Input; n, _ := i.ReadFrom(bytes.NewReader(data)); return n, true })
		call("Input.ReadFromExtended", func() (int64, bool) {
			var i bt.Input
			n, _ := i.ReadFromExtended(bytes.NewReader(data))
			return n, true
		})
		call("Output.ReadFrom", func() (int64, bool) { var o bt.Output; n, _ := o.ReadFrom(bytes.NewReader(data)); return n, true })
		// targets that already hold a decoded object
		call("Tx.ReadFrom/into-used", func() (int64, bool) {
			var t bt.Tx
			_, _ = t.ReadFrom(bytes.NewReader(c09ThreeTxList[1:]))
			n, _ := t.ReadFrom(bytes.NewReader(data))
			return n, true
		})
		call("Input.ReadFrom/into-used", func() (int64, bool) {
			var i bt.Input
			_, _ = i.ReadFromExtended(bytes.NewReader(c09UsedInput))
			n, _ := i.ReadFrom(bytes.NewReader(data))
			m, _ := i.ReadFromExtended(bytes.NewReader(data))
			if m > n {
				n = m
			}
			return n, true
		})
		call("Output.ReadFrom/into-used", func() (int64, bool) {
			o := bt.Output{Satoshis: 9, LockingScript: libScript([]byte{0x51, 0x52})}
			n, _ := o.ReadFrom(bytes.NewReader(data))
			return n, true
		})
		call("VarInt.ReadFrom", func() (int64, bool) { var v bt.VarInt; n, _ := v.ReadFrom(bytes.NewReader(data)); return n, true })
		hx := hex.EncodeToString(data)
		budget = uint64(64*len(hx)) + 256<<10
		call("NewTxFromString", func() (int64, bool) {
			t, err := bt.NewTxFromString(hx)
			neither("NewTxFromString", t, err)
			return 0, false
		})
		return
	}
	// JSON
	call("json:Tx", func() (int64, bool) { var t bt.Tx; _ = json.Unmarshal(data, &t); return 0, false })
	call("json:Tx.NodeJSON", func() (int64, bool) { t := bt.NewTx(); _ = json.Unmarshal(data, t.NodeJSON()); return 0, false })
	call("json:Txs.NodeJSON", func() (int64, bool) { var t bt.Txs; _ = json.Unmarshal(data, t.NodeJSON()); return 0, false })
	call("json:Output", func() (int64, bool) { var o bt.Output; _ = json.Unmarshal(data, &o); return 0, false })
	call("json:Output.NodeJSON", func() (int64, bool) { var o bt.Output; _ = json.Unmarshal(data, o.NodeJSON()); return 0, false })
	call("json:Input", func() (int64, bool) { var o bt.Input; _ = json.Unmarshal(data, &o); return 0, false })
	call("json:UTXO", func() (int64, bool) { var u bt.UTXO; _ = json.Unmarshal(data, &u); return 0, false })
	call("json:UTXO.NodeJSON", func() (int64, bool) { var u bt.UTXO; _ = json.Unmarshal(data, u.NodeJSON()); return 0, false })
	call("json:UTXOs.NodeJSON", func() (int64, bool) { var u bt.UTXOs; _ = json.Unmarshal(data, u.NodeJSON()); return 0, false })
	// targets that already hold a decoded object
	call("json:Tx/into-used", func() (int64, bool) {
		t, err := bt.NewTxFromBytes(c09ThreeTxList[1 : 1+(len(c09ThreeTxList)-1)/3])
		if err != nil {
			return 0, false
		}
		_ = json.Unmarshal(data, t)
		_ = json.Unmarshal(data, t.NodeJSON())
		return 0, false
	})
	call("json:UTXO/into-used", func() (int64, bool) {
		u := bt.UTXO{TxID: txid32(7), Vout: 1, Satoshis: 5, LockingScript: libScript([]byte{0x51})}
		_ = json.Unmarshal(data, &u)
		_ = json.Unmarshal(data, u.NodeJSON())
		return 0, false
	})
	call("json:Output/into-used", func() (int64, bool) {
		o := bt.Output{Satoshis: 9, LockingScript: libScript([]byte{0x51, 0x52})}
		_ = json.Unmarshal(data, &o)
		_ = json.Unmarshal(data, o.NodeJSON())
		return 0, false
	})
	return
}

// c09ThreeTxList is a counted list of three small transactions (append leaves a fourth, nil slot).
var c09ThreeTxList = func() []byte {
	one := (&txRecipe{V: 1, NIn: 1, NOut: 1, SLen: 2, PrevLen: 3, Sats: 5, OLen: 2, Seq: 1}).build().Bytes(false)
	b := []byte{3}
	for i := 0; i < 3; i++ {
		b = append(b, one...)
	}
	return b
}()

// c09UsedInput is the extended serialisation of one input.
var c09UsedInput = func() []byte {
	t := (&txRecipe{V: 1, NIn: 1, NOut: 1, SLen: 2, PrevLen: 3, Sats: 5, OLen: 2, Seq: 1}).build()
	b := t.Bytes(true)
	// version(4) marker(6) count(1), then the input up to the output count
	end := len(b) - 4 - (8 + 1 + 2) - 1
	return b[11:end]
}()

// c09JSONDocs enumerates JSON documents: product of per-field variants.
func c09JSONDocs(thorough bool) (docs []string) {
	validTx := hex.EncodeToString((&txRecipe{V: 1, NIn: 1, NOut: 1, SLen: 2, PrevLen: 3, Sats: 5, OLen: 2, Seq: 1}).build().Bytes(false))
	hugeTx := "01000000" + "01" + hex.EncodeToString(txid32(1)) + "00000000" + "ff0000000001000000" // script length 2^32
	hexV := []string{"", `"hex":"` + validTx + `"`, `"hex":""`, `"hex":"zz"`, `"hex":"abc"`, `"hex":5`, `"hex":null`, `"hex":"` + hugeTx + `"`,
		`"hex":"` + validTx + `00"`, `"hex":"` + validTx + validTx + `"`, `"hex":"` + validTx[:len(validTx)-2] + `"`}
	u32V := []string{"", `1`, `-1`, `"x"`, `4294967296`, `null`, `1.5`}
	txidV := []string{"", `"txid":"` + hex.EncodeToString(txid32(3)) + `"`, `"txid":"abcd"`, `"txid":"zz"`, `"txid":7`, `"txid":null`}
	scriptSigV := []string{"", `"scriptSig":null`, `"scriptSig":{}`, `"scriptSig":{"hex":"51"}`, `"scriptSig":{"hex":"5"}`, `"scriptSig":{"hex":7}`, `"scriptSig":"51"`, `"unlockingScript":"51"`, `"unlockingScript":"5x"`}
	spkV := []string{"", `"scriptPubKey":null`, `"scriptPubKey":{}`, `"scriptPubKey":{"hex":"76a9"}`, `"scriptPubKey":{"hex":"7"}`, `"scriptPubKey":"76a9"`, `"scriptPubKey":{"hex":[]}`, `"lockingScript":"51"`, `"lockingScript":"5"`, `"lockingScript":5`}
	valV := []string{"", `"value":0.00000029`, `"value":-1`, `"value":1e30`, `"value":"1"`, `"value":null`, `"satoshis":5`, `"satoshis":-5`, `"satoshis":1e30`, `"amount":0.5`, `"amount":"x"`,
		// number texts a hand-written amount parser meets: more than eight decimals, exponents, huge, negative zero
		`"value":0.123456789`, `"value":1.0000000000000000`, `"value":1e-9`, `"value":1E400`, `"value":-0.0`, `"value":0.1e-7`, `"value":12345678901234567890123`,
		`"amount":0.123456789`, `"amount":1e400`, `"amount":1e-9`, `"satoshis":18446744073709551616`, `"satoshis":0.5`}
	join := func(parts ...string) string {
		s := ""
		for _, p := range parts {
			if p == "" {
				continue
			}
			if s != "" {
				s += ","
			}
			s += p
		}
		return "{" + s + "}"
	}
	num := func(name, v string) string {
		if v == "" {
			return ""
		}
		return `"` + name + `":` + v
	}
	// elements
	var vins, vouts []string
	for _, a := range txidV {
		for _, b := range scriptSigV {
			for _, c := range []string{"", "1", `"x"`} {
				vins = append(vins, join(a, b, num("vout", c), num("sequence", c)))
			}
		}
	}
	for _, a := range valV {
		for _, b := range spkV {
			vouts = append(vouts, join(a, b, num("n", "0"), num("vout", "1"), txidV[1]))
			if a == valV[1] {
				for _, nv := range []string{"-1", "1", "5", "2147483648", "-9223372036854775808", "1e30", `"0"`, "null"} {
					vouts = append(vouts, join(a, b, num("n", nv)))
				}
			}
		}
	}
	// element documents on their own (Output, UTXO, Input targets)
	docs = append(docs, vins...)
	docs = append(docs, vouts...)
	lists := func(elems []string) []string {
		out := []string{"", "null", "[]", "[null]", "[{}]", "5", `"x"`}
		for _, e := range elems {
			out = append(out, "["+e+"]")
		}
		return out
	}
	vinL, voutL := lists(vins), lists(vouts)
	// transaction documents: hex x version x (vin list) and hex x (vout list)
	for _, h := range hexV {
		for _, v := range u32V {
			for _, vin := range vinL {
				docs = append(docs, join(h, num("version", v), num("locktime", v), num("lockTime", v), num("vin", vin), num("inputs", vin)))
			}
			if !thorough && v != "" && v != "1" {
				continue
			}
			for _, vout := range voutL {
				docs = append(docs, join(h, num("version", v), num("vout", vout), num("outputs", vout), num("vin", `[{"txid":"`+hex.EncodeToString(txid32(3))+`","scriptSig":{"hex":"51"}}]`)))
			}
		}
	}
	// members a node adds next to "hex" and that a decoder may be tempted to trust: size, txid, hash, confirmations
	for _, h := range []string{hexV[1], hexV[4], hexV[8]} {
		for _, sz := range []string{"0", "1", "9", "-1", "-1099511627776", "268435456", "4294967296", "1e30", `"x"`, "null", "1.5"} {
			docs = append(docs, join(h, num("size", sz)), join(num("size", sz), h), "["+join(h, num("size", sz))+"]",
				join(h, num("size", sz), num("vin", `[{"txid":"`+hex.EncodeToString(txid32(3))+`","scriptSig":{"hex":"51"}}]`)))
		}
		for _, tv := range []string{`"abcd"`, `""`, "5", "null", `"` + hex.EncodeToString(txid32(3)) + `"`} {
			docs = append(docs, join(h, num("txid", tv), num("hash", tv), num("confirmations", "-1"), num("blocktime", "1e30")))
		}
	}
	// list documents
	for _, d := range []string{"null", "[]", "[null]", "[{}]", "[[]]", "{}", "5", `"x"`, "[" + join(hexV[1]) + "]", "[" + join(hexV[1]) + ",null]", "[" + join(hexV[7]) + "]"} {
		docs = append(docs, d)
	}
	for _, e := range vouts {
		docs = append(docs, "["+e+","+e+"]")
	}
	// fee quote documents
	for _, d := range []string{`{"standard":null}`, `{"standard":{"miningFee":{"satoshis":1,"bytes":0}}}`, `{"data":{},"standard":{}}`, `{"other":{}}`, `{"standard":5}`, `[]`} {
		docs = append(docs, d)
	}
	// malformed JSON
	docs = append(docs, "", "{", `{"hex":`, "nul", `{"vin":[{]}`)
	return docs
}

func init() {
	p := register(&Prop{ID: "C09", Level: "fault_enumeration",
		Rule: "exhaustive fault-style enumeration in single-threaded child processes (address-space limit, per-case progress marker, death/hang attribution): for each of ~22 (quick) / 26 (thorough) reference serialisations (standard and extended): every truncation length, the whole serialisation followed by surplus bytes, every single-bit flip, every byte replaced by every other value, every length/count field replaced by each of {0xfc,253,65535,65536,2^24,2^31,2^32-1,2^32,2^40,2^63,2^64-1} with the tail kept/cut/one byte, tx-list counts with those claims, every short wide-varint prefix; all strings of length<=5/7 over {00,01,02,EF,FD,FE,FF} bare, after a version and after the extended marker; a product of JSON documents (absent/null/valid/wrong-type/bad-hex per field incl. vin[i].scriptSig, vout[i].scriptPubKey, null elements, lists, fee quotes); amount texts with more than eight decimals, exponents and overflow, `size`/`txid`/`hash` members that disagree with `hex`; hex TEXT (two transaction texts with every character replaced by each of 20 odd ones - neighbours of the digit ranges, control characters, bytes >= 0x80, multi-byte UTF-8 - and every text of <=2 characters) through NewTxFromString, the `hex` member of the three transaction documents and every other member that carries hex; each through every binary (19, incl. readers that expose only Read and list targets with spare capacity, nil slots or earlier content) or JSON (13) decoding entry point, incl. targets that already hold a decoded object. Oracle per call: no panic, no process death, a value or an error (never neither), bytes-consumed <= bytes supplied, TotalAlloc delta <= 64*len+256KiB. distinct_nontrivial = distinct (family, decoder-outcome vector) classes",
	})
	check := func(th bool, i uint64) []rep.Finding { return c09Check(c09Tab(th).at(i)) }
	worker.Register(&worker.Space{
		Name:  "c09",
		N:     func(th bool) uint64 { return c09Tab(th).n },
		Case:  func(th bool, i uint64) any { return c09Tab(th).at(i) },
		Check: check,
		Class: func(th bool, i uint64) string {
			c := c09Tab(th).at(i)
			cls := c.Kind + ":" + c.Note
			if len(cls) > 24 {
				cls = cls[:24]
			}
			if c.Kind == "bin" {
				_, _, err := bt.NewTxFromStream(c.Data)
				var in bt.Input
				_, e2 := in.ReadFrom(bytes.NewReader(c.Data))
				var o bt.Output
				_, e3 := o.ReadFrom(bytes.NewReader(c.Data))
				cls += fmt.Sprintf("|%v%v%v", err == nil, e2 == nil, e3 == nil)
			} else {
				t := bt.NewTx()
				e1 := json.Unmarshal(c.Data, t.NodeJSON())
				var o bt.Output
				e2 := json.Unmarshal(c.Data, &o)
				cls += fmt.Sprintf("|%v%v", e1 == nil, e2 == nil)
			}
			return cls
		},
	})
	// replay space: run the case in-process (a fatal case kills the replay process, which is the demonstration)
	NewSpace(p, "c09", c09Check)
	p.Run = func(r *rep.Run, thorough bool) {
		t := c09Tab(thorough)
		r.Note("cases", t.n)
		r.Sample("c09", t.at(3))
		r.Sample("c09", t.at(t.n/2))
		r.Sample("c09", t.at(t.n-10))
		worker.Run(r, "c09", thorough, 16)
	}
}
